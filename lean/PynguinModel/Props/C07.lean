import PynguinModel.Lemmas.GoalGraphBuild
/-!
# C07 — Every branch goal is reachable in the DynaMOSA goal graph

Dynamic part (`Inv`, for every goal graph and every search history): after `__init__` and after
every `update`, every root goal and every structural child of a covered goal is a current goal or
already covered, current goals are never covered ones, and everything the archive tracks is current
or covered (`inv_history`).  Consequently a goal is current as soon as one — a fortiori all — of the
goals it depends on is covered (`goal_current_when_parent_covered`, `path_goal_current`), and when the
current goals run empty every goal reachable in the goal graph is covered
(`all_covered_when_no_current`).

Static part (`all_goals_reachable`, for all registries and all stored CDGs satisfying `CoOK` /
`RegistryOK`): `_build_graph` raises nothing (no `KeyError` for `nodes_predicates[dependency.node]`,
no `RuntimeError`, no "Root branches" assertion) and every goal is reachable from a root goal.
`parents_own_dependencies` (ALL registries, no hypothesis): every edge of a successfully built goal graph
leads from a goal of a predicate of the SAME code object, registered on a node the target's predicate is control
dependent on (as its own CDG reports), to the target.
`removeNodes_preserves`: the node removal of `_create_covered_cdg` (re-linking without branch values)
keeps the two graph hypotheses.  `covered_cdg_ok`: WHICH nodes `_create_covered_cdg` removes is modelled too
(`keepNode` / `removedNodes` over the exported `BlockInfo`s, `coveredCdg`); since `visit_node` applies the same
exclusion test before registering a predicate (`visitGate`; `gate_keeps`, `kept_gate` — a block that merely
CONTAINS a `TryBegin`/`TryEnd` pseudo instruction is treated like any other), every labelled edge of the covered
CDG leaves a registered predicate node and registered nodes survive (`registered_not_removed`), given the per
module checked `checkPrune`.  `checkModule_sound`: the executable checkers the driver runs on every
exported real module imply the hypotheses, hence the conclusion for that module.
-/
namespace PynguinModel.GoalGraph
open PynguinModel.Cdg (Node Label)

structure Inv (G : GG) (s : St) : Prop where
  roots : ∀ g ∈ G.roots, g ∈ s.current ∨ g ∈ s.covered
  closed : ∀ p c, (p, c) ∈ G.edges → p ∈ s.covered → c ∈ s.current ∨ c ∈ s.covered
  disj : ∀ g ∈ s.current, g ∉ s.covered
  obj : ∀ g ∈ s.objectives, g ∈ s.current ∨ g ∈ s.covered
  cur_obj : ∀ g ∈ s.current, g ∈ s.objectives

theorem inv_init (G : GG) : Inv G (init G) := by
  unfold init addGoals
  refine ⟨?_, ?_, ?_, ?_, ?_⟩
  · intro g hg; left; exact (mem_foldl_ins _ _ _).2 (Or.inr hg)
  · intro p c _ hp; cases hp
  · intro g _ h; cases h
  · intro g hg
    simp only [mem_foldl_ins, List.not_mem_nil, false_or] at hg
    left; simpa [mem_foldl_ins] using hg
  · intro g hg
    simp only [mem_foldl_ins, List.not_mem_nil, false_or] at hg ⊢
    exact hg

/-- One loop iteration of `update` preserves the invariant, whatever the batch covers. -/
theorem inv_pass (G : GG) (cov : Goal → Bool) (s : St) (h : Inv G s) : Inv G (pass G cov s).1 := by
  rw [pass_eq]
  simp only
  -- abbreviations
  have hcov : ∀ x, x ∈ (archiveUpdate cov s).covered ↔ x ∈ s.covered ∨ (x ∈ s.objectives ∧ cov x = true) :=
    mem_archiveUpdate_covered cov s
  have hcur : (archiveUpdate cov s).current = s.current := rfl
  have hobj : (archiveUpdate cov s).objectives = s.objectives := rfl
  generalize hs1 : archiveUpdate cov s = s1 at *
  have hnew : ∀ x, x ∈ (s1.current.foldl (outerStep G s1.current s1.covered) ([], false)).1 ↔
      (x ∈ s1.current ∧ x ∉ s1.covered) ∨
        (∃ p, p ∈ s1.current ∧ p ∈ s1.covered ∧ (p, x) ∈ G.edges ∧ x ∉ s1.current ∧ x ∉ s1.covered) := by
    intro x; rw [mem_outer]; simp
  generalize (s1.current.foldl (outerStep G s1.current s1.covered) ([], false)).1 = ng at *
  -- covered grows
  have hmono : ∀ x, x ∈ s.covered → x ∈ s1.covered := fun x hx => (hcov x).2 (Or.inl hx)
  -- a newly covered goal was current
  have hnewcov : ∀ x, x ∈ s1.covered → x ∈ s.covered ∨ x ∈ s1.current := by
    intro x hx
    rcases (hcov x).1 hx with h1 | ⟨h1, _⟩
    · exact Or.inl h1
    · rcases h.obj x h1 with h2 | h2
      · right; rw [hcur]; exact h2
      · exact Or.inl h2
  unfold addGoals
  refine ⟨?_, ?_, ?_, ?_, ?_⟩
  · -- roots
    intro g hg
    show g ∈ ng ∨ g ∈ s1.covered
    rcases h.roots g hg with h1 | h1
    · by_cases hc : g ∈ s1.covered
      · exact Or.inr hc
      · left; exact (hnew g).2 (Or.inl ⟨by rw [hcur]; exact h1, hc⟩)
    · exact Or.inr (hmono g h1)
  · -- closed
    intro p c he hp
    show c ∈ ng ∨ c ∈ s1.covered
    by_cases hc : c ∈ s1.covered
    · exact Or.inr hc
    · left
      by_cases hcc : c ∈ s1.current
      · exact (hnew c).2 (Or.inl ⟨hcc, hc⟩)
      · rcases hnewcov p hp with h1 | h1
        · -- p was covered before: its children were current or covered before
          rcases h.closed p c he h1 with h2 | h2
          · exact absurd (by rw [hcur]; exact h2) hcc
          · exact absurd (hmono c h2) hc
        · exact (hnew c).2 (Or.inr ⟨p, h1, hp, he, hcc, hc⟩)
  · -- disjoint
    intro g hg
    show g ∉ s1.covered
    have hg' : g ∈ ng := hg
    rcases (hnew g).1 hg' with ⟨_, h2⟩ | ⟨_, _, _, _, _, h2⟩ <;> exact h2
  · -- objectives are current or covered
    intro g hg
    show g ∈ ng ∨ g ∈ s1.covered
    have hg' : g ∈ ng.foldl ins s1.objectives := hg
    rcases (mem_foldl_ins _ _ _).1 hg' with h1 | h1
    · rw [hobj] at h1
      rcases h.obj g h1 with h2 | h2
      · by_cases hc : g ∈ s1.covered
        · exact Or.inr hc
        · left; exact (hnew g).2 (Or.inl ⟨by rw [hcur]; exact h2, hc⟩)
      · exact Or.inr (hmono g h2)
    · exact Or.inl h1
  · intro g hg
    show g ∈ ng.foldl ins s1.objectives
    exact (mem_foldl_ins _ _ _).2 (Or.inr hg)

theorem inv_update (G : GG) (cov : Goal → Bool) :
    ∀ (fuel : Nat) (s : St), Inv G s → Inv G (update G cov fuel s)
  | 0, _, h => h
  | fuel + 1, s, h => by
    unfold update
    simp only
    split
    · exact inv_update G cov fuel _ (inv_pass G cov s h)
    · exact inv_pass G cov s h

/-- **C07, dynamic part, for every goal graph and every search history.** -/
theorem inv_history (G : GG) (fuel : Nat) (covs : List (Goal → Bool)) :
    Inv G (runUpdates G fuel (init G) covs) := by
  unfold runUpdates
  suffices h : ∀ s, Inv G s → Inv G (covs.foldl (fun s cov => update G cov fuel s) s) from h _ (inv_init G)
  induction covs with
  | nil => intro s h; exact h
  | cons c cs ih => intro s h; exact ih _ (inv_update G c fuel s h)

/-- A goal is a root goal or becomes current (or is already covered) once some structural parent is
covered — hence certainly once *all* goals it depends on are covered. -/
theorem goal_current_when_parent_covered {G : GG} {s : St} (h : Inv G s) (g : Goal)
    (hg : g ∈ G.roots ∨ ∃ p, (p, g) ∈ G.edges ∧ p ∈ s.covered) : g ∈ s.current ∨ g ∈ s.covered := by
  rcases hg with hr | ⟨p, he, hp⟩
  · exact h.roots g hr
  · exact h.closed p g he hp

/-- Paths in the goal graph starting at a root (checked per module by the driver). -/
def checkGoalPath (G : GG) : List Goal → Bool
  | [] => false
  | [r] => G.roots.contains r
  | p :: c :: rest => G.edges.contains (c, p) && checkGoalPath G (c :: rest)

/-- If `path = [g, p₁, …, root]` is a (reversed) path from a root to `g` and every goal strictly
before `g` on it is covered, then `g` is current or covered: no goal is ever out of reach of the
search for structural reasons. -/
theorem path_goal_current {G : GG} {s : St} (h : Inv G s) :
    ∀ (g : Goal) (rest : List Goal), checkGoalPath G (g :: rest) = true →
      (∀ x ∈ rest, x ∈ s.covered) → g ∈ s.current ∨ g ∈ s.covered := by
  intro g rest hp hc
  cases rest with
  | nil =>
    simp only [checkGoalPath, List.contains_eq_mem, decide_eq_true_eq] at hp
    exact h.roots g hp
  | cons p rest =>
    simp only [checkGoalPath, Bool.and_eq_true, List.contains_eq_mem, decide_eq_true_eq] at hp
    exact h.closed p g hp.1 (hc p (by simp))

/-- Covered goals are never lost by `update` (the archive only grows). -/
theorem covered_mono_pass (G : GG) (cov : Goal → Bool) (s : St) (x : Goal) (hx : x ∈ s.covered) :
    x ∈ (pass G cov s).1.covered := by
  rw [pass_eq]
  exact (mem_archiveUpdate_covered cov s x).2 (Or.inl hx)

theorem covered_mono_update (G : GG) (cov : Goal → Bool) :
    ∀ (fuel : Nat) (s : St) (x : Goal), x ∈ s.covered → x ∈ (update G cov fuel s).covered
  | 0, _, _, h => h
  | fuel + 1, s, x, h => by
    unfold update
    simp only
    split
    · exact covered_mono_update G cov fuel _ x (covered_mono_pass G cov s x h)
    · exact covered_mono_pass G cov s x h

/-- Nothing is left behind: when the set of current goals runs empty, every goal that is reachable
in the goal graph is covered (so, with `all_goals_reachable`, every goal of the module). -/
theorem all_covered_when_no_current {G : GG} {s : St} (h : Inv G s) (he : s.current = [])
    {g : Goal} (hg : GoalReach G g) : g ∈ s.covered := by
  induction hg with
  | root hr =>
    rcases h.roots _ hr with h1 | h1
    · rw [he] at h1; cases h1
    · exact h1
  | step _ hedge ih =>
    rcases h.closed _ _ hedge ih with h1 | h1
    · rw [he] at h1; cases h1
    · exact h1

/-! ### Static part: `_build_graph` succeeds and every goal is reachable from a root goal -/

/-- Hypotheses about one code object's stored CDG `g` (after `_create_covered_cdg`), the registered
predicates, and the answers `ci` the CDG gave to `_build_graph`. -/
structure CoOK (preds : List Pred) (ci : CoInfo) (g : CG) (isBlock : Node → Bool) (root : Node) : Prop where
  /-- every labelled edge that leaves a basic block leaves a registered predicate node -/
  labelled_registered : ∀ p v m, DepEdge g isBlock p v m → ∃ dp, dp ∈ preds ∧ dp.co = ci.co ∧ dp.node = p
  /-- the node of a registered predicate is in the CDG and reachable from its root -/
  has_node : ∀ pm ∈ preds, pm.co = ci.co → ci.hasNode pm.node = true
  reach : ∀ pm ∈ preds, pm.co = ci.co → Reach g root pm.node
  /-- `get_control_dependencies` returns exactly the dependence edges that reach the node through
  pass edges -/
  deps_spec : ∀ pm ∈ preds, pm.co = ci.co → ∀ p v,
    (p, v) ∈ ci.deps pm.node ↔ ∃ m, DepEdge g isBlock p v m ∧ PassPath g isBlock m pm.node
  /-- `is_control_dependent_on_root` finds a pass path from the root when there is one — or, since its
  `visited` set also swallows nodes met over labelled edges, some control dependency of the node sits
  strictly closer to the root (for some ranking of the nodes) on a pass path from the root -/
  root_or_closer : ∃ rank : Node → Nat, ∀ pm ∈ preds, pm.co = ci.co → PassPath g isBlock root pm.node →
    ci.rootDep pm.node = true ∨
      ∃ p v, (p, v) ∈ ci.deps pm.node ∧ rank p < rank pm.node ∧ PassPath g isBlock root p

/-- Hypotheses about the registries: predicate ids are keys, the goal pool holds both branch goals of
every registered predicate and nothing else, code objects of predicates are registered. -/
structure RegistryOK (goals : List GoalKind) (preds : List Pred) (cos : List CoInfo) : Prop where
  ids_unique : ∀ p ∈ preds, preds.find? (fun q => q.id == p.id) = some p
  goals_complete : ∀ p ∈ preds, ∀ v, GoalKind.branch p.co p.id v ∈ goals
  co_known : ∀ p ∈ preds, ∃ ci, cos.find? (fun c => c.co == p.co) = some ci
  goals_registered : ∀ c pid v, GoalKind.branch c pid v ∈ goals →
    ∃ pm, preds.find? (fun p => p.id == pid) = some pm ∧ pm.co = c

section Static
variable {goals : List GoalKind} {preds : List Pred} {cos : List CoInfo}

/-- Every control dependency of a registered predicate resolves to a registered predicate and to a
fitness function: no `KeyError`, no `RuntimeError`. -/
theorem dependency_resolves (hr : RegistryOK goals preds cos) {ci : CoInfo} {g : CG}
    {isBlock : Node → Bool} {root : Node} (hc : CoOK preds ci g isBlock root)
    {pm : Pred} (hpm : pm ∈ preds) (hco : pm.co = ci.co) {d : Nat × Bool} (hd : d ∈ ci.deps pm.node) :
    ∃ j, resolveDep goals preds pm.co d = .ok j := by
  obtain ⟨p, v⟩ := d
  obtain ⟨m, hdep, _⟩ := (hc.deps_spec pm hpm hco p v).1 hd
  obtain ⟨dp, hdp, hdco, hdn⟩ := hc.labelled_registered p v m hdep
  obtain ⟨dp', hnp⟩ := nodePred_isSome hdp (hdco.trans hco.symm) hdn
  obtain ⟨hdp', hco', _⟩ := nodePred_some hnp
  have hgoal : GoalKind.branch pm.co dp'.id v ∈ goals := by
    have := hr.goals_complete dp' hdp' v
    rwa [hco'] at this
  obtain ⟨j, hj⟩ := findGoal_isSome hgoal
  exact ⟨j, by simp [resolveDep, hnp, hj]⟩

theorem goalPlan_ok (hr : RegistryOK goals preds cos)
    (hc : ∀ ci ∈ cos, ∃ g isBlock root, CoOK preds ci g isBlock root) {gk : GoalKind} (hg : gk ∈ goals) :
    ∃ pl, goalPlan goals preds cos gk = .ok pl := by
  cases gk with
  | branchless c => exact ⟨⟨true, []⟩, rfl⟩
  | branch c pid v =>
    obtain ⟨pm, hpm, _⟩ := hr.goals_registered c pid v hg
    have hpmem := List.mem_of_find?_eq_some hpm
    obtain ⟨ci, hci⟩ := hr.co_known pm hpmem
    have hcimem := List.mem_of_find?_eq_some hci
    have hcico : pm.co = ci.co := by
      have := List.find?_some hci
      simp only [beq_iff_eq] at this
      exact this.symm
    obtain ⟨g, isBlock, root, hok⟩ := hc ci hcimem
    obtain ⟨ps, hps⟩ := mapE_ok_of_forall (f := resolveDep goals preds pm.co) (l := ci.deps pm.node)
      (fun d hd => dependency_resolves hr hok hpmem hcico hd)
    exact ⟨⟨ci.rootDep pm.node, ps⟩, by simp [goalPlan, hpm, hci, hok.has_node pm hpmem hcico, hps]⟩

/-- The plan of a branch goal, spelled out. -/
theorem plan_of_branch {plans : List Plan} (hplans : mapE (goalPlan goals preds cos) goals = .ok plans)
    {i : Nat} {c pid : Nat} {v : Bool} (hi : goals[i]? = some (.branch c pid v))
    {pm : Pred} (hpm : preds.find? (fun p => p.id == pid) = some pm)
    {ci : CoInfo} (hci : cos.find? (fun c => c.co == pm.co) = some ci) :
    ∃ ps, plans[i]? = some ⟨ci.rootDep pm.node, ps⟩ ∧
      mapE (resolveDep goals preds pm.co) (ci.deps pm.node) = .ok ps := by
  obtain ⟨pl, hpl, hf⟩ := mapE_ok_getElem? hplans i _ hi
  simp only [goalPlan, hpm, hci] at hf
  split at hf
  · cases hf
  · split at hf
    · cases hf
    · rename_i ps hps
      cases hf
      exact ⟨ps, hpl, hps⟩

/-- A goal whose predicate node has the control dependency `(m, w)` is reachable as soon as the
goals of the predicate registered on `m` are. -/
theorem via_dep (hr : RegistryOK goals preds cos) {plans : List Plan}
    (hplans : mapE (goalPlan goals preds cos) goals = .ok plans)
    {ci : CoInfo} {pm : Pred} (hpm : pm ∈ preds) (hci : cos.find? (fun c => c.co == pm.co) = some ci)
    {i c : Nat} {v : Bool} (hi : goals[i]? = some (.branch c pm.id v))
    {m : Node} {w : Bool} (hd : (m, w) ∈ ci.deps pm.node)
    (hrec : ∀ dp ∈ preds, dp.co = pm.co → dp.node = m →
      ∀ j c' v', goals[j]? = some (.branch c' dp.id v') → GoalReach (assemble plans) j) :
    GoalReach (assemble plans) i := by
  obtain ⟨ps, hpl, hps⟩ := plan_of_branch hplans hi (hr.ids_unique pm hpm) hci
  obtain ⟨j, hj, hres⟩ := mapE_ok_mem hps hd
  unfold resolveDep at hres
  split at hres
  · cases hres
  · rename_i dp hnp
    split at hres
    · cases hres
    · rename_i j' hfg
      cases hres
      obtain ⟨hdp, hdco, hdn⟩ := nodePred_some hnp
      exact GoalReach.step (hrec dp hdp hdco hdn j pm.co w (findGoal_some hfg)) (assemble_edge hpl hj)

/-- Predicate nodes with a pass path from the CDG root: root goals, or — by induction on the rank —
children of goals of a predicate closer to the root. -/
theorem reach_root_case (hr : RegistryOK goals preds cos) {plans : List Plan}
    (hplans : mapE (goalPlan goals preds cos) goals = .ok plans)
    {ci : CoInfo} {g : CG} {isBlock : Node → Bool} {root : Node} (hok : CoOK preds ci g isBlock root) :
    ∀ pm ∈ preds, pm.co = ci.co → cos.find? (fun c => c.co == pm.co) = some ci →
      PassPath g isBlock root pm.node →
      ∀ i c v, goals[i]? = some (.branch c pm.id v) → GoalReach (assemble plans) i := by
  obtain ⟨rank, hrank⟩ := hok.root_or_closer
  suffices h : ∀ N, ∀ pm ∈ preds, rank pm.node = N → pm.co = ci.co →
      cos.find? (fun c => c.co == pm.co) = some ci → PassPath g isBlock root pm.node →
      ∀ i c v, goals[i]? = some (.branch c pm.id v) → GoalReach (assemble plans) i from
    fun pm hpm => h (rank pm.node) pm hpm rfl
  intro N
  induction N using Nat.strongRecOn with
  | _ N ih =>
    intro pm hpm hN hco hci hpath i c v hi
    rcases hrank pm hpm hco hpath with hroot | ⟨p, w, hd, hlt, hpp⟩
    · obtain ⟨ps, hpl, _⟩ := plan_of_branch hplans hi (hr.ids_unique pm hpm) hci
      exact GoalReach.root (assemble_root hpl hroot)
    · refine via_dep hr hplans hpm hci hi hd ?_
      intro dp hdp hdco hdn j c' v' hj
      have hci' : cos.find? (fun c => c.co == dp.co) = some ci := by rw [hdco]; exact hci
      refine ih (rank dp.node) ?_ dp hdp rfl (hdco.trans hco) hci' ?_ j c' v' hj
      · rw [hdn, ← hN]; exact hlt
      · rw [hdn]; exact hpp

/-- Core induction: walking the CDG from its root, the goals of every registered predicate met on
the way (or reached from there through pass edges) are reachable from a root goal. -/
theorem reach_core (hr : RegistryOK goals preds cos) {plans : List Plan}
    (hplans : mapE (goalPlan goals preds cos) goals = .ok plans)
    {ci : CoInfo} {g : CG} {isBlock : Node → Bool} {root : Node} (hok : CoOK preds ci g isBlock root)
    {n : Node} (hn : Reach g root n) :
    ∀ pm ∈ preds, pm.co = ci.co → cos.find? (fun c => c.co == pm.co) = some ci →
      PassPath g isBlock n pm.node →
      ∀ i c v, goals[i]? = some (.branch c pm.id v) → GoalReach (assemble plans) i := by
  induction hn with
  | root => exact reach_root_case hr hplans hok
  | @step m n l _ hedge ih =>
    intro pm hpm hco hci hpath i c v hi
    rcases edge_cases (isBlock := isBlock) hedge with hpass | ⟨w, hdep⟩
    · exact ih pm hpm hco hci (PassPath.head hpass hpath) i c v hi
    · -- the last dependence edge before `pm.node`: its source is a registered predicate
      have hd : (m, w) ∈ ci.deps pm.node := (hok.deps_spec pm hpm hco m w).2 ⟨n, hdep, hpath⟩
      refine via_dep hr hplans hpm hci hi hd ?_
      intro dp hdp hdco hdn j c' v' hj
      have hci' : cos.find? (fun c => c.co == dp.co) = some ci := by rw [hdco]; exact hci
      refine ih dp hdp (hdco.trans hco) hci' ?_ j c' v' hj
      rw [hdn]; exact PassPath.refl _

/-- **C07, static part.**  If every code object's stored CDG satisfies `CoOK` (root-reachability of
predicate nodes, labelled edges leave registered predicates, the two CDG queries answer what the
graph defines) and the registries are consistent, then `_build_graph` raises nothing — neither the
`KeyError` of `nodes_predicates[dependency.node]`, nor the `RuntimeError` of
`_goal_to_fitness_function`, nor the "Root branches" assertion — and every goal is reachable from a
root goal in the graph it builds. -/
theorem all_goals_reachable (hr : RegistryOK goals preds cos)
    (hc : ∀ ci ∈ cos, ∃ g isBlock root, CoOK preds ci g isBlock root) :
    ∃ G, buildGraph goals preds cos = .ok G ∧ ∀ i, i < goals.length → GoalReach G i := by
  obtain ⟨plans, hplans⟩ := mapE_ok_of_forall (f := goalPlan goals preds cos) (l := goals)
    (fun gk hg => goalPlan_ok hr hc hg)
  have hreach : ∀ i, i < goals.length → GoalReach (assemble plans) i := by
    intro i hi
    have hgi : goals[i]? = some goals[i] := by simp [hi]
    cases hk : goals[i] with
    | branchless c =>
      rw [hk] at hgi
      obtain ⟨pl, hpl, hf⟩ := mapE_ok_getElem? hplans i _ hgi
      simp only [goalPlan] at hf
      cases hf
      exact GoalReach.root (assemble_root hpl rfl)
    | branch c pid v =>
      rw [hk] at hgi
      have hmem : GoalKind.branch c pid v ∈ goals := List.mem_iff_getElem?.2 ⟨i, hgi⟩
      obtain ⟨pm, hpm, _⟩ := hr.goals_registered c pid v hmem
      have hpmem := List.mem_of_find?_eq_some hpm
      have hid : pm.id = pid := by
        have := List.find?_some hpm
        simpa using this
      obtain ⟨ci, hci⟩ := hr.co_known pm hpmem
      have hcico : pm.co = ci.co := by
        have := List.find?_some hci
        simp only [beq_iff_eq] at this
        exact this.symm
      obtain ⟨g, isBlock, root, hok⟩ := hc ci (List.mem_of_find?_eq_some hci)
      subst hid
      exact reach_core hr hplans hok (hok.reach pm hpmem hcico) pm hpmem hcico hci (PassPath.refl _) i c v hgi
  refine ⟨assemble plans, ?_, hreach⟩
  have hs : sanityOk goals.length (assemble plans) = true := by
    simp only [sanityOk, List.all_eq_true, List.mem_range, Bool.or_eq_true, List.any_eq_true, beq_iff_eq,
      List.contains_eq_mem, decide_eq_true_eq]
    intro i hi
    cases hreach i hi with
    | root h => exact Or.inr h
    | step _ h => exact Or.inl ⟨_, h, rfl⟩
  simp [buildGraph, hplans, hs]

end Static

/-- **A goal's structural parents are its OWN control dependencies.**  Whenever `_build_graph` succeeds — for ALL
registries, well-formed or not —, every edge `j → i` of the goal graph was added for a control dependency
`(m, w)` that the CDG of the code object of `i`'s predicate reported for that predicate's node, and `j` is the
goal `(dp, w)` of a predicate `dp` registered for THE SAME code object on node `m` (`nodes_predicates` only
holds the predicates of that code object: basic-block nodes of different code objects share their indices). -/
theorem parents_own_dependencies {goals : List GoalKind} {preds : List Pred} {cos : List CoInfo} {G : GG}
    (hb : buildGraph goals preds cos = .ok G) {j i : Goal} (he : (j, i) ∈ G.edges) :
    ∃ c pid v pm ci m w dp, goals[i]? = some (.branch c pid v) ∧
      preds.find? (fun p => p.id == pid) = some pm ∧ cos.find? (fun c => c.co == pm.co) = some ci ∧
      (m, w) ∈ ci.deps pm.node ∧ dp ∈ preds ∧ dp.co = pm.co ∧ dp.node = m ∧
      goals[j]? = some (.branch pm.co dp.id w) := by
  cases hplans : mapE (goalPlan goals preds cos) goals with
  | error e => simp [buildGraph, hplans] at hb
  | ok plans =>
    have hG : G = assemble plans := by
      by_cases hs : sanityOk goals.length (assemble plans) = true
      · simp [buildGraph, hplans, hs] at hb
        exact hb.symm
      · simp [buildGraph, hplans, hs] at hb
    subst hG
    obtain ⟨p, hp, hj⟩ := assemble_edge_inv he
    have hlen : i < goals.length := by
      have h1 : plans.length = goals.length := mapE_ok_length hplans
      obtain ⟨hi, _⟩ := List.getElem?_eq_some_iff.1 hp
      rw [← h1]
      exact hi
    obtain ⟨pl, hpl, hf⟩ := mapE_ok_getElem? hplans i goals[i] (List.getElem?_eq_getElem hlen)
    rw [hp] at hpl
    cases hpl
    cases hg : goals[i] with
    | branchless c =>
      rw [hg] at hf
      simp only [goalPlan] at hf
      cases hf
      cases hj
    | branch c pid v =>
      rw [hg] at hf
      simp only [goalPlan] at hf
      split at hf
      · cases hf
      · rename_i pm hpm
        split at hf
        · cases hf
        · rename_i ci hci
          split at hf
          · cases hf
          · split at hf
            · cases hf
            · rename_i ps hps
              cases hf
              obtain ⟨d, hd, hres⟩ := mapE_ok_mem_inv hps hj
              unfold resolveDep at hres
              split at hres
              · cases hres
              · rename_i dp hnp
                split at hres
                · cases hres
                · rename_i j' hfg
                  cases hres
                  obtain ⟨hdp, hdco, hdn⟩ := nodePred_some hnp
                  exact ⟨c, pid, v, pm, ci, d.1, d.2, dp, by rw [List.getElem?_eq_getElem hlen, hg], hpm, hci,
                    hd, hdp, hdco, hdn, findGoal_some hfg⟩

/-- Non-vacuity / the clause at work: two code objects whose blocks are numbered alike (`f0`: `if a: if b:`,
`f1`: `if c:`, all predicates on nodes 3, 4 / 3).  The nested goals of `f0` (2, 3) hang below `f0`'s own guard
(goal 0) — not below the goal of the predicate that sits on node 3 of the later code object (goal 4). -/
example : (buildGraph [.branch 0 0 true, .branch 0 0 false, .branch 0 1 true, .branch 0 1 false,
      .branch 1 2 true, .branch 1 2 false] [⟨0, 0, 3⟩, ⟨1, 0, 4⟩, ⟨2, 1, 3⟩]
    [⟨0, fun _ => true, fun n => n == 3, fun n => if n == 4 then [(3, true)] else []⟩,
     ⟨1, fun _ => true, fun n => n == 3, fun _ => []⟩]).toOption.map (fun G => (G.roots, G.edges)) =
    some ([0, 1, 4, 5], [(0, 2), (0, 3)]) := by decide

/-- **C07, end to end.**  For every goal graph built under the hypotheses above and every search
history: a goal all of whose predecessors on some path from a root goal are covered is a current goal
(or already covered); no goal is out of reach; and when the current goals run empty every goal is
covered. -/
theorem every_goal_attainable {goals : List GoalKind} {preds : List Pred} {cos : List CoInfo}
    (hr : RegistryOK goals preds cos)
    (hc : ∀ ci ∈ cos, ∃ g isBlock root, CoOK preds ci g isBlock root) :
    ∃ G, buildGraph goals preds cos = .ok G ∧
      ∀ (fuel : Nat) (covs : List (Goal → Bool)),
        let s := runUpdates G fuel (init G) covs
        Inv G s ∧ (s.current = [] → ∀ i, i < goals.length → i ∈ s.covered) := by
  obtain ⟨G, hG, hreach⟩ := all_goals_reachable hr hc
  refine ⟨G, hG, ?_⟩
  intro fuel covs
  exact ⟨inv_history G fuel covs, fun he i hi => all_covered_when_no_current (inv_history G fuel covs) he (hreach i hi)⟩

/-! ### `_create_covered_cdg`: removing excluded nodes keeps the hypotheses -/

/-- Removing a node (≠ root) with the re-linking of `_create_covered_cdg` keeps every other node
reachable from the root. -/
theorem removeNode_reach {g : CG} {root x : Node} (hx : x ≠ root) {n : Node} (h : Reach g root n) :
    (n ≠ x → Reach (removeNode g x) root n) ∧
    (n = x → ∃ p l, p ≠ x ∧ Reach (removeNode g x) root p ∧ (p, x, l) ∈ g) := by
  induction h with
  | root => exact ⟨fun _ => Reach.root, fun h => absurd h.symm hx⟩
  | @step m n l _ hedge ih =>
    by_cases hm : m = x
    · obtain ⟨p, lp, hpx, hrp, hpe⟩ := ih.2 hm
      refine ⟨fun hn => ?_, fun hn => ⟨p, lp, hpx, hrp, hpe⟩⟩
      subst hm
      obtain ⟨l', hl'⟩ := removeNode_new hpe hpx hedge hn
      exact Reach.step hrp hl'
    · have hrm := ih.1 hm
      refine ⟨fun hn => Reach.step hrm (removeNode_kept hedge hm hn), fun hn => ?_⟩
      subst hn
      exact ⟨m, l, hm, hrm, hedge⟩

/-- The re-linked edges carry no branch value: every labelled edge of the new graph is an old one
between surviving nodes. -/
theorem removeNode_labelled {g : CG} {x p m : Node} {v : Bool} (h : (p, m, some v) ∈ removeNode g x) :
    (p, m, some v) ∈ g ∧ p ≠ x ∧ m ≠ x :=
  removeNode_some h

/-- **Removal preserves the hypotheses of `all_goals_reachable`**: after removing any list of nodes
(not containing the root) every surviving node that was reachable from the root still is, and every
dependence edge of the result is a dependence edge of the original graph between surviving nodes —
so, if the removed nodes are exactly the conditional nodes without registered predicate, labelled
edges keep leaving registered predicate nodes only. -/
theorem removeNodes_preserves {root : Node} (isBlock : Node → Bool) :
    ∀ (xs : List Node) (g : CG), root ∉ xs →
      (∀ n, Reach g root n → n ∉ xs → Reach (removeNodes g xs) root n) ∧
      (∀ p v m, DepEdge (removeNodes g xs) isBlock p v m → DepEdge g isBlock p v m ∧ p ∉ xs ∧ m ∉ xs)
  | [], g, _ => ⟨fun _ h _ => h, fun _ _ _ h => ⟨h, by simp, by simp⟩⟩
  | x :: xs, g, hr => by
    have hx : x ≠ root := fun h => hr (by simp [h])
    have hr' : root ∉ xs := fun h => hr (by simp [h])
    obtain ⟨ih1, ih2⟩ := removeNodes_preserves isBlock xs (removeNode g x) hr'
    refine ⟨fun n hn hnx => ?_, fun p v m hd => ?_⟩
    · have hne : n ≠ x := fun h => hnx (by simp [h])
      exact ih1 n ((removeNode_reach hx hn).1 hne) (fun h => hnx (by simp [h]))
    · obtain ⟨⟨he, hb⟩, hp, hm⟩ := ih2 p v m hd
      obtain ⟨he', hpx, hmx⟩ := removeNode_labelled he
      exact ⟨⟨he', hb⟩, by simp [hpx, hp], by simp [hmx, hm]⟩

/-! ### The per-module hypothesis checkers are sound -/

theorem checkAns_spec {c : CoData} {a : NodeAns} (h : checkAns c a = true) :
    c.nodes.contains a.node = true ∧ a.node ∈ c.fwd ∧
    (∀ p v, (p, v) ∈ a.deps ↔ ∃ m, DepEdge c.g c.isBlock p v m ∧ PassPath c.g c.isBlock m a.node) ∧
    (PassPath c.g c.isBlock c.root a.node → a.rootDep = true ∨
      ∃ p v, (p, v) ∈ a.deps ∧ c.rankOf p < c.rankOf a.node ∧ PassPath c.g c.isBlock c.root p) := by
  simp only [checkAns, Bool.and_eq_true] at h
  obtain ⟨⟨⟨⟨⟨⟨⟨hnode, hfwd⟩, _⟩, hwf⟩, hclosed⟩, hsub⟩, hsup⟩, hroot⟩ := h
  obtain ⟨hn, hsound⟩ := wfBack_sound hwf
  have hback : ∀ m, m ∈ a.back ↔ PassPath c.g c.isBlock m a.node :=
    fun m => ⟨hsound m, fun hp => closedBack_complete hclosed hp hn⟩
  refine ⟨hnode, by simpa using hfwd, ?_, ?_⟩
  · intro p v
    simp only [List.all_eq_true, List.contains_eq_mem, decide_eq_true_eq] at hsub hsup
    constructor
    · intro hd
      obtain ⟨m, hdep, hm⟩ := mem_specDeps.1 (hsub _ hd)
      exact ⟨m, hdep, (hback m).1 hm⟩
    · rintro ⟨m, hdep, hp⟩
      exact hsup _ (mem_specDeps.2 ⟨m, hdep, (hback m).2 hp⟩)
  · intro hp
    have hr : c.root ∈ a.back := (hback _).2 hp
    simp only [Bool.or_eq_true, Bool.not_eq_true', List.contains_eq_mem, decide_eq_false_iff_not,
      List.any_eq_true, Bool.and_eq_true, decide_eq_true_eq, beq_iff_eq] at hroot
    rcases hroot with (h1 | h1) | ⟨d, hd, hlt, ap, _, ⟨hapn, hapr⟩, hapwf⟩
    · exact Or.inl h1
    · exact absurd hr h1
    · right
      refine ⟨d.1, d.2, hd, hlt, ?_⟩
      have := (wfBack_sound hapwf).2 c.root hapr
      rw [hapn] at this
      exact this

/-- The answer `toInfo` looks up for the node of a registered predicate is a checked one. -/
theorem checkCo_ans {preds : List Pred} {c : CoData} (h : checkCo preds c = true) {pm : Pred}
    (hpm : pm ∈ preds) (hco : pm.co = c.co) :
    ∃ a, c.ans.find? (fun a => a.node == pm.node) = some a ∧ a.node = pm.node ∧ checkAns c a = true := by
  simp only [checkCo, Bool.and_eq_true, List.all_eq_true] at h
  obtain ⟨⟨_, hans⟩, hall⟩ := h
  have h1 := hans pm hpm
  simp only [Bool.or_eq_true, bne_iff_ne, ne_eq, List.any_eq_true, beq_iff_eq] at h1
  rcases h1 with h1 | ⟨a0, ha0, hn0⟩
  · exact absurd hco h1
  · cases hf : c.ans.find? (fun a => a.node == pm.node) with
    | none =>
      rw [List.find?_eq_none] at hf
      exact absurd (by simpa using hn0) (hf a0 ha0)
    | some a =>
      refine ⟨a, rfl, ?_, hall a (List.mem_of_find?_eq_some hf)⟩
      simpa using List.find?_some hf

theorem checkCo_sound {preds : List Pred} {c : CoData} (h : checkCo preds c = true) :
    CoOK preds c.toInfo c.g c.isBlock c.root := by
  have h' := h
  simp only [checkCo, Bool.and_eq_true, List.all_eq_true] at h'
  obtain ⟨⟨⟨⟨_, hfwd⟩, hlab⟩, _⟩, _⟩ := h'
  refine ⟨?_, ?_, ?_, ?_, ?_⟩
  · rintro p v m ⟨he, hb⟩
    have := hlab _ he
    simp only [isPass, hb, Option.isSome_some, Bool.and_self, Bool.not_true, Bool.false_or,
      List.any_eq_true, Bool.and_eq_true, beq_iff_eq] at this
    obtain ⟨dp, hdp, hc1, hc2⟩ := this
    exact ⟨dp, hdp, hc1, hc2⟩
  · intro pm hpm hco
    obtain ⟨a, _, hn, hchk⟩ := checkCo_ans h hpm hco
    have := (checkAns_spec hchk).1
    rw [hn] at this
    exact this
  · intro pm hpm hco
    obtain ⟨a, _, hn, hchk⟩ := checkCo_ans h hpm hco
    have := (checkAns_spec hchk).2.1
    rw [hn] at this
    exact wfFwd_sound hfwd _ this
  · intro pm hpm hco p v
    obtain ⟨a, hf, hn, hchk⟩ := checkCo_ans h hpm hco
    have := (checkAns_spec hchk).2.2.1 p v
    rw [hn] at this
    simpa [CoData.toInfo, hf] using this
  · refine ⟨c.rankOf, ?_⟩
    intro pm hpm hco hp
    obtain ⟨a, hf, hn, hchk⟩ := checkCo_ans h hpm hco
    have := (checkAns_spec hchk).2.2.2
    rw [hn] at this
    simpa [CoData.toInfo, hf] using this hp

theorem checkRegistry_sound {goals : List GoalKind} {preds : List Pred} {cos : List CoData}
    (h : checkRegistry goals preds cos = true) : RegistryOK goals preds (cos.map CoData.toInfo) := by
  simp only [checkRegistry, Bool.and_eq_true, List.all_eq_true] at h
  obtain ⟨⟨⟨hid, hgoals⟩, hco⟩, hreg⟩ := h
  refine ⟨?_, ?_, ?_, ?_⟩
  · intro p hp
    simpa using hid p hp
  · intro p hp v
    have := hgoals p hp
    simp only [List.contains_eq_mem, decide_eq_true_eq] at this
    cases v
    · exact this.2
    · exact this.1
  · intro p hp
    have := hco p hp
    rw [List.find?_map]
    cases hf : cos.find? (fun c => c.co == p.co) with
    | none => rw [hf] at this; cases this
    | some c =>
      refine ⟨c.toInfo, ?_⟩
      have : (fun (ci : CoInfo) => ci.co == p.co) ∘ CoData.toInfo = (fun (c : CoData) => c.co == p.co) := rfl
      rw [this, hf]; rfl
  · intro c pid v hg
    have := hreg _ hg
    simp only at this
    split at this
    · rename_i pm hpm
      exact ⟨pm, hpm, by simpa using this⟩
    · cases this

/-- **What the driver's `hyp = true` means for one exported module**: the real registries and CDG
answers, fed to the model of `_build_graph`, give a goal graph without any failure, in which every
goal is reachable from a root goal; and for every search history nothing is left uncovered when
the current goals run empty. -/
theorem checkModule_sound {goals : List GoalKind} {preds : List Pred} {cos : List CoData}
    (h : checkModule goals preds cos = true) :
    ∃ G, buildGraph goals preds (cos.map CoData.toInfo) = .ok G ∧
      (∀ i, i < goals.length → GoalReach G i) ∧
      ∀ (fuel : Nat) (covs : List (Goal → Bool)),
        let s := runUpdates G fuel (init G) covs
        Inv G s ∧ (s.current = [] → ∀ i, i < goals.length → i ∈ s.covered) := by
  simp only [checkModule, Bool.and_eq_true, List.all_eq_true] at h
  have hr := checkRegistry_sound h.1
  have hc : ∀ ci ∈ cos.map CoData.toInfo, ∃ g isBlock root, CoOK preds ci g isBlock root := by
    intro ci hci
    obtain ⟨c, hc, rfl⟩ := List.mem_map.1 hci
    exact ⟨c.g, c.isBlock, c.root, checkCo_sound (h.2 c hc)⟩
  obtain ⟨G, hG, hreach⟩ := all_goals_reachable hr hc
  refine ⟨G, hG, hreach, ?_⟩
  intro fuel covs
  exact ⟨inv_history G fuel covs,
    fun he i hi => all_covered_when_no_current (inv_history G fuel covs) he (hreach i hi)⟩

/-! ### Non-vacuity: a diamond-shaped goal graph and a two-batch history -/

private def exG : GG := ⟨[0], [(0, 1), (0, 2), (1, 3), (2, 3)]⟩

example : (runUpdates exG 10 (init exG) [fun g => g == 0, fun g => g == 2]).current = [1, 3] := by decide
example : (runUpdates exG 10 (init exG) [fun g => g == 0, fun g => g == 2]).covered = [0, 2] := by decide
example : checkGoalPath exG [3, 2, 0] = true := by decide


/-! ### Non-vacuity of the static part: `if a: (if b: … else: …)` — two nested predicates -/

private def exGoals : List GoalKind :=
  [.branch 0 0 true, .branch 0 0 false, .branch 0 1 true, .branch 0 1 false]
private def exPreds : List Pred := [⟨0, 0, 3⟩, ⟨1, 0, 4⟩]
private def exCo : CoData where
  co := 0
  nodes := [3, 4, 5, 6, 2]
  blocks := [3, 4, 5, 6]
  root := 2
  g := [(2, 3, none), (3, 4, some true), (4, 5, some true), (4, 6, some false)]
  fwd := [6, 5, 4, 3, 2]
  rank := []
  ans := [⟨3, [], true, [2, 3]⟩, ⟨4, [(3, true)], false, [4]⟩]

example : checkModule exGoals exPreds [exCo] = true := by decide
example : (buildGraph exGoals exPreds [exCo.toInfo]).toOption.map (fun G => (G.roots, G.edges)) =
    some ([0, 1], [(0, 2), (0, 3)]) := by decide
/-- The checkers reject a CDG in which a labelled edge leaves an unregistered node … -/
example : checkModule exGoals [⟨0, 0, 3⟩] [exCo] = false := by decide
/-- … and `_build_graph` then fails with the `KeyError` of `nodes_predicates[dependency.node]`. -/
example : (match buildGraph exGoals [⟨0, 0, 4⟩, ⟨1, 0, 4⟩] [exCo.toInfo] with
    | .error (.keyError 3) => true | _ => false) = true := by decide
/-- Why `CoOK.root_or_closer` is not simply "finds every pass path": `_is_control_dependent_on_root`
adds a predecessor to `visited` before looking at the edge label, so node 3, first met over the labelled
edge 3 → 4, is never entered over its unlabelled (re-linked) edge 3 → 5: no root dependence is
reported for node 5 although 2 → 3 → 5 is a pass path.  Node 5 then still depends on (3, true). -/
theorem rootDep_incomplete_cex :
    Cdg.rootDep [(2, 3, none), (3, 4, some true), (4, 5, none), (3, 5, none)] (fun n => n != 2) 2 5 = false ∧
    Cdg.controlDeps [(2, 3, none), (3, 4, some true), (4, 5, none), (3, 5, none)] (fun n => n != 2) 5
      = [(3, true)] := by decide

private def exCo2 : CoData where
  co := 0
  nodes := [3, 4, 5, 2]
  blocks := [3, 4, 5]
  root := 2
  g := [(2, 3, none), (3, 4, some true), (4, 5, none), (3, 5, none)]
  fwd := [5, 4, 3, 2]
  rank := [(2, 0), (3, 1), (5, 2)]
  ans := [⟨3, [], true, [2, 3]⟩, ⟨5, [(3, true)], false, [2, 3, 4, 5]⟩]

/-- … and the checkers accept exactly that answer (`rootDep = false`) thanks to the ranking clause. -/
example : checkModule [.branch 0 0 true, .branch 0 0 false, .branch 0 1 true, .branch 0 1 false]
    [⟨0, 0, 3⟩, ⟨1, 0, 5⟩] [exCo2] = true := by decide

/-- Removing the excluded inner `if` (node 4) re-links its children to node 3 without label. -/
example : removeNode exCo.g 4 = [(2, 3, none), (3, 5, none), (3, 6, none)] := by decide

/-! ### `_create_covered_cdg`: which nodes are removed, and why the survivors' labelled edges are registered -/

/-- A block that `visit_node`'s gate lets through is never removed by `_create_covered_cdg`: the node of a
registered predicate stays in the covered CDG. -/
theorem gate_keeps {b : BlockInfo} (h : visitGate true b = true) : keepNode b = true := by
  unfold visitGate at h
  unfold keepNode condOk
  cases hl : b.last with
  | none => rw [hl] at h; cases h
  | some l =>
    rw [hl] at h
    cases l with
    | none => simp_all
    | some c => simp_all

/-- Conversely, a basic block that holds a real instruction and survives the removal passed the gate: the two
functions apply the same exclusion test (this is where a pseudo instruction next to real ones must not matter). -/
theorem kept_gate {hasAst : Bool} {b : BlockInfo} (hb : b.isBlock = true) (hreal : b.elems.any (fun x => x) = true)
    (hlast : b.last.isSome = true) (hk : hasAst = false ∨ keepNode b = true) : visitGate hasAst b = true := by
  unfold visitGate
  obtain ⟨l, hl⟩ := Option.isSome_iff_exists.mp hlast
  rw [hl]
  rcases hk with hk | hk
  · simp [hk]
  · have hne : b.elems.all (fun e => !e) = false := by
      rw [List.any_eq_true] at hreal
      obtain ⟨x, hx, hxt⟩ := hreal
      rw [Bool.eq_false_iff]
      intro hall
      rw [List.all_eq_true] at hall
      have := hall x hx
      simp [hxt] at this
    unfold keepNode condOk at hk
    rw [hb, hne, hl] at hk
    cases l with
    | none => simp_all
    | some c => simp_all

/-- **`_create_covered_cdg` establishes the hypotheses of `all_goals_reachable` about labelled edges.**
If, in the unpruned CDG, every labelled edge leaving a basic block leaves a block with a real last instruction for
which `visit_node` registered a predicate whenever its exclusion gate let it through (`checkPrune`, decided per
exported module), then in the covered CDG — the unpruned one minus `removedNodes` — every node that was reachable
from the root and is not removed is still reachable, and every labelled edge leaving a basic block leaves a
REGISTERED predicate node (`CoOK.labelled_registered`: `nodes_predicates[dependency.node]` cannot raise). -/
theorem covered_cdg_ok {preds : List Pred} {co : Nat} {hasAst : Bool} {isBlock : Node → Bool} {root : Node}
    {bs : List BlockInfo} {full : CG} (h : checkPrune preds co hasAst isBlock root bs full = true) :
    (∀ n, Reach full root n → n ∉ removedNodes hasAst bs → Reach (coveredCdg hasAst bs full) root n) ∧
    (∀ p v m, DepEdge (coveredCdg hasAst bs full) isBlock p v m →
      ∃ dp, dp ∈ preds ∧ dp.co = co ∧ dp.node = p) := by
  obtain ⟨hreach, hdep⟩ := removeNodes_preserves isBlock (removedNodes hasAst bs) full (checkPrune_root h)
  refine ⟨hreach, fun p v m hd => ?_⟩
  obtain ⟨⟨he, hbp⟩, hp, _⟩ := hdep p v m hd
  unfold checkPrune at h
  simp only [Bool.and_eq_true, List.all_eq_true] at h
  have hedge := h.2 _ he
  have hnp : isPass isBlock (p, m, some v) = false := by simp [isPass, hbp]
  simp only [hnp, Bool.false_or, Bool.and_eq_true, List.any_eq_true, List.all_eq_true, beq_iff_eq] at hedge
  obtain ⟨⟨b, hb, hbn⟩, hall⟩ := hedge
  have hb' := hall b hb
  simp only [hbn, bne_self_eq_false, Bool.false_or, Bool.and_eq_true, Bool.or_eq_true, Bool.not_eq_true',
    List.any_eq_true, beq_iff_eq] at hb'
  obtain ⟨⟨⟨hblk, hreal⟩, hlast⟩, hreg⟩ := hb'
  have hkeep := not_mem_removedNodes hb (by rw [hbn]; exact hp)
  have hgate := kept_gate hblk (by simpa [List.any_eq_true] using hreal) hlast hkeep
  rcases hreg with hreg | ⟨dp, hdp, hco, hnode⟩
  · rw [hgate] at hreg; cases hreg
  · exact ⟨dp, hdp, hco, hnode⟩

/-- The nodes of registered predicates survive: a predicate is only registered behind the gate. -/
theorem registered_not_removed {bs : List BlockInfo} {n : Node}
    (hreg : ∀ b ∈ bs, b.node = n → visitGate true b = true) : n ∉ removedNodes true bs := by
  unfold removedNodes
  simp only [if_true, List.mem_map, List.mem_filter, Bool.not_eq_true', not_exists, not_and]
  intro b ⟨hb, hk⟩ hn
  rw [gate_keeps (hreg b hb hn)] at hk
  cases hk

/-! Non-vacuity: `try: … except: return` followed by `if a: (if b: …) else:  # pynguin: no cover`.  Node 4 is the
excluded conditional; its block starts with the `TryEnd` of the preceding `try` (elems `[false, true, true]`). It is
removed all the same, node 5 (the nested `if`) is re-linked to the root without label, and the checker accepts. -/
def exBlocks : List BlockInfo :=
  [⟨2, false, [], none, []⟩,
   ⟨3, true, [false], none, []⟩,                                        -- a pseudo-only block is never removed
   ⟨4, true, [false, true, true], some (some false), [some true, some true]⟩,
   ⟨5, true, [true, true], some (some true), [some true]⟩,
   ⟨6, true, [true], some none, [some false]⟩]
def exFull : CG := [(2, 3, none), (2, 4, none), (4, 5, some true), (4, 6, some false), (5, 6, some true)]

example : removedNodes true exBlocks = [4, 6] := by decide
example : coveredCdg true exBlocks exFull = [(2, 3, none), (2, 5, none)] := by decide
example : checkPrune [⟨0, 0, 5⟩] 0 true (fun n => n != 2) 2 exBlocks exFull = true := by decide
/-- Had the block with the `TryEnd` been exempt from the removal, its labelled edges would leave an unregistered
node: the checker of the stored CDG (`checkCo`'s clause) rejects exactly that. -/
example : keepNode ⟨4, true, [false, true, true], some (some false), [some true, some true]⟩ = false := by decide
example : removedNodes false exBlocks = [] := by decide

end PynguinModel.GoalGraph
