import PynguinModel.Lemmas.ExportImports
import PynguinModel.Model.SeedPatch
/-!
# C18 — Generated test files pass when run against the module under test

Property theorems only.  The model (`Model/ExportImports.lean`) mirrors `TestSuiteWriter.write`
(with `remove_unused_variables`, `_build_test_function`, the import assembly) and gives the emitted
file a semantics: module-level statements run in order (`runTops`), a name resolves to the last
module-level binding or to a builtin (`lookup`/`refOk`), pytest's verdict per function (`outcome`).

The theorems describe the code WITH `proposed_fixes/C18-pytest-import-for-approx.diff` and
`proposed_fixes/C18-importable-exception-reference.diff` applied; the two `*_old_rule_cex` theorems
show that the unrepaired rules violate the property.
-/
namespace PynguinModel.ExportImports

/-- **Local names.** After `remove_unused_variables` every local variable read by a statement or by a
kept assertion is assigned by a textually earlier statement of the same function. -/
theorem locals_bound (ss : List Stmt) (h : ∀ s ∈ ss, StmtScoped s) (hw : freeReads ss = []) :
    freeReads (removeUnused ss) = [] := by
  apply List.eq_nil_iff_forall_not_mem.2
  intro v hv
  have := (ru_inv ss h).2 v hv
  simp [hw] at this

/-- **xfail.** A function is decorated `xfail(strict=True)` iff some statement raised an exception that
is neither declared expected nor wrapped because of `no_xfail`. -/
theorem xfail_iff_unexpected (noXfail : Bool) (ss : List Stmt) :
    (buildFn noXfail ss).xfail = true ↔
      ∃ s ∈ ss, ∃ mro, s.exc = some mro ∧ noXfail = false ∧ isExpected s mro = false := by
  simp only [buildFn, List.any_eq_true]
  constructor
  · rintro ⟨s, hs, h⟩
    refine ⟨s, hs, ?_⟩
    unfold stmtFailing at h
    cases he : s.exc with
    | none => simp [he] at h
    | some mro => simp [he] at h; exact ⟨mro, rfl, h.1, h.2⟩
  · rintro ⟨s, hs, mro, he, h1, h2⟩
    exact ⟨s, hs, by simp [stmtFailing, he, h1, h2]⟩

/-- **pytest.raises.** A statement is wrapped in `with pytest.raises(c)` iff it raised, the exception is
expected (or `no_xfail`), and `c` is the nearest importable class of the exception's MRO. -/
theorem raises_iff_expected (noXfail : Bool) (ss : List Stmt) (c : Cls) (s : Stmt) :
    Item.raises c s ∈ (buildFn noXfail ss).items ↔
      s ∈ ss ∧ ∃ mro, s.exc = some mro ∧ (noXfail || isExpected s mro) = true ∧ c = importableBase mro := by
  constructor
  · intro h
    obtain ⟨s', hs', hit⟩ := mem_items_buildFn h
    rcases mem_stmtItems hit with e | ⟨mro, he, hc, e⟩ | ⟨a, _, _, e⟩
    · simp at e
    · simp only [Item.raises.injEq] at e
      obtain ⟨rfl, rfl⟩ := e
      exact ⟨hs', mro, he, hc, rfl⟩
    · simp at e
  · rintro ⟨hs, mro, he, hc, rfl⟩
    simp only [buildFn, List.mem_flatMap]
    exact ⟨s, hs, by simp [stmtItems, he, hc]⟩

/-- **Imports.** The module-level statements of the emitted file execute in order without error:
every `from … import …` names something importable and every name used at module level (`sys`,
`random`, `pytest` in decorators) is bound before its use. -/
theorem module_imports_cleanly (s : Suite) (hc : Consistent (moduleEnv s)) :
    runTops (tops s) [] = some (moduleEnv s) := by
  have := runTops_ok (tops s) [] (by simpa [moduleEnv] using hc) (fun t ht => tops_importOk ht)
    (tops_needsBefore s)
  simpa [moduleEnv] using this

/-- **Global names.** Every global name mentioned by an emitted test function (`pytest` for
`raises`/`approx`/`xfail`, exception classes, the module alias, public names, `random` for the seed
fixture, builtins) resolves to the object the writer means. -/
theorem names_bound (s : Suite) (hs : NoShadowing s) (ho : RefsOwned s) :
    ∀ f ∈ fns s, ∀ r ∈ fnRefs s f, refOk (moduleEnv s) r = true := by
  intro f hf r hr
  simp only [fnRefs, List.mem_append, List.mem_flatMap] at hr
  rcases hr with hr | ⟨it, hit, hr⟩
  · split at hr
    · rename_i hseed
      simp at hr; subst hr
      exact refOk_of_mem hs.1 (random_mem_moduleEnv hseed)
    · simp at hr
  · exact itemRefs_ok hs ho hf hit hr

/-- **Exception classes.** Every class named by a `with pytest.raises(c)` of an emitted function that is
not a builtin is bound, under its own name and to that class, by a module-level `from <module> import <name>`
of the emitted file — whichever module defines it: another module, or the module under test itself, where
the public-names import does NOT cover it when the class name starts with an underscore. -/
theorem raises_class_imported (s : Suite) :
    ∀ f ∈ fns s, ∀ c st, Item.raises c st ∈ f.items → c.module ≠ "builtins" →
      (c.name, clsObj s.sutName c.module c.name) ∈ moduleEnv s ∧ c.resolvable = true := by
  intro f hf c st hit hm
  exact ⟨excImports_sub_moduleEnv (mem_excImportTops_binds (usedExc_mem_all hf hit) hm),
    allUsedExc_resolvable (usedExc_mem_all hf hit)⟩

/-- The expected pytest report of the emitted file. -/
def expectedReport (s : Suite) : Option (List Outcome) :=
  some ((fns s).map fun f => if f.xfail then Outcome.xfailed else Outcome.passed)

/-- **C18, full statement**: for every suite whose statements are well-scoped and mention only their own
names, and every deterministic behaviour of the module under test, the emitted file imports cleanly,
every undecorated test passes and every `xfail(strict=True)` test fails (is reported xfailed). -/
def C18_full : Prop :=
  ∀ (s : Suite) (beh : Stmt → Option (List Cls)) (holds : Assertion → Bool),
    RefsOwned s → Deterministic s beh holds → runFile s beh holds = expectedReport s

/-- **C18 (partial: `NoShadowing`)**.  As `C18_full`, for suites in which no module-level name of the
emitted file is bound to two different objects (e.g. a public name of the module under test called
`pytest`, or two different exception classes with the same `__name__`). -/
theorem pytest_outcome_partial (s : Suite) (beh : Stmt → Option (List Cls)) (holds : Assertion → Bool)
    (hs : NoShadowing s) (ho : RefsOwned s) (hd : Deterministic s beh holds) :
    runFile s beh holds = expectedReport s := by
  unfold runFile expectedReport
  rw [module_imports_cleanly s hs.1]
  simp only [Option.some.injEq]
  apply List.map_congr_left
  intro f hf
  have hrefs := names_bound s hs ho f hf
  have hrand : (if s.seed.isSome then refOk (moduleEnv s) ("random", Obj.randomMod) else true) = true := by
    split
    · rename_i h
      exact hrefs _ (by simp [fnRefs, h])
    · rfl
  have hf' := hf
  simp only [fns, List.mem_map] at hf'
  obtain ⟨t, ht, rfl⟩ := hf'
  have hall : (buildFn s.noXfail t).items.all (itemOk s.sutName s.alias (moduleEnv s) beh holds)
      = !(buildFn s.noXfail t).xfail := by
    simp only [buildFn, List.all_flatMap]
    have : ∀ st ∈ t, (stmtItems s.noXfail st).all (itemOk s.sutName s.alias (moduleEnv s) beh holds)
        = !stmtFailing s.noXfail st := by
      intro st hst
      apply stmtItems_all_ok
      · intro it hit
        apply List.all_eq_true.2
        intro r hr
        apply hrefs
        simp only [fnRefs, List.mem_append, List.mem_flatMap, buildFn]
        exact Or.inr ⟨it, ⟨st, hst, hit⟩, hr⟩
      · exact (hd t ht st hst).1
      · exact (hd t ht st hst).2
    exact all_eq_not_any t _ _ this
  unfold outcome
  simp only [hrand, hall, Bool.true_and]
  cases (buildFn s.noXfail t).xfail <;> simp

/-! ## Counterexamples (decided on concrete witnesses) -/

/-- `var_0 = m_.f(); m_.g(var_0)` with `assert len(var_0) == …` in a module that exports its own `len`. -/
def shadowWitness : Suite :=
  { sutName := "m", pkgRoot := "m", alias := "m_", publicNames := ["f", "g", "len"], seed := none,
    noXfail := false,
    tests := [[
      { bound := some "var_0", simpleAssign := true, uses := ["m_", "f"], reads := [],
        grefs := [("m_", .sut)], asserts := [⟨.len, some "var_0", []⟩], acc := some [], exc := none },
      { bound := none, simpleAssign := false, uses := ["m_", "g", "var_0"], reads := ["var_0"],
        grefs := [("m_", .sut)], asserts := [], acc := some [], exc := none } ]] }

/-- Without `NoShadowing` the statement is false: the module under test may export a name (`len`) that
replaces the builtin the rendered assertion relies on. -/
theorem C18_shadowing_cex : ¬ C18_full := by
  intro h
  have := h shadowWitness (fun st => st.exc) (fun _ => true)
    (by simp [RefsOwned, OwnRef, shadowWitness]) (by
      intro t ht st hst
      exact ⟨rfl, fun _ _ => rfl⟩)
  revert this
  decide +kernel

/-- The unrepaired `needs_pytest` rule (`any exception observed ∨ seed given`) misses `pytest.approx`:
a float assertion on a used value, no exception, no seed → the function mentions `pytest` but the rule
says "do not import it" (defect D16/D26). -/
def needsPytestOld (s : Suite) : Bool := anyExc s || s.seed.isSome

def floatWitness : Suite :=
  { sutName := "m", pkgRoot := "m", alias := "m_", publicNames := ["half"], seed := none, noXfail := false,
    tests := [[
      { bound := some "var_0", simpleAssign := true, uses := ["m_", "half", "x"], reads := [],
        grefs := [("m_", .sut)], asserts := [⟨.float, some "var_0", []⟩], acc := some [], exc := none },
      { bound := none, simpleAssign := false, uses := ["m_", "half", "x", "var_0"], reads := ["var_0"],
        grefs := [("m_", .sut)], asserts := [], acc := some [], exc := none } ]] }

theorem needs_pytest_old_rule_cex :
    needsPytestOld floatWitness = false ∧ (fns floatWitness).any mentionsPytest = true ∧
    needsPytest floatWitness = true := by decide +kernel

/-- The unrepaired exception reference (`exc_type.__name__`, i.e. the head of the MRO) may name a class
that `from <module> import <name>` cannot bind (class nested in a class or a function): the import of
the emitted file fails.  The repaired rule picks `MyBase`. -/
def nestedMro : List Cls :=
  [⟨"m", "Inner", false⟩, ⟨"m", "MyBase", true⟩, ⟨"builtins", "Exception", true⟩, baseExc]

theorem exception_head_of_mro_cex :
    (excImportTops "m" [⟨"m", "Inner", false⟩]).all (·.importOk) = false ∧
    (excImportTops "m" [importableBase nestedMro]).all (·.importOk) = true ∧
    importableBase nestedMro = ⟨"m", "MyBase", true⟩ := by decide +kernel

/-- A tempting simplification of the exception imports: leave out the classes defined by the module under
test, "the public-names import covers them".  It does not cover a PRIVATE class (`_Full`): the function
names it in `pytest.raises(_Full)`, no module-level statement binds it, the test fails with a NameError. -/
def excImportTopsSkipSut (sut : String) (used : List Cls) : List Top :=
  excImportTops sut (used.filter (fun c => c.module != sut))

/-- `var_0 = m_.Stack(1); var_0.push(7); var_0.push(8)` — the second `push` raises the module's private
`_Full`; exported with `no_xfail`. -/
def privateExcWitness (noXfail : Bool) (acc : List String) : Suite :=
  { sutName := "m", pkgRoot := "m", alias := "m_", publicNames := ["Empty", "Stack"], seed := none,
    noXfail := noXfail,
    tests := [[
      { bound := some "var_0", simpleAssign := true, uses := ["m_", "Stack"], reads := [],
        grefs := [("m_", .sut)], asserts := [], acc := some [], exc := none },
      { bound := none, simpleAssign := false, uses := ["var_0", "push"], reads := ["var_0"],
        grefs := [], asserts := [], acc := some acc,
        exc := some [⟨"m", "_Full", true⟩, ⟨"builtins", "Exception", true⟩, baseExc] } ]] }

/-- The module-level names of the file the simplified rule would write (no seed). -/
def envSkipSut (s : Suite) : List Binding :=
  ((if needsPytest s then [ ({ needs := [], binds := [pytestRef], importOk := true } : Top) ] else [])
    ++ sutImportTops s ++ excImportTopsSkipSut s.sutName (allUsedExc s) ++ fnTops s).flatMap Top.binds

/-- Under both policies that wrap the statement (`--no-xfail`; exception declared by the callable) the
simplified rule leaves `_Full` unbound and pytest reports the test failed, while the writer's rule binds it and
the test passes.  A PUBLIC class of the module under test hides the difference (`Empty`). -/
theorem exception_import_skipping_sut_cex :
    (∀ w ∈ [privateExcWitness true [], privateExcWitness false ["_Full"]],
      lookup (envSkipSut w) "_Full" = none ∧
      (fns w).map (outcome w (envSkipSut w) (fun st => st.exc) (fun _ => true)) = [.failed] ∧
      lookup (moduleEnv w) "_Full" = some (.sutAttr "_Full") ∧
      runFile w (fun st => st.exc) (fun _ => true) = some [.passed]) ∧
    ((excImportTopsSkipSut "m" [⟨"m", "Empty", true⟩]).isEmpty = true ∧
      lookup (moduleEnv (privateExcWitness true [])) "Empty" = some (.sutAttr "Empty")) := by
  decide +kernel

/-! ## Non-vacuity: the hypotheses are satisfiable on non-trivial suites -/

/-- xfail + `pytest.raises(MyBase)` for a nested exception + float assertion + seed fixture. -/
def demo : Suite :=
  { sutName := "m", pkgRoot := "m", alias := "m_", publicNames := ["MyBase", "boom", "half"],
    seed := some 7, noXfail := false,
    tests := [
      [ { bound := some "var_0", simpleAssign := true, uses := ["m_", "half"], reads := [],
          grefs := [("m_", .sut)], asserts := [⟨.float, some "var_0", []⟩], acc := some [], exc := none },
        { bound := none, simpleAssign := false, uses := ["m_", "boom", "var_0"], reads := ["var_0"],
          grefs := [("m_", .sut)], asserts := [⟨.exception, none, []⟩], acc := some ["Inner"],
          exc := some nestedMro } ],
      [ { bound := some "var_0", simpleAssign := true, uses := ["m_", "boom"], reads := [],
          grefs := [("m_", .sut)], asserts := [], acc := some [],
          exc := some [⟨"builtins", "ValueError", true⟩, ⟨"builtins", "Exception", true⟩, baseExc] } ] ] }

example : runFile demo (fun st => st.exc) (fun _ => true) = some [.passed, .xfailed] := by decide +kernel
example : (fns demo).map (·.xfail) = [false, true] := by decide +kernel
example : ∀ t ∈ demo.tests, freeReads t = [] := by decide +kernel
example : Consistent (moduleEnv demo) := by unfold Consistent; decide +kernel
example : runFile floatWitness (fun st => st.exc) (fun _ => true) = some [.passed] := by decide +kernel
/-- `raises_class_imported` is not vacuous: the witness has a wrapped statement naming a private class. -/
example : (fns (privateExcWitness true [])).map usedExc = [[⟨"m", "_Full", true⟩]] := by decide +kernel

end PynguinModel.ExportImports

/-! ## The seed preamble: export-time seeding agrees with generation-time seeding

Part of "every test passes": the oracles were recorded while `generator._patch_random` was installed; the
written file installs its own copy of the patch.  A module that is deterministic because it seeds its
generators explicitly — with whatever value, `0`, `0.0`, `''`, `b''`, `False` included — must see the same
seeds under pytest. -/
namespace PynguinModel.SeedPatch

/-- **Seeding agrees.** For every run seed and EVERY argument the function in the written file hands the
original `random.Random.seed` exactly what the generation-time patch handed it. -/
theorem export_seed_agrees (seed : Nat) (x : SeedArg) : exportSeed seed x = genSeed seed x := by
  cases x <;> rfl

/-- **An explicit seed is honoured**, falsy or not: only `None` is replaced by the run seed. -/
theorem explicit_seed_honoured (seed : Nat) (v : Val) : exportSeed seed (.value v) = .val v := rfl

/-- `None` (an unseeded generator) gets the run seed; an identity-hashed object its type's name. -/
theorem unseeded_gets_run_seed (seed : Nat) : exportSeed seed .none = .val (runVal seed) := rfl
theorem id_hashed_gets_type_name (seed : Nat) (m n : String) (t : Bool) :
    exportSeed seed (.idHashed m n t) = .tyName (qualName m n) := rfl

theorem replay_congr (p q : SeedArg → Eff) (h : ∀ x, p x = q x) (evs : Events) (st : Seeds) :
    replay p evs st = replay q evs st := by
  have : p = q := funext h
  rw [this]

/-- **Histories.** Whatever sequence of seeding events a module performs (`random.Random(x)`, `rng.seed(x)`,
`random.seed(x)`), from the state the per-test reseeding leaves (`_make_deterministic` at generation time,
the autouse fixture under pytest), every generator ends up seeded identically — so every value the module
derives from its generators (`draw`, any function of the seeding state) is the recorded one. -/
theorem seeding_histories_agree {α : Type} (seed : Nat) (evs : Events) (st : Seeds) (draw : Seeds → α) :
    draw (replay (exportSeed seed) evs (exportReseed seed st)) =
      draw (replay (genSeed seed) evs (genReseed seed st)) := by
  have h : ∀ x, exportSeed seed x = genSeed seed x := export_seed_agrees seed
  have hf : exportSeed seed = genSeed seed := funext h
  simp only [exportReseed, genReseed, hf]

/-- The compacted rule `x = x or <seed>` violates the property: for EVERY non-zero run seed a module that
seeds with `0` (or `0.0`, `''`, `b''`, `False`) gets the run seed instead of its own under pytest. -/
theorem seed_or_rule_cex (seed : Nat) (h : seed ≠ 0) (r : String) :
    exportSeedOr seed (.value ⟨r, false⟩) ≠ genSeed seed (.value ⟨r, false⟩) := by
  simp only [exportSeedOr, SeedArg.truthy, genSeed, runVal]
  intro hc
  simp at hc
  exact h hc.2

/-- … while on truthy explicit seeds, on `None` and on truthy identity-hashed objects the compacted rule cannot
be told apart from the real one (which is why only falsy explicit seeds expose it). -/
theorem seed_or_rule_same_on_truthy (seed : Nat) (x : SeedArg) (h : x.truthy = true ∨ x = .none) :
    exportSeedOr seed x = genSeed seed x := by
  cases x with
  | none => simp [exportSeedOr, SeedArg.truthy, genSeed]
  | value v =>
    rcases h with h | h
    · simp [exportSeedOr, h, genSeed]
    · cases h
  | idHashed m n t =>
    rcases h with h | h
    · simp [exportSeedOr, h, genSeed]
    · cases h

/-- Non-vacuity: `random.Random(0)` with run seed 20240607, and a two-generator history. -/
example : exportSeed 20240607 (.value ⟨"0", false⟩) = .val ⟨"0", false⟩ := rfl
example : exportSeedOr 20240607 (.value ⟨"0", false⟩) = .val ⟨"20240607", true⟩ := by decide
example : replay (exportSeed 5) [(0, .value ⟨"0", false⟩), (1, .none), (0, .value ⟨"''", false⟩)]
      (exportReseed 5 [(0, .val ⟨"9", true⟩)]) =
    [(0, .val ⟨"''", false⟩), (1, .val ⟨"5", true⟩)] := by decide

end PynguinModel.SeedPatch
