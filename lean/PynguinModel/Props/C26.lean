import PynguinModel.Lemmas.Generators
/-!
# C26 — Generator selection offers only type-compatible generators

Property theorems about the model `Model/Generators.lean` (on `Model/Types.lean`) of
`GeneratorProvider._get_generators_for` (heuristic: `subtype_distance` defined), `RandomGeneratorProvider.
_get_generators_for` (`is_maybe_subtype`), `GeneratorProvider.add`, and the `functools.lru_cache`s on the `TypeSystem`
queries under `add_subclass_edge` (tied to the code by `harness/c26.py`).

Three clauses:
1. *every offered generator returns a type that may be a subtype of the requested type* — holds for the random
   provider (`random_sound`); for the heuristic provider it holds under the covariant reading of generic arguments
   (`heuristic_sound_cov`) and literally when one side has no type arguments (`heuristic_sound_partial`); the literal
   full statement is refuted (`heuristic_sound_cex`, inherited from C25: `list[object]` requested, `list[int]` offered).
2. *both providers offer the same set* — refuted in five ways (`providers_equal_cex`): requested primitive type,
   requested tuple / `None`, invariance of generic arguments, arguments of user generics; proved for requested
   non-primitive types without `None`/tuple parts when one side has no type arguments (`providers_equal_partial`).
3. *cached type queries agree with a recomputation* — for ALL histories of queries and graph updates on the repaired
   `add_subclass_edge` (`cached_answers_current`, `cached_agree_with_recomputation`); the code as found serves stale
   answers (`memo_stale_cex`) unless all edges precede all queries (`memo_fresh_if_no_late_edges`); even there a
   memoised `True` never becomes wrong (`memo_monotone`, `subtype_monotone_in_edges`).
-/
namespace PynguinModel.Generators
open PynguinModel.Types

/-! ## concrete cluster used by the examples and counterexamples
classes `0 object, 1 int, 2 str, 3 list, 4 set, 5 float, 6 bool, 7 MyInt(int), 8 complex, 9 G (user generic),
10 Base, 11 Sub(Base)`; numeric tower enabled; primitives int, str, bool, float, complex. -/
def gC : Graph :=
  enableTower (ofClassTable [(0, []), (1, [0]), (2, [0]), (3, [0]), (4, [0]), (5, [0]), (6, [1]), (7, [1]), (8, [0]),
    (9, [0]), (10, [0]), (11, [10])] [(3, 1), (4, 1)]) 6 1 5 8
def primsC : List Cls := [1, 2, 6, 5, 8]
def cObj : Ty := .inst 0 []
def cInt : Ty := .inst 1 []
def cStr : Ty := .inst 2 []
def cList (t : Ty) : Ty := .inst 3 [t]
def cG (t : Ty) : Ty := .inst 9 [t]
def cBase : Ty := .inst 10 []
def cSub : Ty := .inst 11 []
/-- generators: 0 `Sub()`, 1 `Base()`, 2 unannotated function (Any), 3 `-> list[int]`, 4 `MyInt()`, 5 `-> G[str]`,
6 `-> Base | None`; 7 `-> int` and 8 `-> None` are refused by `add` -/
def tblC : Table :=
  addAll primsC [(cSub, 0), (cBase, 1), (.any, 2), (cList cInt, 3), (.inst 7 [], 4), (cG cStr, 5),
    (.union [.none, cBase], 6), (cInt, 7), (.none, 8)]

/-! ## 1. every offered generator is type-compatible -/

/-- Random provider: every offered generator sits in a bucket whose type may be a subtype of the requested type. -/
theorem random_sound (g : Graph) (tbl : Table) (T : Ty) (i : Nat) (h : i ∈ offeredRandom g tbl T) :
    ∃ p ∈ tbl, i ∈ p.2 ∧ isMaybeSubtype g p.1 T = true :=
  mem_offeredRandom.mp h

/-- …and the random provider offers every such generator (it is exactly the compatible set). -/
theorem random_complete (g : Graph) (tbl : Table) (T : Ty) (i : Nat) (p : Ty × List Nat) (hp : p ∈ tbl)
    (hi : i ∈ p.2) (hm : isMaybeSubtype g p.1 T = true) : i ∈ offeredRandom g tbl T :=
  mem_offeredRandom.mpr ⟨p, hp, hi, hm⟩

example : offeredRandom gC tblC cBase = [0, 1, 2, 6] := by decide

/-- the clause for the heuristic provider at full strength -/
def C26_heuristic_sound_full : Prop :=
  ∀ (g : Graph) (anyD : Nat) (prims : List Cls) (tbl : Table) (T : Ty) (i : Nat) (d : Option Nat),
    T.wf g = true → (∀ p ∈ tbl, p.1.wf g = true) → (i, d) ∈ offeredHeuristic g anyD prims tbl T →
    ∃ p ∈ tbl, i ∈ p.2 ∧ isMaybeSubtype g p.1 T = true

/-- Requested `list[object]`: the heuristic provider offers generator 3 (`-> list[int]`, distance 1), but
`list[int]` is not a may-be-subtype of `list[object]` (generics are invariant) — inherited from C25. -/
theorem heuristic_sound_cex : ¬ C26_heuristic_sound_full := by
  intro h
  have := h gC 30 primsC [(cList cInt, [3])] (cList cObj) 3 (some 1) (by decide) (by decide) (by decide)
  revert this; decide

/-- Full strength under the covariant reading of generic arguments. -/
theorem heuristic_sound_cov (g : Graph) (anyD : Nat) (prims : List Cls) (tbl : Table) (T : Ty) (i : Nat)
    (d : Option Nat) (hT : T.wf g = true) (htbl : ∀ p ∈ tbl, p.1.wf g = true)
    (h : (i, d) ∈ offeredHeuristic g anyD prims tbl T) :
    ∃ p ∈ tbl, i ∈ p.2 ∧ isMaybeSubtypeCov g p.1 T = true := by
  by_cases hA : T = .any
  · subst hA
    simp only [offeredHeuristic, List.mem_map, Prod.mk.injEq] at h
    obtain ⟨j, hj, rfl, _⟩ := h
    obtain ⟨p, hp, hi⟩ := mem_allGens.mp hj
    exact ⟨p, hp, hi, sub_any_right g _ _ _⟩
  · obtain ⟨_, p, hp, hi, hds, hd⟩ := (mem_offeredHeuristic hA).mp h
    obtain ⟨k, rfl⟩ := Option.isSome_iff_exists.mp hds
    exact ⟨p, hp, hi, dist_imp_cov_aux g anyD _ T p.1 k (Nat.le_refl _) hT (htbl p hp) hd⟩

/-- The literal clause whenever the requested type or the generator's type has no type arguments. -/
theorem heuristic_sound_partial (g : Graph) (anyD : Nat) (prims : List Cls) (tbl : Table) (T : Ty) (i : Nat)
    (d : Option Nat) (hT : T.wf g = true) (htbl : ∀ p ∈ tbl, p.1.wf g = true)
    (hna : T.noArgs = true ∨ ∀ p ∈ tbl, p.1.noArgs = true)
    (h : (i, d) ∈ offeredHeuristic g anyD prims tbl T) :
    ∃ p ∈ tbl, i ∈ p.2 ∧ isMaybeSubtype g p.1 T = true := by
  obtain ⟨p, hp, hi, hc⟩ := heuristic_sound_cov g anyD prims tbl T i d hT htbl h
  refine ⟨p, hp, hi, ?_⟩
  simp only [isMaybeSubtypeCov, isMaybeSubtype] at hc ⊢
  rw [← sub_cov_irrelevant_aux g true _ p.1 T (Nat.le_refl _) ((hna.imp id (fun h' => h' p hp)).symm)]
  exact hc

example : (cBase.wf gC = true) ∧ (∀ p ∈ tblC, p.1.wf gC = true) ∧ cBase.noArgs = true ∧
    offeredHeuristic gC 30 primsC tblC cBase = [(0, some 1), (1, some 0), (2, some 30), (6, some 0)] := by decide

/-- the distance stored with an offered generator is the subtype distance to its bucket's type -/
theorem heuristic_distance (g : Graph) (anyD : Nat) (prims : List Cls) (tbl : Table) (T : Ty) (i : Nat)
    (d : Option Nat) (hA : T ≠ .any) (h : (i, d) ∈ offeredHeuristic g anyD prims tbl T) :
    ∃ p ∈ tbl, i ∈ p.2 ∧ dist g anyD T p.1 = d ∧ d.isSome = true := by
  obtain ⟨_, p, hp, hi, hds, hd⟩ := (mem_offeredHeuristic hA).mp h
  exact ⟨p, hp, hi, hd, hds⟩

/-! ## 2. both providers offer the same set -/

def C26_providers_equal_full : Prop :=
  ∀ (g : Graph) (anyD : Nat) (prims : List Cls) (tbl : Table) (T : Ty) (i : Nat),
    T.wf g = true → (∀ p ∈ tbl, p.1.wf g = true) →
    ((∃ d, (i, d) ∈ offeredHeuristic g anyD prims tbl T) ↔ i ∈ offeredRandom g tbl T)

/-- The providers differ on the example cluster for: a requested primitive (`int`: only the random provider offers
`MyInt()` and the `Any` function), a requested tuple and `None` (distance has no `Any`/union case), `list[object]`
(only the heuristic provider offers `-> list[int]`), `G[int]` (only the random provider offers `-> G[str]`). -/
theorem providers_equal_cex : ¬ C26_providers_equal_full ∧
    (offeredHeuristic gC 30 primsC tblC cInt = [] ∧ offeredRandom gC tblC cInt = [2, 4]) ∧
    (offeredHeuristic gC 30 primsC tblC (.tuple false [cInt]) = [] ∧
      offeredRandom gC tblC (.tuple false [cInt]) = [2]) ∧
    (offeredHeuristic gC 30 primsC tblC .none = [] ∧ offeredRandom gC tblC .none = [2, 6]) ∧
    (offeredHeuristic gC 30 primsC tblC (cList cObj) = [(2, some 30), (3, some 1)] ∧
      offeredRandom gC tblC (cList cObj) = [2]) ∧
    (offeredHeuristic gC 30 primsC tblC (cG cInt) = [(2, some 30)] ∧ offeredRandom gC tblC (cG cInt) = [2, 5]) := by
  refine ⟨?_, by decide, by decide, by decide, by decide, by decide⟩
  intro h
  obtain ⟨d, hd⟩ := (h gC 30 primsC tblC cInt 4 (by decide) (by decide)).mpr (by decide)
  have e : offeredHeuristic gC 30 primsC tblC cInt = [] := by decide
  rw [e] at hd; cases hd

/-- Both providers offer the same generators for every requested type that is not primitive and has no `None` or
tuple part, provided the requested type or all generator types carry no type arguments (class hierarchies and unions
of classes). -/
theorem providers_equal_partial (g : Graph) (anyD : Nat) (prims : List Cls) (tbl : Table) (T : Ty) (i : Nat)
    (hT : T.wf g = true) (htbl : ∀ p ∈ tbl, p.1.wf g = true) (hnp : isPrimitive prims T = false)
    (hg : genT T = true) (hna : T.noArgs = true ∨ ∀ p ∈ tbl, p.1.noArgs = true) :
    (∃ d, (i, d) ∈ offeredHeuristic g anyD prims tbl T) ↔ i ∈ offeredRandom g tbl T := by
  by_cases hA : T = .any
  · subst hA
    simp only [offeredHeuristic, offeredRandom, List.mem_map, Prod.mk.injEq]
    constructor
    · rintro ⟨d, j, hj, rfl, _⟩; exact hj
    · intro hj; exact ⟨none, i, hj, rfl, rfl⟩
  · rw [mem_offeredRandom]
    constructor
    · rintro ⟨d, hd⟩
      obtain ⟨_, p, hp, hi, hds, hdd⟩ := (mem_offeredHeuristic hA).mp hd
      refine ⟨p, hp, hi, ?_⟩
      exact (dist_isSome_iff_maybe g anyD T p.1 hT (htbl p hp) hg (hna.imp id (fun h' => h' p hp))).mp
        (by rw [hdd]; exact hds)
    · rintro ⟨p, hp, hi, hm⟩
      have := (dist_isSome_iff_maybe g anyD T p.1 hT (htbl p hp) hg (hna.imp id (fun h' => h' p hp))).mpr hm
      exact ⟨dist g anyD T p.1, (mem_offeredHeuristic hA).mpr ⟨hnp, p, hp, hi, this, rfl⟩⟩

example : isPrimitive primsC (.union [cBase, cStr]) = false ∧ genT (.union [cBase, cStr]) = true ∧
    (Ty.union [cBase, cStr]).noArgs = true ∧
    (offeredHeuristic gC 30 primsC tblC (.union [cBase, cStr])).map (·.1) = [0, 1, 2, 6] ∧
    offeredRandom gC tblC (.union [cBase, cStr]) = [0, 1, 2, 6] := by decide

/-- For `Any` both providers offer every generator of the table. -/
theorem any_offers_everything (g : Graph) (anyD : Nat) (prims : List Cls) (tbl : Table) :
    (offeredHeuristic g anyD prims tbl .any).map (·.1) = allGens tbl ∧ offeredRandom g tbl .any = allGens tbl := by
  refine ⟨?_, rfl⟩
  simp only [offeredHeuristic, List.map_map]
  exact List.map_id' _

/-- `GeneratorProvider.add` never stores a generator under `None` or a primitive type, whatever is added. -/
theorem add_never_stores_none_or_primitive (prims : List Cls) (ops : List (Ty × Nat)) :
    ∀ p ∈ addAll prims ops, isNone p.1 = false ∧ isPrimitive prims p.1 = false :=
  foldl_add_keysOK ops [] (by intro p hp; cases hp)

example : tblC.map (·.2) = [[0], [1], [2], [3], [4], [5], [6]] ∧
    (tblC.map (·.1)).all (fun S => !isNone S && !isPrimitive primsC S) = true := by decide

/-! ## 3. cached type queries agree with a recomputation -/

/-- Along ANY history of memoised queries and (repaired) `add_subclass_edge` calls, starting with empty memos, every
answer served is the answer a recomputation on the graph of that moment gives. -/
theorem cached_answers_current (anyD : Nat) (g : Graph) (ops : List Op) :
    (run anyD false ⟨g, []⟩ ops).2 = expected anyD g ops :=
  run_answers anyD ops ⟨g, []⟩ (fresh_empty anyD g)

/-- After ANY such history, asking any query again (served from the memo where possible) agrees with a recomputation
on the final type graph. -/
theorem cached_agree_with_recomputation (anyD : Nat) (g : Graph) (ops : List Op) (q : Query) :
    (ask anyD (run anyD false ⟨g, []⟩ ops).1 q).2 = eval (finalGraph g ops) anyD q := by
  rw [ask_answer anyD _ q (run_fresh anyD ops _ (fresh_empty anyD g)), run_graph]

/-- The code as found (memos survive `add_subclass_edge`): `is_subclass(1, 0)` asked before and after the edge
`0 → 1` is answered `False` both times; a recomputation on the final graph says `True`. -/
theorem memo_stale_cex :
    (run 30 true ⟨ofClassTable [(0, []), (1, [])] [], []⟩
      [.ask (.subclass 1 0), .edge 0 1, .ask (.subclass 1 0)]).2 = [.b false, .b false] ∧
    eval (finalGraph (ofClassTable [(0, []), (1, [])] []) [.ask (.subclass 1 0), .edge 0 1, .ask (.subclass 1 0)]) 30
      (.subclass 1 0) = .b true ∧
    (run 30 false ⟨ofClassTable [(0, []), (1, [])] [], []⟩
      [.ask (.subclass 1 0), .edge 0 1, .ask (.subclass 1 0)]).2 = [.b false, .b true] := by decide

/-- The code as found is correct for histories in which every edge precedes every query (the build order of
`analyse_module` with the `TYPE_HINTS`/`NONE` strategies). -/
theorem memo_fresh_if_no_late_edges (anyD : Nat) (g : Graph) (es : List (Cls × Cls)) (qs : List Query) :
    (run anyD true ⟨g, []⟩ (es.map (fun e => Op.edge e.1 e.2) ++ qs.map Op.ask)).2 =
      qs.map (eval (es.foldl (fun g e => addEdge g e.1 e.2) g) anyD) := by
  rw [run_edges_stale, run_asks anyD true qs _ (fresh_empty anyD _)]

/-- Also on the code as found a memoised `True` never becomes wrong: after ANY history with stale memos, a `True`
served for `is_subclass` / `is_subtype` / `is_maybe_subtype` is what a recomputation on the final graph gives (the
relations only grow with edges; only `False` / `None` / set answers go stale). -/
theorem memo_monotone (anyD : Nat) (g : Graph) (ops : List Op) (q : Query)
    (h : (ask anyD (run anyD true ⟨g, []⟩ ops).1 q).2 = .b true) : eval (finalGraph g ops) anyD q = .b true := by
  have := ask_true_correct anyD _ q (run_stale_trueOK anyD ops ⟨g, []⟩ (by intro q hm; cases hm)) h
  rwa [run_graph] at this

/-- `is_subtype` / `is_maybe_subtype` / `is_subclass` only gain `True` answers when an edge is added. -/
theorem subtype_monotone_in_edges (g : Graph) (a b : Cls) (L R : Ty) (l r : Cls) :
    (isSubclass g l r = true → isSubclass (addEdge g a b) l r = true) ∧
    (isSubtype g L R = true → isSubtype (addEdge g a b) L R = true) ∧
    (isMaybeSubtype g L R = true → isMaybeSubtype (addEdge g a b) L R = true) :=
  ⟨isSubclass_addEdge g a b l r, sub_addEdge_mono g a b false false _ L R (Nat.le_refl _),
    sub_addEdge_mono g a b true false _ L R (Nat.le_refl _)⟩

/-- The visitors call `is_subtype` / `is_maybe_subtype` / `subtype_distance` recursively through the memo: with a memo
whose entries agree with the current graph this changes nothing. -/
theorem recursion_through_fresh_memo (g : Graph) (anyD : Nat) (u : Bool) (lookB : Ty → Ty → Option Bool)
    (lookD : Ty → Ty → Option (Option Nat)) (hB : ∀ l r a, lookB l r = some a → a = sub g u false l r)
    (hD : ∀ t s a, lookD t s = some a → a = dist g anyD t s) (L R : Ty) :
    subM g u false lookB L R = sub g u false L R ∧ distM g anyD lookD L R = dist g anyD L R :=
  ⟨sub_withMemo_fresh g u false lookB hB _ L R (Nat.le_refl _), dist_withMemo_fresh g anyD lookD hD _ L R (Nat.le_refl _)⟩

example : (run 30 false ⟨gC, []⟩ [.ask (.maybe cSub cBase), .ask (.dist cBase cSub), .edge 11 10,
    .ask (.subclass 10 11), .ask (.maybe cSub cBase)]).2 = [.b true, .d (some 1), .b true, .b true] := by decide

end PynguinModel.Generators
