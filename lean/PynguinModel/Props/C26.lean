import PynguinModel.Lemmas.Generators
import PynguinModel.Lemmas.GeneratorsUpdate
/-!
# C26 — Generator selection offers only type-compatible generators

Property theorems about the model `Model/Generators.lean` (on `Model/Types.lean`) of
`GeneratorProvider._get_generators_for` (heuristic: `subtype_distance` defined), `RandomGeneratorProvider.
_get_generators_for` (`is_maybe_subtype`), `GeneratorProvider.add`, and the `functools.lru_cache`s on the `TypeSystem`
queries under `add_subclass_edge` (tied to the code by `harness/c26.py`).

Three clauses:
1. *every offered generator returns a type that may be a subtype of the requested type* — holds for the random
   provider (`random_sound`); for the heuristic provider it holds under the covariant reading of generic arguments
   (`heuristic_sound_cov`) and literally when one side has no type arguments (`heuristic_sound_partial`); the literal
   full statement is refuted (`heuristic_sound_cex`, inherited from C25: `list[object]` requested, `list[int]` offered).
2. *both providers offer the same set* — refuted in five ways (`providers_equal_cex`): requested primitive type,
   requested tuple / `None`, invariance of generic arguments, arguments of user generics; proved for requested
   non-primitive types without `None`/tuple parts when one side has no type arguments (`providers_equal_partial`).
3. *cached type queries agree with a recomputation* — for ALL histories of queries and graph updates on the repaired
   `add_subclass_edge` (`cached_answers_current`, `cached_agree_with_recomputation`); the code as found serves stale
   answers (`memo_stale_cex`) unless all edges precede all queries (`memo_fresh_if_no_late_edges`); even there a
   memoised `True` never becomes wrong (`memo_monotone`, `subtype_monotone_in_edges`).  The providers' look-ups are
   such memoised queries (`provider_lookups_current`: generators AND stored distances are current after any history);
   flushing only for edges between unconnected classes is refuted by a shortcut edge (`skip_flush_when_reachable_cex`).
4. (clause 1 along histories) run-time return-type observations (`ModuleTestCluster.update_return_type`) re-file a
   generator under its new type: for ALL histories of additions, observations and late edges every generator sits
   only in the bucket of its CURRENT generated type (`updates_keep_table_consistent`,
   `callable_filed_only_under_current_type`), hence both providers offer it only for requests its current type may be
   a subtype of (`random_sound_after_updates`, `heuristic_sound_after_updates`); `update_files_under_new_type`,
   `update_keeps_others`; the reversed order of store and drop is refuted (`update_order_matters_cex`).
-/
namespace PynguinModel.Generators
open PynguinModel.Types

/-! ## concrete cluster used by the examples and counterexamples
classes `0 object, 1 int, 2 str, 3 list, 4 set, 5 float, 6 bool, 7 MyInt(int), 8 complex, 9 G (user generic),
10 Base, 11 Sub(Base)`; numeric tower enabled; primitives int, str, bool, float, complex. -/
def gC : Graph :=
  enableTower (ofClassTable [(0, []), (1, [0]), (2, [0]), (3, [0]), (4, [0]), (5, [0]), (6, [1]), (7, [1]), (8, [0]),
    (9, [0]), (10, [0]), (11, [10])] [(3, 1), (4, 1)]) 6 1 5 8
def primsC : List Cls := [1, 2, 6, 5, 8]
def cObj : Ty := .inst 0 []
def cInt : Ty := .inst 1 []
def cStr : Ty := .inst 2 []
def cList (t : Ty) : Ty := .inst 3 [t]
def cG (t : Ty) : Ty := .inst 9 [t]
def cBase : Ty := .inst 10 []
def cSub : Ty := .inst 11 []
/-- generators: 0 `Sub()`, 1 `Base()`, 2 unannotated function (Any), 3 `-> list[int]`, 4 `MyInt()`, 5 `-> G[str]`,
6 `-> Base | None`; 7 `-> int` and 8 `-> None` are refused by `add` -/
def tblC : Table :=
  addAll primsC [(cSub, 0), (cBase, 1), (.any, 2), (cList cInt, 3), (.inst 7 [], 4), (cG cStr, 5),
    (.union [.none, cBase], 6), (cInt, 7), (.none, 8)]

/-! ## 1. every offered generator is type-compatible -/

/-- Random provider: every offered generator sits in a bucket whose type may be a subtype of the requested type. -/
theorem random_sound (g : Graph) (tbl : Table) (T : Ty) (i : Nat) (h : i ∈ offeredRandom g tbl T) :
    ∃ p ∈ tbl, i ∈ p.2 ∧ isMaybeSubtype g p.1 T = true :=
  mem_offeredRandom.mp h

/-- …and the random provider offers every such generator (it is exactly the compatible set). -/
theorem random_complete (g : Graph) (tbl : Table) (T : Ty) (i : Nat) (p : Ty × List Nat) (hp : p ∈ tbl)
    (hi : i ∈ p.2) (hm : isMaybeSubtype g p.1 T = true) : i ∈ offeredRandom g tbl T :=
  mem_offeredRandom.mpr ⟨p, hp, hi, hm⟩

example : offeredRandom gC tblC cBase = [0, 1, 2, 6] := by decide

/-- the clause for the heuristic provider at full strength -/
def C26_heuristic_sound_full : Prop :=
  ∀ (g : Graph) (anyD : Nat) (prims : List Cls) (tbl : Table) (T : Ty) (i : Nat) (d : Option Nat),
    T.wf g = true → (∀ p ∈ tbl, p.1.wf g = true) → (i, d) ∈ offeredHeuristic g anyD prims tbl T →
    ∃ p ∈ tbl, i ∈ p.2 ∧ isMaybeSubtype g p.1 T = true

/-- Requested `list[object]`: the heuristic provider offers generator 3 (`-> list[int]`, distance 1), but
`list[int]` is not a may-be-subtype of `list[object]` (generics are invariant) — inherited from C25. -/
theorem heuristic_sound_cex : ¬ C26_heuristic_sound_full := by
  intro h
  have := h gC 30 primsC [(cList cInt, [3])] (cList cObj) 3 (some 1) (by decide) (by decide) (by decide)
  revert this; decide

/-- Full strength under the covariant reading of generic arguments. -/
theorem heuristic_sound_cov (g : Graph) (anyD : Nat) (prims : List Cls) (tbl : Table) (T : Ty) (i : Nat)
    (d : Option Nat) (hT : T.wf g = true) (htbl : ∀ p ∈ tbl, p.1.wf g = true)
    (h : (i, d) ∈ offeredHeuristic g anyD prims tbl T) :
    ∃ p ∈ tbl, i ∈ p.2 ∧ isMaybeSubtypeCov g p.1 T = true := by
  by_cases hA : T = .any
  · subst hA
    simp only [offeredHeuristic, List.mem_map, Prod.mk.injEq] at h
    obtain ⟨j, hj, rfl, _⟩ := h
    obtain ⟨p, hp, hi⟩ := mem_allGens.mp hj
    exact ⟨p, hp, hi, sub_any_right g _ _ _⟩
  · obtain ⟨_, p, hp, hi, hds, hd⟩ := (mem_offeredHeuristic hA).mp h
    obtain ⟨k, rfl⟩ := Option.isSome_iff_exists.mp hds
    exact ⟨p, hp, hi, dist_imp_cov_aux g anyD _ T p.1 k (Nat.le_refl _) hT (htbl p hp) hd⟩

/-- The literal clause whenever the requested type or the generator's type has no type arguments. -/
theorem heuristic_sound_partial (g : Graph) (anyD : Nat) (prims : List Cls) (tbl : Table) (T : Ty) (i : Nat)
    (d : Option Nat) (hT : T.wf g = true) (htbl : ∀ p ∈ tbl, p.1.wf g = true)
    (hna : T.noArgs = true ∨ ∀ p ∈ tbl, p.1.noArgs = true)
    (h : (i, d) ∈ offeredHeuristic g anyD prims tbl T) :
    ∃ p ∈ tbl, i ∈ p.2 ∧ isMaybeSubtype g p.1 T = true := by
  obtain ⟨p, hp, hi, hc⟩ := heuristic_sound_cov g anyD prims tbl T i d hT htbl h
  refine ⟨p, hp, hi, ?_⟩
  simp only [isMaybeSubtypeCov, isMaybeSubtype] at hc ⊢
  rw [← sub_cov_irrelevant_aux g true _ p.1 T (Nat.le_refl _) ((hna.imp id (fun h' => h' p hp)).symm)]
  exact hc

example : (cBase.wf gC = true) ∧ (∀ p ∈ tblC, p.1.wf gC = true) ∧ cBase.noArgs = true ∧
    offeredHeuristic gC 30 primsC tblC cBase = [(0, some 1), (1, some 0), (2, some 30), (6, some 0)] := by decide

/-- the distance stored with an offered generator is the subtype distance to its bucket's type -/
theorem heuristic_distance (g : Graph) (anyD : Nat) (prims : List Cls) (tbl : Table) (T : Ty) (i : Nat)
    (d : Option Nat) (hA : T ≠ .any) (h : (i, d) ∈ offeredHeuristic g anyD prims tbl T) :
    ∃ p ∈ tbl, i ∈ p.2 ∧ dist g anyD T p.1 = d ∧ d.isSome = true := by
  obtain ⟨_, p, hp, hi, hds, hd⟩ := (mem_offeredHeuristic hA).mp h
  exact ⟨p, hp, hi, hd, hds⟩

/-! ## 2. both providers offer the same set -/

def C26_providers_equal_full : Prop :=
  ∀ (g : Graph) (anyD : Nat) (prims : List Cls) (tbl : Table) (T : Ty) (i : Nat),
    T.wf g = true → (∀ p ∈ tbl, p.1.wf g = true) →
    ((∃ d, (i, d) ∈ offeredHeuristic g anyD prims tbl T) ↔ i ∈ offeredRandom g tbl T)

/-- The providers differ on the example cluster for: a requested primitive (`int`: only the random provider offers
`MyInt()` and the `Any` function), a requested tuple and `None` (distance has no `Any`/union case), `list[object]`
(only the heuristic provider offers `-> list[int]`), `G[int]` (only the random provider offers `-> G[str]`). -/
theorem providers_equal_cex : ¬ C26_providers_equal_full ∧
    (offeredHeuristic gC 30 primsC tblC cInt = [] ∧ offeredRandom gC tblC cInt = [2, 4]) ∧
    (offeredHeuristic gC 30 primsC tblC (.tuple false [cInt]) = [] ∧
      offeredRandom gC tblC (.tuple false [cInt]) = [2]) ∧
    (offeredHeuristic gC 30 primsC tblC .none = [] ∧ offeredRandom gC tblC .none = [2, 6]) ∧
    (offeredHeuristic gC 30 primsC tblC (cList cObj) = [(2, some 30), (3, some 1)] ∧
      offeredRandom gC tblC (cList cObj) = [2]) ∧
    (offeredHeuristic gC 30 primsC tblC (cG cInt) = [(2, some 30)] ∧ offeredRandom gC tblC (cG cInt) = [2, 5]) := by
  refine ⟨?_, by decide, by decide, by decide, by decide, by decide⟩
  intro h
  obtain ⟨d, hd⟩ := (h gC 30 primsC tblC cInt 4 (by decide) (by decide)).mpr (by decide)
  have e : offeredHeuristic gC 30 primsC tblC cInt = [] := by decide
  rw [e] at hd; cases hd

/-- Both providers offer the same generators for every requested type that is not primitive and has no `None` or
tuple part, provided the requested type or all generator types carry no type arguments (class hierarchies and unions
of classes). -/
theorem providers_equal_partial (g : Graph) (anyD : Nat) (prims : List Cls) (tbl : Table) (T : Ty) (i : Nat)
    (hT : T.wf g = true) (htbl : ∀ p ∈ tbl, p.1.wf g = true) (hnp : isPrimitive prims T = false)
    (hg : genT T = true) (hna : T.noArgs = true ∨ ∀ p ∈ tbl, p.1.noArgs = true) :
    (∃ d, (i, d) ∈ offeredHeuristic g anyD prims tbl T) ↔ i ∈ offeredRandom g tbl T := by
  by_cases hA : T = .any
  · subst hA
    simp only [offeredHeuristic, offeredRandom, List.mem_map, Prod.mk.injEq]
    constructor
    · rintro ⟨d, j, hj, rfl, _⟩; exact hj
    · intro hj; exact ⟨none, i, hj, rfl, rfl⟩
  · rw [mem_offeredRandom]
    constructor
    · rintro ⟨d, hd⟩
      obtain ⟨_, p, hp, hi, hds, hdd⟩ := (mem_offeredHeuristic hA).mp hd
      refine ⟨p, hp, hi, ?_⟩
      exact (dist_isSome_iff_maybe g anyD T p.1 hT (htbl p hp) hg (hna.imp id (fun h' => h' p hp))).mp
        (by rw [hdd]; exact hds)
    · rintro ⟨p, hp, hi, hm⟩
      have := (dist_isSome_iff_maybe g anyD T p.1 hT (htbl p hp) hg (hna.imp id (fun h' => h' p hp))).mpr hm
      exact ⟨dist g anyD T p.1, (mem_offeredHeuristic hA).mpr ⟨hnp, p, hp, hi, this, rfl⟩⟩

example : isPrimitive primsC (.union [cBase, cStr]) = false ∧ genT (.union [cBase, cStr]) = true ∧
    (Ty.union [cBase, cStr]).noArgs = true ∧
    (offeredHeuristic gC 30 primsC tblC (.union [cBase, cStr])).map (·.1) = [0, 1, 2, 6] ∧
    offeredRandom gC tblC (.union [cBase, cStr]) = [0, 1, 2, 6] := by decide

/-- For `Any` both providers offer every generator of the table. -/
theorem any_offers_everything (g : Graph) (anyD : Nat) (prims : List Cls) (tbl : Table) :
    (offeredHeuristic g anyD prims tbl .any).map (·.1) = allGens tbl ∧ offeredRandom g tbl .any = allGens tbl := by
  refine ⟨?_, rfl⟩
  simp only [offeredHeuristic, List.map_map]
  exact List.map_id' _

/-- `GeneratorProvider.add` never stores a generator under `None` or a primitive type, whatever is added. -/
theorem add_never_stores_none_or_primitive (prims : List Cls) (ops : List (Ty × Nat)) :
    ∀ p ∈ addAll prims ops, isNone p.1 = false ∧ isPrimitive prims p.1 = false :=
  foldl_add_keysOK ops [] (by intro p hp; cases hp)

example : tblC.map (·.2) = [[0], [1], [2], [3], [4], [5], [6]] ∧
    (tblC.map (·.1)).all (fun S => !isNone S && !isPrimitive primsC S) = true := by decide

/-! ## 3. cached type queries agree with a recomputation -/

/-- Along ANY history of memoised queries and (repaired) `add_subclass_edge` calls, starting with empty memos, every
answer served is the answer a recomputation on the graph of that moment gives. -/
theorem cached_answers_current (anyD : Nat) (g : Graph) (ops : List Op) :
    (run anyD false ⟨g, []⟩ ops).2 = expected anyD g ops :=
  run_answers anyD ops ⟨g, []⟩ (fresh_empty anyD g)

/-- After ANY such history, asking any query again (served from the memo where possible) agrees with a recomputation
on the final type graph. -/
theorem cached_agree_with_recomputation (anyD : Nat) (g : Graph) (ops : List Op) (q : Query) :
    (ask anyD (run anyD false ⟨g, []⟩ ops).1 q).2 = eval (finalGraph g ops) anyD q := by
  rw [ask_answer anyD _ q (run_fresh anyD ops _ (fresh_empty anyD g)), run_graph]

/-- The code as found (memos survive `add_subclass_edge`): `is_subclass(1, 0)` asked before and after the edge
`0 → 1` is answered `False` both times; a recomputation on the final graph says `True`. -/
theorem memo_stale_cex :
    (run 30 true ⟨ofClassTable [(0, []), (1, [])] [], []⟩
      [.ask (.subclass 1 0), .edge 0 1, .ask (.subclass 1 0)]).2 = [.b false, .b false] ∧
    eval (finalGraph (ofClassTable [(0, []), (1, [])] []) [.ask (.subclass 1 0), .edge 0 1, .ask (.subclass 1 0)]) 30
      (.subclass 1 0) = .b true ∧
    (run 30 false ⟨ofClassTable [(0, []), (1, [])] [], []⟩
      [.ask (.subclass 1 0), .edge 0 1, .ask (.subclass 1 0)]).2 = [.b false, .b true] := by decide

/-- The code as found is correct for histories in which every edge precedes every query (the build order of
`analyse_module` with the `TYPE_HINTS`/`NONE` strategies). -/
theorem memo_fresh_if_no_late_edges (anyD : Nat) (g : Graph) (es : List (Cls × Cls)) (qs : List Query) :
    (run anyD true ⟨g, []⟩ (es.map (fun e => Op.edge e.1 e.2) ++ qs.map Op.ask)).2 =
      qs.map (eval (es.foldl (fun g e => addEdge g e.1 e.2) g) anyD) := by
  rw [run_edges_stale, run_asks anyD true qs _ (fresh_empty anyD _)]

/-- Also on the code as found a memoised `True` never becomes wrong: after ANY history with stale memos, a `True`
served for `is_subclass` / `is_subtype` / `is_maybe_subtype` is what a recomputation on the final graph gives (the
relations only grow with edges; only `False` / `None` / set answers go stale). -/
theorem memo_monotone (anyD : Nat) (g : Graph) (ops : List Op) (q : Query)
    (h : (ask anyD (run anyD true ⟨g, []⟩ ops).1 q).2 = .b true) : eval (finalGraph g ops) anyD q = .b true := by
  have := ask_true_correct anyD _ q (run_stale_trueOK anyD ops ⟨g, []⟩ (by intro q hm; cases hm)) h
  rwa [run_graph] at this

/-- `is_subtype` / `is_maybe_subtype` / `is_subclass` only gain `True` answers when an edge is added. -/
theorem subtype_monotone_in_edges (g : Graph) (a b : Cls) (L R : Ty) (l r : Cls) :
    (isSubclass g l r = true → isSubclass (addEdge g a b) l r = true) ∧
    (isSubtype g L R = true → isSubtype (addEdge g a b) L R = true) ∧
    (isMaybeSubtype g L R = true → isMaybeSubtype (addEdge g a b) L R = true) :=
  ⟨isSubclass_addEdge g a b l r, sub_addEdge_mono g a b false false _ L R (Nat.le_refl _),
    sub_addEdge_mono g a b true false _ L R (Nat.le_refl _)⟩

/-- The visitors call `is_subtype` / `is_maybe_subtype` / `subtype_distance` recursively through the memo: with a memo
whose entries agree with the current graph this changes nothing. -/
theorem recursion_through_fresh_memo (g : Graph) (anyD : Nat) (u : Bool) (lookB : Ty → Ty → Option Bool)
    (lookD : Ty → Ty → Option (Option Nat)) (hB : ∀ l r a, lookB l r = some a → a = sub g u false l r)
    (hD : ∀ t s a, lookD t s = some a → a = dist g anyD t s) (L R : Ty) :
    subM g u false lookB L R = sub g u false L R ∧ distM g anyD lookD L R = dist g anyD L R :=
  ⟨sub_withMemo_fresh g u false lookB hB _ L R (Nat.le_refl _), dist_withMemo_fresh g anyD lookD hD _ L R (Nat.le_refl _)⟩

example : (run 30 false ⟨gC, []⟩ [.ask (.maybe cSub cBase), .ask (.dist cBase cSub), .edge 11 10,
    .ask (.subclass 10 11), .ask (.maybe cSub cBase)]).2 = [.b true, .d (some 1), .b true, .b true] := by decide

/-! ### 3b. the providers' look-ups are memoised type queries; EVERY new edge must flush

`GeneratorProvider._get_generators_for` asks the memoised `subtype_distance(T, S)` for every bucket `S` and stores the
answer in the `_Generator` it hands out (rank / fitness), `RandomGeneratorProvider._get_generators_for` asks the memoised
`is_maybe_subtype(S, T)`.  After ANY history both look-ups, run through the memo, give what a recomputation on the
final graph gives (`provider_lookups_current`).  This needs the flush on EVERY edge: skipping it for an edge whose end
points are already connected (a repeated edge, a shortcut `A → C` beside `A → B → C`) keeps the boolean queries right but
serves a stale shortest-path length (`skip_flush_when_reachable_cex`). -/

/-- After ANY history of memoised queries and (repaired) edge insertions, a look-up of either provider that goes through
the memo hands out exactly the generators — and, for the heuristic provider, exactly the stored distances — of a
recomputation on the final type graph, and leaves a memo behind that agrees with the graph (so look-ups may be
interleaved with the history at will). -/
theorem provider_lookups_current (anyD : Nat) (g : Graph) (ops : List Op) (prims : List Cls) (tbl : Table) (T : Ty) :
    (offeredHeuristicM anyD prims tbl (run anyD false ⟨g, []⟩ ops).1 T).2 =
      offeredHeuristic (finalGraph g ops) anyD prims tbl T ∧
    (offeredRandomM anyD tbl (run anyD false ⟨g, []⟩ ops).1 T).2 = offeredRandom (finalGraph g ops) tbl T ∧
    Fresh anyD (offeredHeuristicM anyD prims tbl (run anyD false ⟨g, []⟩ ops).1 T).1 ∧
    Fresh anyD (offeredRandomM anyD tbl (run anyD false ⟨g, []⟩ ops).1 T).1 := by
  have hf := run_fresh anyD ops _ (fresh_empty anyD g)
  have hh := offeredHeuristicM_fresh anyD prims tbl _ T hf
  have hr := offeredRandomM_fresh anyD tbl _ T hf
  rw [run_graph] at hh hr
  exact ⟨hh.1, hr.1, hh.2.1, hr.2.1⟩

/-- classes `0 A, 1 B(A), 2 C(B), 3 list` (one hard-coded type parameter) -/
def gChain : Graph := ofClassTable [(0, []), (1, [0]), (2, [1]), (3, [])] [(3, 1)]
/-- queries before and after the shortcut edge `A → C` (`class C(B, A)`): two distances, one boolean query -/
def histShortcut : List Op :=
  [.ask (.dist (.inst 0 []) (.inst 2 [])), .ask (.dist (.inst 3 [.inst 0 []]) (.inst 3 [.inst 2 []])),
   .ask (.subclass 2 0), .edge 0 2,
   .ask (.dist (.inst 0 []) (.inst 2 [])), .ask (.dist (.inst 3 [.inst 0 []]) (.inst 3 [.inst 2 []])),
   .ask (.subclass 2 0)]

/-- Skipping the flush when the sub class is already reachable from the super class: `subtype_distance(A, C)` and
`subtype_distance(list[A], list[C])`, memoised as 2 before the shortcut edge `A → C`, are still answered 2 afterwards
(a recomputation on the final graph — and the repaired code — give 1), although `is_subclass(C, A)` stays right; the
heuristic provider then hands out the constructor of `C` for a requested `A` with the stale distance 2 instead of 1. -/
theorem skip_flush_when_reachable_cex :
    (runWith 30 addSubclassEdgeSkipReachable ⟨gChain, []⟩ histShortcut).2 =
      [.d (some 2), .d (some 2), .b true, .d (some 2), .d (some 2), .b true] ∧
    expected 30 gChain histShortcut = [.d (some 2), .d (some 2), .b true, .d (some 1), .d (some 1), .b true] ∧
    (run 30 false ⟨gChain, []⟩ histShortcut).2 = expected 30 gChain histShortcut ∧
    (offeredHeuristicM 30 [] [(.inst 2 [], [7])]
      (runWith 30 addSubclassEdgeSkipReachable ⟨gChain, []⟩ histShortcut).1 (.inst 0 [])).2 = [(7, some 2)] ∧
    offeredHeuristic (finalGraph gChain histShortcut) 30 [] [(.inst 2 [], [7])] (.inst 0 []) = [(7, some 1)] ∧
    (offeredHeuristicM 30 [] [(.inst 2 [], [7])] (run 30 false ⟨gChain, []⟩ histShortcut).1 (.inst 0 [])).2 =
      [(7, some 1)] := by decide

/-- a repeated edge and an edge between unconnected classes under the same policy: nothing goes stale (the policy is
wrong only for shortcuts) -/
example : (runWith 30 addSubclassEdgeSkipReachable ⟨gChain, []⟩
    [.ask (.dist (.inst 0 []) (.inst 2 [])), .edge 0 1, .ask (.dist (.inst 0 []) (.inst 2 [])), .edge 3 2,
     .ask (.subclass 2 3), .ask (.dist (.inst 0 []) (.inst 2 []))]).2 =
    [.d (some 2), .d (some 2), .b true, .d (some 2)] := by decide

/-! ## 4. run-time return-type observations keep every generator filed under its CURRENT generated type

`ModuleTestCluster.update_return_type` (driven by the `ReturnTypeObserver` after every execution) widens the return
type of the executed callable and re-files it in the generator table.  For ALL histories of `add_generator`,
`update_return_type` and `add_subclass_edge` calls the table stays consistent (`updates_keep_table_consistent`), so
clause 1 keeps holding with respect to the return type the generator has NOW (`random_sound_after_updates`,
`heuristic_sound_after_updates`), the re-filed generator is found under its new type (`update_files_under_new_type`)
and nobody else moves (`update_keeps_others`).  Dropping the generator only after the new type was stored breaks this
(`update_order_matters_cex`). -/

/-- class names as `str(type)` prints them, for the example cluster -/
def namesC : List String :=
  ["object", "int", "str", "list", "set", "float", "bool", "m.MyInt", "complex", "m.G", "m.Base", "m.Sub"]
/-- accessibles: 0 constructor `Sub()`, 1 constructor `Base()`, 2 un-annotated function, 3 `-> list[int]`,
4 `-> Base`, 5 `-> int` -/
def accsC : List Acc :=
  [⟨cSub, some cSub⟩, ⟨cBase, some cBase⟩, ⟨.any, none⟩, ⟨cList cInt, none⟩, ⟨cBase, none⟩, ⟨cInt, none⟩]
def histC : List WOp :=
  [.add 0, .add 1, .add 2, .add 3, .add 4, .add 5, .update 2 cSub, .update 0 cSub, .edge 10 9, .update 4 (cList cInt),
   .update 2 .none, .update 5 cInt, .update 0 cSub, .add 0]

/-- For ALL histories of generator additions, run-time return-type observations and late subclass edges (starting
from the empty table, constructors' signatures returning their class, and a constructor call being observed to
return its class): every generator in the table sits in the bucket of its current generated type — or, for a
constructor, of the one-element union of it. -/
theorem updates_keep_table_consistent (key : Ty → String) (m : Nat) (prims : List Cls) (g : Graph) (accs : List Acc)
    (ops : List WOp) (hinit : ∀ a ∈ accs, ∀ F, a.fixed = some F → F.isUnion = false ∧ a.ret = F)
    (hreal : ∀ op ∈ ops, op.realistic (fixedOf accs)) :
    ∀ p ∈ (World.run key m prims ⟨g, ⟨[], accs⟩⟩ ops).cl.tbl, ∀ i ∈ p.2,
      ∃ a, (World.run key m prims ⟨g, ⟨[], accs⟩⟩ ops).cl.accs[i]? = some a ∧
        (p.1 = a.gen ∨ (a.fixed.isSome = true ∧ p.1 = .union [a.gen])) :=
  (run_filed key m prims ops ⟨g, ⟨[], accs⟩⟩ (filed_init accs hinit) hreal).filed

/-- … in particular a function or method (no fixed generated type) is filed under its current return type only. -/
theorem callable_filed_only_under_current_type (key : Ty → String) (m : Nat) (prims : List Cls) (g : Graph)
    (accs : List Acc) (ops : List WOp) (hinit : ∀ a ∈ accs, ∀ F, a.fixed = some F → F.isUnion = false ∧ a.ret = F)
    (hreal : ∀ op ∈ ops, op.realistic (fixedOf accs)) (p : Ty × List Nat) (i : Nat) (a : Acc)
    (hp : p ∈ (World.run key m prims ⟨g, ⟨[], accs⟩⟩ ops).cl.tbl) (hi : i ∈ p.2)
    (ha : (World.run key m prims ⟨g, ⟨[], accs⟩⟩ ops).cl.accs[i]? = some a) (hf : a.fixed = none) : p.1 = a.ret := by
  obtain ⟨b, hb, hk⟩ := updates_keep_table_consistent key m prims g accs ops hinit hreal p hp i hi
  rw [ha] at hb; cases hb
  rcases hk with hk | ⟨hs, _⟩
  · rw [hk, gen_of_not_fixed hf]
  · rw [hf] at hs; cases hs

example : (∀ a ∈ accsC, ∀ F, a.fixed = some F → F.isUnion = false ∧ a.ret = F) ∧
    (∀ op ∈ histC, op.realistic (fixedOf accsC)) := by
  refine ⟨?_, ?_⟩
  · intro a ha F hF
    simp only [accsC, List.mem_cons, List.not_mem_nil, or_false] at ha
    rcases ha with rfl | rfl | rfl | rfl | rfl | rfl <;> simp at hF <;> subst hF <;> exact ⟨rfl, rfl⟩
  intro op hop
  simp only [histC, List.mem_cons, List.not_mem_nil, or_false] at hop
  rcases hop with rfl | rfl | rfl | rfl | rfl | rfl | rfl | rfl | rfl | rfl | rfl | rfl | rfl | rfl <;>
    simp [WOp.realistic, fixedOf, accsC]

example : (World.run (tyStr namesC) 5 primsC ⟨gC, ⟨[], accsC⟩⟩ histC).cl.tbl =
    [(cBase, [1]), (cList cInt, [3]), (.union [cSub], [0]), (.union [cList cInt, cBase], [4]),
     (.union [.none, cSub], [2]), (.union [cInt], [5]), (cSub, [0])] := by decide

/-- Clause 1 after ANY such history, random provider: an offered generator's CURRENT generated type may be a subtype
of the requested type (on the type graph of that moment). -/
theorem random_sound_after_updates (key : Ty → String) (m : Nat) (prims : List Cls) (g : Graph) (accs : List Acc)
    (ops : List WOp) (hinit : ∀ a ∈ accs, ∀ F, a.fixed = some F → F.isUnion = false ∧ a.ret = F)
    (hreal : ∀ op ∈ ops, op.realistic (fixedOf accs)) (T : Ty) (i : Nat)
    (h : i ∈ offeredRandom (World.run key m prims ⟨g, ⟨[], accs⟩⟩ ops).g
      (World.run key m prims ⟨g, ⟨[], accs⟩⟩ ops).cl.tbl T) :
    ∃ a, (World.run key m prims ⟨g, ⟨[], accs⟩⟩ ops).cl.accs[i]? = some a ∧
      isMaybeSubtype (World.run key m prims ⟨g, ⟨[], accs⟩⟩ ops).g a.gen T = true := by
  obtain ⟨p, hp, hi, hm⟩ := random_sound _ _ T i h
  obtain ⟨a, ha, hk⟩ := updates_keep_table_consistent key m prims g accs ops hinit hreal p hp i hi
  exact ⟨a, ha, sub_of_filed_key _ false (hk.imp id (·.2)) hm⟩

/-- Clause 1 after ANY such history, heuristic provider (covariant reading of generic arguments, as in
`heuristic_sound_cov`; literally when the requested type has no type arguments). -/
theorem heuristic_sound_after_updates (key : Ty → String) (m : Nat) (prims : List Cls) (g : Graph) (accs : List Acc)
    (ops : List WOp) (anyD : Nat) (hinit : ∀ a ∈ accs, ∀ F, a.fixed = some F → F.isUnion = false ∧ a.ret = F)
    (hreal : ∀ op ∈ ops, op.realistic (fixedOf accs)) (T : Ty) (i : Nat) (d : Option Nat)
    (hT : T.wf (World.run key m prims ⟨g, ⟨[], accs⟩⟩ ops).g = true)
    (htbl : ∀ p ∈ (World.run key m prims ⟨g, ⟨[], accs⟩⟩ ops).cl.tbl,
      p.1.wf (World.run key m prims ⟨g, ⟨[], accs⟩⟩ ops).g = true)
    (h : (i, d) ∈ offeredHeuristic (World.run key m prims ⟨g, ⟨[], accs⟩⟩ ops).g anyD prims
      (World.run key m prims ⟨g, ⟨[], accs⟩⟩ ops).cl.tbl T) :
    ∃ a, (World.run key m prims ⟨g, ⟨[], accs⟩⟩ ops).cl.accs[i]? = some a ∧
      isMaybeSubtypeCov (World.run key m prims ⟨g, ⟨[], accs⟩⟩ ops).g a.gen T = true ∧
      (T.noArgs = true → isMaybeSubtype (World.run key m prims ⟨g, ⟨[], accs⟩⟩ ops).g a.gen T = true) := by
  obtain ⟨p, hp, hi, hm⟩ := heuristic_sound_cov _ anyD prims _ T i d hT htbl h
  obtain ⟨a, ha, hk⟩ := updates_keep_table_consistent key m prims g accs ops hinit hreal p hp i hi
  refine ⟨a, ha, sub_of_filed_key _ true (hk.imp id (·.2)) hm, fun hna => ?_⟩
  obtain ⟨p', hp', hi', hm'⟩ := heuristic_sound_partial _ anyD prims _ T i d hT htbl (Or.inl hna) h
  obtain ⟨a', ha', hk'⟩ := updates_keep_table_consistent key m prims g accs ops hinit hreal p' hp' i hi'
  rw [ha] at ha'; cases ha'
  exact sub_of_filed_key _ false (hk'.imp id (·.2)) hm'

/-- An observation that changes the return type files the generator under its new type … -/
theorem update_files_under_new_type (key : Ty → String) (m : Nat) (cl : Cl) (i : Nat) (obs : Ty) (a : Acc)
    (ha : cl.accs[i]? = some a) (hchg : tyBeq a.ret (addOrMakeUnion key m a.ret obs) = false) :
    (updateReturnType key m cl i obs).accs[i]? = some { a with ret := addOrMakeUnion key m a.ret obs } ∧
    ∃ p ∈ (updateReturnType key m cl i obs).tbl, p.1 = addOrMakeUnion key m a.ret obs ∧ i ∈ p.2 := by
  have hlt : i < cl.accs.length := by
    rcases Nat.lt_or_ge i cl.accs.length with h | h
    · exact h
    · rw [List.getElem?_eq_none h] at ha; cases ha
  simp only [updateReturnType, ha, hchg, Bool.false_eq_true, if_false]
  exact ⟨by rw [List.getElem?_set_self hlt], add1_self _ _ _⟩

/-- … and every other generator stays in its bucket with its type knowledge unchanged. -/
theorem update_keeps_others (key : Ty → String) (m : Nat) (cl : Cl) (i : Nat) (obs : Ty) (q : Ty × List Nat) (j : Nat)
    (hq : q ∈ cl.tbl) (hj : j ∈ q.2) (hne : j ≠ i) :
    (updateReturnType key m cl i obs).accs[j]? = cl.accs[j]? ∧
    ∃ p ∈ (updateReturnType key m cl i obs).tbl, p.1 = q.1 ∧ j ∈ p.2 := by
  unfold updateReturnType
  split
  · exact ⟨rfl, q, hq, rfl, hj⟩
  · simp only
    split
    · exact ⟨rfl, q, hq, rfl, hj⟩
    · refine ⟨by rw [List.getElem?_set_ne (fun e => hne e.symm)], ?_⟩
      obtain ⟨p, hp, h1, h2⟩ := drop_keeps _ i hq hj hne
      obtain ⟨p', hp', h1', h2'⟩ := add1_keeps _ i hp h2
      exact ⟨p', hp', h1'.trans h1, h2'⟩

/-- The order of the two steps matters: storing the new return type BEFORE `_drop_generator` makes the lookup go to
the bucket of the new type; the un-annotated function 2 (filed under `Any`) observed to return a `Sub` stays under
`Any` and keeps being offered for the unrelated request `list[int]`, although `Sub` is no `list[int]`.  The code as it
is moves it. -/
theorem update_order_matters_cex :
    let cl0 : Cl := ⟨addAll primsC [(cSub, 0), (cBase, 1), (.any, 2), (cList cInt, 3)], accsC⟩
    (updateReturnTypeStoreFirst (tyStr namesC) 5 cl0 2 cSub).tbl =
      [(cSub, [0]), (cBase, [1]), (.any, [2]), (cList cInt, [3]), (.union [cSub], [2])] ∧
    2 ∈ offeredRandom gC (updateReturnTypeStoreFirst (tyStr namesC) 5 cl0 2 cSub).tbl (cList cInt) ∧
    isMaybeSubtype gC (.union [cSub]) (cList cInt) = false ∧
    (updateReturnType (tyStr namesC) 5 cl0 2 cSub).tbl =
      [(cSub, [0]), (cBase, [1]), (cList cInt, [3]), (.union [cSub], [2])] ∧
    offeredRandom gC (updateReturnType (tyStr namesC) 5 cl0 2 cSub).tbl (cList cInt) = [3] := by decide

/-- `_add_or_make_union`: `Any` or the same type become a one-element union, another type is merged in sorted by
`str`, a union grows up to five members and never twice by the same type. -/
example : addOrMakeUnion (tyStr namesC) 5 .any cSub = .union [cSub] ∧
    addOrMakeUnion (tyStr namesC) 5 cSub cSub = .union [cSub] ∧
    addOrMakeUnion (tyStr namesC) 5 cSub cBase = .union [cBase, cSub] ∧
    addOrMakeUnion (tyStr namesC) 5 (.union [cBase, cSub]) cInt = .union [cInt, cBase, cSub] ∧
    addOrMakeUnion (tyStr namesC) 5 (.union [cBase, cSub]) cSub = .union [cBase, cSub] ∧
    addOrMakeUnion (tyStr namesC) 2 (.union [cBase, cSub]) cInt = .union [cBase, cSub] ∧
    tyStr namesC (.union [cList cInt, .tuple false [cInt, .none], cG cStr]) = "list[int] | tuple[int, None] | m.G[str]" := by
  decide

end PynguinModel.Generators
