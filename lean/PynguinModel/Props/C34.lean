import PynguinModel.Lemmas.OrderedSet
/-!
# C34 — Ordered sets behave as insertion-ordered sets and sequences

Property theorems only.  `Abs` (in `Lemmas/OrderedSet.lean`) is the specification: a mathematical
set plus the logical time of each member's (latest) insertion; iteration order is increasing time.
`astep` gives the meaning of every operation purely in terms of set algebra and insertions, and
`run_refines` shows that for *every* operation sequence, the key list the implementation model
holds is duplicate-free, has exactly the members of the mathematical set, and lists them in
first-insertion order.  The sequence protocol (incl. negative indices) is stated on the key list.
-/
namespace PynguinModel.OrderedSet

/-- The specification-level meaning of each operation (set algebra + insertions, no lists of the
receiver's elements involved). -/
def astep (a : Abs) : Op → Abs
  | .add x => a.insert x
  | .update xs => a.insertAll xs
  | .discard x => a.restrict (fun y => y != x)
  | .clear => a.restrict (fun _ => false)
  | .remove x => if a.mem x then a.restrict (fun y => y != x) else a
  | .differenceUpdate os => a.restrict (fun x => !inAny os x)
  | .intersectionUpdate o => a.restrict (fun x => decide (x ∈ o))
  | .symmetricDifferenceUpdate o =>
      (a.restrict (fun x => decide (x ∉ o))).insertAll (o.filter (fun x => !a.mem x))
  | .assignUnion os => a.insertAll os.flatten
  | .assignIntersection os => if os.isEmpty then a else a.restrict (inAll os)
  | .assignDifference os => if os.isEmpty then a else a.restrict (fun x => !inAny os x)
  | .assignSymmetricDifference o =>
      (a.restrict (fun x => decide (x ∉ o))).insertAll (o.filter (fun x => !a.mem x))

def arun (a : Abs) (ops : List Op) : Abs := ops.foldl astep a

/-- Removing the elements of `o` from `l` and then inserting `o`'s elements that were not in `l`
is the same as inserting `new o` minus `l`: duplicates in `o` do not matter. -/
private theorem dsetAll_filter_new (m o l : List Elem) :
    dsetAll m ((new o).filter (fun x => decide (x ∉ l))) = dsetAll m (o.filter (fun x => decide (x ∉ l))) := by
  suffices h : ∀ (acc : List Elem), acc.Nodup →
      dsetAll m ((dsetAll acc o).filter (fun x => decide (x ∉ l)))
        = dsetAll (dsetAll m (acc.filter (fun x => decide (x ∉ l)))) (o.filter (fun x => decide (x ∉ l))) by
    simpa [new, dsetAll] using h [] List.nodup_nil
  induction o with
  | nil => intro acc _; simp [dsetAll]
  | cons x o ih =>
    intro acc hacc
    have := ih (dset acc x) (nodup_dset hacc x)
    simp only [dsetAll, List.foldl_cons] at this ⊢
    rw [this]
    by_cases hx : x ∈ acc
    · -- x already collected: re-inserting it later is a no-op
      rw [dset_of_mem hx]
      by_cases hl : x ∈ l
      · simp [hl]
      · have hmem : x ∈ List.foldl dset m (acc.filter (fun x => decide (x ∉ l))) := by
          have : x ∈ dsetAll m (acc.filter (fun x => decide (x ∉ l))) :=
            mem_dsetAll.2 (Or.inr (by simp [List.mem_filter, hx, hl]))
          simpa [dsetAll] using this
        simp only [hl, not_false_eq_true, decide_true, List.filter_cons_of_pos, List.foldl_cons]
        rw [dset_of_mem hmem]
    · simp only [dset, hx, if_false]
      by_cases hl : x ∈ l
      · simp [hl, List.filter_append]
      · simp [hl, List.filter_append, List.foldl_append, dset]

theorem step_refines {l a} (h : R l a) (op : Op) : R (step l op) (astep a op) := by
  have hmem : ∀ x, decide (x ∉ l) = !a.mem x := by
    intro x
    by_cases hx : x ∈ l
    · simp [hx, (h.mem_iff x).1 hx]
    · have : a.mem x = false := by
        cases hm : a.mem x with
        | false => rfl
        | true => exact absurd ((h.mem_iff x).2 hm) hx
      simp [hx, this]
  have hsd : ∀ o, R (symmetricDifferenceUpdate l o)
      ((a.restrict (fun x => decide (x ∉ o))).insertAll (o.filter (fun x => !a.mem x))) := by
    intro o
    unfold symmetricDifferenceUpdate
    have : (o.filter (fun x => decide (x ∉ l))) = o.filter (fun x => !a.mem x) := by
      congr 1; funext x; exact hmem x
    simp only [this]
    exact R_dsetAll (R_filter h _) _
  cases op with
  | add x => exact R_dset h x
  | update xs => exact R_dsetAll h xs
  | discard x => exact R_filter h _
  | clear =>
    show R [] (a.restrict fun _ => false)
    exact ⟨List.nodup_nil, by simp [Abs.restrict], List.Pairwise.nil, by intro x hx; cases hx⟩
  | remove x =>
    by_cases hx : x ∈ l
    · have hm := (h.mem_iff x).1 hx
      simpa [step, remove, discard, astep, hx, hm] using R_filter h (fun y => y != x)
    · have hm : a.mem x = false := by
        cases hm : a.mem x with
        | false => rfl
        | true => exact absurd ((h.mem_iff x).2 hm) hx
      simpa [step, remove, astep, hx, hm] using h
  | differenceUpdate os => exact R_filter h _
  | intersectionUpdate o => exact R_filter h _
  | symmetricDifferenceUpdate o => exact hsd o
  | assignUnion os =>
    show R (union l os) (a.insertAll os.flatten)
    unfold union new
    rw [dsetAll_append]
    have : dsetAll [] l = l := new_of_nodup h.nodup
    rw [this]
    exact R_dsetAll h _
  | assignIntersection os =>
    show R (intersection l os) _
    unfold intersection
    by_cases he : os.isEmpty
    · simp only [he, if_true, astep]; rw [new_of_nodup h.nodup]; exact h
    · simp only [he, astep]
      rw [new_of_nodup (h.nodup.filter _)]; exact R_filter h _
  | assignDifference os =>
    show R (difference l os) _
    unfold difference
    by_cases he : os.isEmpty
    · simp only [he, if_true, astep]; rw [new_of_nodup h.nodup]; exact h
    · simp only [he, astep]
      rw [new_of_nodup (h.nodup.filter _)]; exact R_filter h _
  | assignSymmetricDifference o =>
    show R (symmetricDifference l o) _
    have key : symmetricDifference l o = symmetricDifferenceUpdate l o := by
      unfold symmetricDifference symmetricDifferenceUpdate union difference
      have hn : (new o).Nodup := nodup_dsetAll List.nodup_nil o
      simp only [List.isEmpty_cons, Bool.false_eq_true, if_false, inAny, List.any_cons,
        List.any_nil, Bool.or_false, List.flatten_cons, List.flatten_nil, List.append_nil]
      rw [new_of_nodup h.nodup, new_of_nodup (h.nodup.filter _),
        new_of_nodup (hn.filter _)]
      unfold new
      rw [dsetAll_append]
      have h1 : dsetAll [] (l.filter (fun x => !decide (x ∈ o))) = l.filter (fun x => !decide (x ∈ o)) :=
        new_of_nodup (h.nodup.filter _)
      rw [h1]
      have := dsetAll_filter_new (l.filter (fun x => !decide (x ∈ o))) o l
      simp only [decide_not, new] at this ⊢
      exact this
    rw [key]; exact hsd o

/-- **C34, set and order part, for every operation sequence.**  Starting from any ordered set and
its specification state, after any sequence of operations the implementation model's key list is
duplicate-free, contains exactly the members of the mathematical set, and iterates them in the order
of their (latest) first insertion. -/
theorem run_refines {l a} (h : R l a) (ops : List Op) : R (run l ops) (arun a ops) := by
  induction ops generalizing l a with
  | nil => simpa [run, arun] using h
  | cons op ops ih => simpa [run, arun] using ih (step_refines h op)

/-- The constructor `OrderedSet(iterable)` refines "insert the items one by one into the empty set",
so every history starts in a related pair. -/
theorem new_refines (xs : List Elem) : R (new xs) (Abs.empty.insertAll xs) :=
  R_dsetAll R_empty xs

theorem C34_history (xs : List Elem) (ops : List Op) :
    R (run (new xs) ops) (arun (Abs.empty.insertAll xs) ops) :=
  run_refines (new_refines xs) ops

/-! ### Observers -/

theorem contains_spec {l a} (h : R l a) (x : Elem) : contains l x = a.mem x := by
  unfold contains
  by_cases hx : x ∈ l
  · simp [hx, (h.mem_iff x).1 hx]
  · cases hm : a.mem x with
    | false => simp [hx]
    | true => exact absurd ((h.mem_iff x).2 hm) hx

theorem issubset_spec {l a} (h : R l a) (o : List Elem) :
    issubset l o = true ↔ ∀ x, a.mem x = true → x ∈ o := by
  simp [issubset, List.all_eq_true, h.mem_iff]

theorem issuperset_spec {l a} (h : R l a) (o : List Elem) :
    issuperset l o = true ↔ ∀ x ∈ o, a.mem x = true := by
  simp [issuperset, List.all_eq_true, h.mem_iff]

/-- `len` is the cardinality of the mathematical set: any duplicate-free enumeration of the members
has the same length. -/
theorem len_spec {l a} (h : R l a) (fs : List Elem) (hn : fs.Nodup)
    (hf : ∀ x, x ∈ fs ↔ a.mem x = true) : len l = fs.length := by
  have : l.Perm fs := (List.perm_ext_iff_of_nodup h.nodup hn).2 (fun x => by rw [h.mem_iff, hf])
  exact this.length_eq

/-- Iteration order is increasing insertion time, and `reversed` is its reverse. -/
theorem iter_sorted {l a} (h : R l a) : (iter l).Pairwise (fun x y => a.stamp x < a.stamp y) := h.sorted

theorem reversed_spec (l : List Elem) : reversed l = (iter l).reverse := rfl

theorem eq_spec (l m : List Elem) : eq l m = true ↔ l = m := by simp [eq]

/-- `pop` removes and returns the oldest member. -/
theorem pop_spec {l a} (h : R l a) {x l'} (hp : pop l = some (x, l')) :
    a.mem x = true ∧ (∀ y, a.mem y = true → a.stamp x ≤ a.stamp y) ∧
      R l' (a.restrict (fun y => y != x)) := by
  cases l with
  | nil => simp [pop] at hp
  | cons z t =>
    simp only [pop, Option.some.injEq, Prod.mk.injEq] at hp
    obtain ⟨rfl, rfl⟩ := hp
    refine ⟨(h.mem_iff z).1 (by simp), ?_, R_filter h _⟩
    intro y hy
    have hy' := (h.mem_iff y).2 hy
    rcases List.mem_cons.1 hy' with e | e
    · subst e; exact Nat.le_refl _
    · exact Nat.le_of_lt ((List.pairwise_cons.1 h.sorted).1 y e)

theorem pop_none_iff (l : List Elem) : pop l = none ↔ l = [] := by
  cases l <;> simp [pop]

/-! ### Sequence protocol (including negative indices) -/

theorem getitem_nonneg (l : List Elem) (i : Nat) : getitem l (i : Int) = l[i]? := by
  simp [getitem]

/-- `s[-k]` for `1 ≤ k ≤ len s` is the k-th element from the end. -/
theorem getitem_neg (l : List Elem) (k : Nat) (hk : 0 < k) (hkl : k ≤ l.length) :
    getitem l (-(k : Int)) = l[l.length - k]? := by
  unfold getitem
  have h1 : ¬ (0 : Int) ≤ -(k : Int) := by omega
  have h2 : -(l.length : Int) ≤ -(k : Int) := by omega
  simp only [h1, h2, if_false, if_true]
  congr 1; omega

theorem getitem_neg_reversed (l : List Elem) (k : Nat) (hk : 0 < k) (hkl : k ≤ l.length) :
    getitem l (-(k : Int)) = (reversed l)[k - 1]? := by
  rw [getitem_neg l k hk hkl, reversed, List.getElem?_reverse (by omega)]
  congr 1; omega

/-- `IndexError` exactly outside `-len ≤ i < len`. -/
theorem getitem_none_iff (l : List Elem) (i : Int) :
    getitem l i = none ↔ (i < -(l.length : Int) ∨ (l.length : Int) ≤ i) := by
  unfold getitem
  by_cases h0 : 0 ≤ i
  · simp only [h0, if_true, List.getElem?_eq_none_iff]; omega
  · by_cases h1 : -(l.length : Int) ≤ i
    · simp only [h0, h1, if_true, if_false, List.getElem?_eq_none_iff]; omega
    · simp only [h0, h1, if_false, true_iff]; omega

theorem index_spec {l : List Elem} {x : Elem} {k : Nat} (h : index l x = some k) :
    l[k]? = some x := by
  unfold index at h
  simp only at h
  split at h
  · rename_i hlt
    cases h
    have := List.findIdx_getElem (p := fun y => y == x) (w := hlt)
    simp at this
    simp [List.getElem?_eq_getElem hlt, this]
  · cases h

theorem index_none_iff (l : List Elem) (x : Elem) : index l x = none ↔ x ∉ l := by
  unfold index
  simp only
  split
  · rename_i hlt
    have := List.findIdx_getElem (p := fun y => y == x) (w := hlt)
    simp at this
    simp only [reduceCtorEq, false_iff]
    intro hx; apply hx
    rw [← this]; exact List.getElem_mem _
  · rename_i hge
    simp only [true_iff]
    intro hx
    exact hge (List.findIdx_lt_length_of_exists ⟨x, hx, by simp⟩)

/-! ### Non-vacuity: a concrete non-trivial history meets the hypotheses -/

example : run (new [3, 1, 3, 2]) [.add 1, .discard 3, .add 3, .symmetricDifferenceUpdate [2, 7, 7]]
    = [1, 3, 7] := by decide

example : getitem [5, 6, 7] (-1) = some 7 ∧ getitem [5, 6, 7] (-3) = some 5 ∧
    getitem [5, 6, 7] (-4) = none ∧ getitem [5, 6, 7] 3 = none := by decide

end PynguinModel.OrderedSet
