import PynguinModel.Lemmas.SetCoverAbort
import PynguinModel.Lemmas.AssertFilter
/-!
# C21 — Kept assertions hold on the original module and preserve mutant kills

Property theorems only (model: `Model/SetCover.lean`, helper lemmas: `Lemmas/SetCover*.lean`).

* set cover (`_select_minimal_assertions`), for **every** kill map with unique keys (a Python dict):
  the greedy loop terminates, its `break` exit is dead code, the selected keys are candidates, none
  has an empty kill set, together they kill exactly the mutants killed by all assertions, and after
  the pruning pass no selected key is covered by the other selected keys;
* mutation score (`get_metrics` / `get_score`): in `[0, 1]`, never the `AssertionError`, unchanged when
  all timed-out mutants are dropped from the summary; through `_handle_add_assertions` it is
  `killed / (checked − timed out)` over the checked mutants' columns only (skipped mutants and
  mutants cut by the budget have no influence);
* assertion removal (`__minimize_assertions`, `__remove_non_relevant_assertions`): the kept
  assertions of every statement are a sublist of the original ones, exception-only statements are
  untouched by minimisation, and whenever a non-timed-out mutant violated some assertion of a test,
  an assertion that this mutant violated (at its original position) is still on the test;
* `_abort_after_first_timeout` does not change the outcome of the pass.

* filtering (`AssertionGenerator.__remove_non_holding_assertions`, model `Model/AssertFilter.lean`):
  from every statement exactly the assertions reported failed or errored by the filtering execution
  are removed (by identity through the position snapshot), order preserved — no reported assertion
  stays, no other assertion goes; a two-pass positional deletion does not have this property.

That an assertion which *passed* the filtering executions holds again on the next execution of the
unmutated module is a statement about CPython executions; it is checked by the history runs of
`harness/c21.py`, not proved here.
-/
namespace PynguinModel.SetCover

/-! ### `_select_minimal_assertions` -/

/-- The function the driver runs (`selectMinimal?`, the `while` loop with an iteration budget)
always returns, and returns the total function the theorems below talk about. -/
theorem C21_select_total (m : KillMap) : selectMinimal? m = some (selectMinimal m) :=
  selectMinimal?_eq m

/-- **Termination of the greedy loop, and independence of the iteration budget**: with any budget
above `len(candidates)` the loop finishes and yields the same selection (which `prune` then thins). -/
theorem C21_greedy_terminates (m : KillMap) (fuel : Nat) (h : (candidates m).length < fuel) :
    ∃ g, greedy fuel (candidates m) (universeOf m) [] = some g ∧ selectMinimal m = prune m g := by
  obtain ⟨g, hg, hs⟩ := selectMinimal_eq_prune m
  exact ⟨g, greedy_fuel_mono _ _ _ _ _ hg fuel (by omega), hs⟩

/-- The `if best_key is None: break` exit can never be taken from a reachable loop state. -/
theorem C21_break_unreachable {m cands : KillMap} {unc : List Mutant} {keep : List Key}
    (inv : GInv m cands unc keep) (hne : unc ≠ []) : (scan cands unc).1 ≠ none :=
  inv.scan_ne_none hne

/-- Every reachable loop state satisfies the invariant (initially, and after each iteration). -/
theorem C21_invariant_reachable {m : KillMap} (hm : KeysNodup m) :
    GInv m (candidates m) (universeOf m) [] ∧
    ∀ cands unc keep k, GInv m cands unc keep → (scan cands unc).1 = some k →
      GInv m (cands.filter (fun e => e.1 ≠ k)) (unc.filter (fun x => !(kills cands k).contains x))
        (keep ++ [k]) :=
  ⟨GInv.init hm, fun _ _ _ _ inv hk => inv.step hm hk⟩

private theorem greedy_facts {m : KillMap} (hm : KeysNodup m) :
    ∃ g, selectMinimal m = prune m g ∧ (∀ x, InUniverse m x → Covered m g x) ∧
      (∀ k ∈ g, ∃ ks, (k, ks) ∈ m ∧ ks ≠ []) ∧ g.Nodup := by
  obtain ⟨g, hg, hs⟩ := selectMinimal_eq_prune m
  exact ⟨g, hs, greedy_spec hm _ _ _ _ _ (GInv.init hm) hg⟩

/-- **selected ⊆ candidates**: every selected key is a key of the kill map with a non-empty kill set. -/
theorem C21_selected_subset {m : KillMap} (hm : KeysNodup m) {k : Key} (hk : k ∈ selectMinimal m) :
    ∃ ks, (k, ks) ∈ m ∧ ks ≠ [] ∧ (k, ks) ∈ candidates m := by
  obtain ⟨g, hs, _, hok, _⟩ := greedy_facts hm
  rw [hs] at hk
  obtain ⟨ks, hmem, hne⟩ := hok k (prune_sub hk)
  exact ⟨ks, hmem, hne, mem_candidates.2 ⟨hmem, hne⟩⟩

/-- **No selected assertion kills nothing.** -/
theorem C21_no_empty_selected {m : KillMap} (hm : KeysNodup m) {k : Key} (hk : k ∈ selectMinimal m) :
    kills m k ≠ [] := by
  obtain ⟨ks, hmem, hne, _⟩ := C21_selected_subset hm hk
  rw [kills_of_mem hm hmem]
  exact hne

/-- **cover_preserved**: the kept assertions together kill exactly the mutants killed by the full set. -/
theorem C21_cover_preserved {m : KillMap} (hm : KeysNodup m) (x : Mutant) :
    Covered m (selectMinimal m) x ↔ InUniverse m x := by
  obtain ⟨g, hs, hcov, hok, _⟩ := greedy_facts hm
  rw [hs, prune_covered]
  constructor
  · rintro ⟨k, hk, hx⟩
    obtain ⟨ks, hmem, _⟩ := hok k hk
    rw [kills_of_mem hm hmem] at hx
    exact ⟨(k, ks), hmem, hx⟩
  · exact hcov x

/-- **Irredundancy after the pruning pass**: every kept key kills a mutant that no other kept key kills. -/
theorem C21_irredundant {m : KillMap} (hm : KeysNodup m) {k : Key} (hk : k ∈ selectMinimal m) :
    ∃ x ∈ kills m k, ∀ o ∈ selectMinimal m, o ≠ k → x ∉ kills m o := by
  obtain ⟨g, hs, _, _, _⟩ := greedy_facts hm
  have h : ¬ Redundant m (selectMinimal m) k := by
    rw [hs] at hk ⊢
    exact prune_irredundant k hk
  apply Classical.byContradiction
  intro hc
  apply h
  intro x hx
  apply Classical.byContradiction
  intro hno
  exact hc ⟨x, hx, fun o ho hne hxo => hno ⟨o, ho, hne, hxo⟩⟩

/-- The result is a set: no key is listed twice. -/
theorem C21_selected_nodup {m : KillMap} (hm : KeysNodup m) : (selectMinimal m).Nodup := by
  obtain ⟨g, hs, _, _, hnd⟩ := greedy_facts hm
  rw [hs]
  exact prune_nodup hnd

/-- Each greedy pick is a candidate of maximal marginal cover (`best_cover`), and it covers something. -/
theorem C21_pick_is_best {cands : KillMap} {unc : List Mutant} {k : Key} (h : (scan cands unc).1 = some k) :
    ∃ e ∈ cands, e.1 = k ∧ 0 < cover e.2 unc ∧ ∀ e' ∈ cands, cover e'.2 unc ≤ cover e.2 unc :=
  scan_some h

/-! ### mutation score -/

/-- **The score lies in `[0, 1]`** (as an exact fraction `n / d` with `0 ≤ n ≤ d`, `0 < d`), and
`get_score` never hits its `assert divisor >= 0`, for every summary. -/
theorem C21_score_in_unit (infos : List MutantInfo) :
    ∃ n d, getScore (getMetrics infos) = some (n, d) ∧ 0 ≤ n ∧ n ≤ d ∧ 0 < d := by
  rw [getScore_getMetrics]
  by_cases h0 : (live infos).length = 0
  · exact ⟨1, 1, by simp [h0], by omega, by omega, by omega⟩
  · refine ⟨((infos.filter isKilled).length : Int), ((live infos).length : Int), by simp [h0], by omega, ?_,
      by omega⟩
    have := killed_le_live infos
    omega

/-- **The score ignores timed-out mutants**: dropping every timed-out mutant from the summary leaves
the score unchanged. -/
theorem C21_score_ignores_timeouts (infos : List MutantInfo) :
    getScore (getMetrics infos) = getScore (getMetrics (live infos)) := by
  rw [getScore_getMetrics, getScore_getMetrics, live_live, filter_isKilled_live]

/-- The score is `killed / (mutants that did not time out)`, `1` if there is none; a mutant counts as
killed only if it did not time out. -/
theorem C21_score_value (infos : List MutantInfo) :
    getScore (getMetrics infos) =
      some (if (live infos).length = 0 then (1, 1)
            else ((((live infos).filter isKilled).length : Int), ((live infos).length : Int))) := by
  rw [getScore_getMetrics, filter_isKilled_live]

/-- **What `__compute_mutation_summary` decides for mutant `j`**: timed out iff some test's result
for it is a timeout; killed iff not timed out and some test had a violated assertion or raised;
survived otherwise.  In particular the three classes are disjoint and exhaustive. -/
theorem C21_summary {n : Nat} {rows : List (List (Option Obs))} {infos : List MutantInfo}
    (h : computeSummary n rows = some infos) :
    infos.length = n ∧ ∀ j, j < n → ∃ i, infos[j]? = some i ∧ i.mutNum = j ∧
      (isTimedOut i = true ↔ ColTimedOut rows j) ∧
      (isKilled i = true ↔ ¬ ColTimedOut rows j ∧ ColViolated rows j) ∧
      (isSurvived i = true ↔ ¬ ColTimedOut rows j ∧ ¬ ColViolated rows j) :=
  computeSummary_spec h

/-- The property's own definition of the score over the checked mutants' result columns. -/
def specScore (cols : List (List (Option Res))) : Int × Int :=
  let liveCols := cols.filter (fun c => !colTimedOut c)
  if liveCols.length = 0 then (1, 1)
  else (((liveCols.filter colViolated).length : Int), (liveCols.length : Int))

/-- **The score reported by `_handle_add_assertions`** is computed from the checked, non-timed-out
mutants only: skipped mutants (`None` from `create_mutants`), mutants cut by the time budget and the
pre-truncation count `num_created` do not occur in it. -/
theorem C21_pipeline_score {mn : Bool} {tests : List Test} {stream : List (Option (List (Option Res)))}
    {o : Outcome} (h : handleAdd mn tests stream = some o) :
    o.score = some (specScore (checkedCols stream)) := by
  obtain ⟨hlen, hpt⟩ := handleAdd_infos h
  obtain ⟨_, _, _, _, _, hsc, _, _⟩ := handleAdd_unfold h
  rw [hsc, getScore_getMetrics]
  have hlive : (live o.infos).length = ((checkedCols stream).filter (fun c => !colTimedOut c)).length := by
    unfold live
    apply filter_length_congr _ _ _ _ hlen
    intro j a c ha hc
    obtain ⟨i, hi, _, hto, _, _⟩ := hpt j c hc
    rw [ha] at hi; cases hi
    rw [hto]
  have hkill : (o.infos.filter isKilled).length =
      (((checkedCols stream).filter (fun c => !colTimedOut c)).filter colViolated).length := by
    rw [List.filter_filter]
    apply filter_length_congr _ _ _ _ hlen
    intro j a c ha hc
    obtain ⟨i, hi, _, _, hk, _⟩ := hpt j c hc
    rw [ha] at hi; cases hi
    rw [hk, Bool.and_comm]
  unfold specScore
  simp only [hlive, hkill]

/-- **Unchecked mutants are ignored altogether** (score, summary and kept assertions): a stream with
skipped mutants gives the same outcome as the stream without them. -/
theorem C21_unchecked_ignored (mn : Bool) (tests : List Test) (stream : List (Option (List (Option Res)))) :
    handleAdd mn tests stream = handleAdd mn tests (stream.filter Option.isSome) := by
  unfold handleAdd
  rw [collect_skip]

/-- the score as a number in `[0,1]`, at the level of the whole pass -/
theorem C21_pipeline_score_in_unit {mn : Bool} {tests : List Test}
    {stream : List (Option (List (Option Res)))} {o : Outcome} (h : handleAdd mn tests stream = some o) :
    ∃ n d, o.score = some (n, d) ∧ 0 ≤ n ∧ n ≤ d ∧ 0 < d := by
  obtain ⟨_, _, _, _, _, hsc, _, _⟩ := handleAdd_unfold h
  rw [hsc]
  exact C21_score_in_unit o.infos

/-! ### assertion removal -/

/-- **Minimisation of one test** (`__build_kill_map` + `_select_minimal_assertions` + removal):
statement count unchanged, kept assertions are a sublist of the original ones, exception-only
statements untouched, and for every valid (non-timed-out) mutant run that violated an assertion of a
non-exception-only statement, some assertion it violated is still on the test. -/
theorem C21_minimize_preserves_kills {test : Test} {valid : List (Nat × Res)} {t' : Test}
    (hv : ∀ j r r', (j, r) ∈ valid → (j, r') ∈ valid → r = r')
    (h : minimizeTest? test valid = some t') :
    t'.length = test.length ∧
    (∀ (s : Nat) st, test[s]? = some st → ∃ st', t'[s]? = some st' ∧ st'.Sublist st ∧
      (hasOnlyException st = true → st' = st)) ∧
    ∀ j r, (j, r) ∈ valid → ∀ (s : Nat) st (a : Nat), test[s]? = some st → hasOnlyException st = false →
      a < st.length → r.trace.wasViolated s a = true →
      ∃ (s' : Nat) (st' : Stmt) (a' : Nat) (x : Assertion) (st'' : Stmt), test[s']? = some st' ∧ hasOnlyException st' = false ∧ st'[a']? = some x ∧
        r.trace.wasViolated s' a' = true ∧ t'[s']? = some st'' ∧ x ∈ st'' := by
  unfold minimizeTest? at h
  rw [C21_select_total, Option.map_some, Option.some.injEq] at h
  subst h
  have hm : KeysNodup (buildKillMap test valid) := keysNodup_buildKillMapFrom valid test 0
  refine ⟨length_applyKeepFrom _ _ _, ?_, ?_⟩
  · intro s st hs
    unfold applyKeep
    rw [getElem?_applyKeepFrom, hs]
    refine ⟨_, rfl, ?_, ?_⟩
    · dsimp only
      split
      · exact List.Sublist.refl _
      · exact keepPositions_sublist _ _
    · intro hx; simp [hx]
  · intro j r hjr s st a hs hne ha hviol
    have hin : InUniverse (buildKillMap test valid) j :=
      ⟨((0 + s, a), killSet valid (0 + s) a),
        mem_buildKillMapFrom.2 ⟨s, st, a, hs, hne, ha, rfl⟩,
        mem_killSet.2 ⟨r, hjr, by simpa using hviol⟩⟩
    obtain ⟨k, hk, hjk⟩ := (C21_cover_preserved hm j).2 hin
    have hne' : kills (buildKillMap test valid) k ≠ [] := by
      intro e; rw [e] at hjk; cases hjk
    obtain ⟨i, st', a', hi, hnx, ha', hke⟩ := mem_buildKillMapFrom.1 (mem_of_kills_ne_nil hne')
    simp only [Nat.zero_add, Prod.mk.injEq] at hke
    obtain ⟨rfl, hks⟩ := hke
    have hks' : kills (buildKillMap test valid) (i, a') = killSet valid i a' := hks
    rw [hks'] at hjk
    obtain ⟨r', hjr', hviol'⟩ := mem_killSet.1 hjk
    have : r' = r := hv j r' r hjr' hjr
    subst this
    have hx : st'[a']? = some st'[a'] := List.getElem?_eq_getElem ha'
    refine ⟨i, st', a', st'[a'],
      keepPositions st' (fun a => (selectMinimal (buildKillMap test valid)).contains (0 + i, a)),
      hi, hnx, hx, hviol', ?_, ?_⟩
    · unfold applyKeep
      rw [getElem?_applyKeepFrom, hi]
      simp only [Option.map_some, hnx, Bool.false_eq_true, if_false]
    · exact mem_keepPositions.2 ⟨a', hx, by simpa using hk⟩

/-- **The non-minimising pass** keeps every assertion that some valid mutant run violated (and only
assertions of the original test, in order). -/
theorem C21_relevant_preserves_kills (test : Test) (valid : List (Nat × Res)) :
    (relevantTest test valid).length = test.length ∧
    (∀ (s : Nat) st, test[s]? = some st → ∃ st', (relevantTest test valid)[s]? = some st' ∧ st'.Sublist st) ∧
    ∀ j r, (j, r) ∈ valid → ∀ (s : Nat) st (a : Nat) x, test[s]? = some st → st[a]? = some x →
      r.trace.wasViolated s a = true →
      ∃ st'', (relevantTest test valid)[s]? = some st'' ∧ x ∈ st'' := by
  refine ⟨length_relevantFrom _ _ _, ?_, ?_⟩
  · intro s st hs
    unfold relevantTest
    rw [getElem?_relevantFrom, hs]
    exact ⟨_, rfl, keepPositions_sublist _ _⟩
  · intro j r hjr s st a x hs hx hviol
    unfold relevantTest
    rw [getElem?_relevantFrom, hs]
    refine ⟨_, rfl, mem_keepPositions.2 ⟨a, hx, ?_⟩⟩
    rw [Nat.zero_add]
    exact (wasViolated_mergedTrace valid s a).2 ⟨(j, r), hjr, hviol⟩

/-- **The whole pass `_handle_add_assertions` preserves assertion-attributable kills**: take any
checked mutant (column `c`) that did not time out, any test `t` it was run on with result `r`, and any
assertion of that test that `r` violated (in a non-exception-only statement when minimising — those
statements are left untouched anyway).  Then the resulting test still carries an assertion that `r`
violated at its original position. -/
theorem C21_pipeline_preserves_kills {mn : Bool} {tests : List Test}
    {stream : List (Option (List (Option Res)))} {o : Outcome} (h : handleAdd mn tests stream = some o)
    {t : Nat} {test : Test} (ht : tests[t]? = some test)
    {j : Nat} {c : List (Option Res)} {r : Res} (hc : (checkedCols stream)[j]? = some c)
    (hnt : colTimedOut c = false) (hr : c[t]? = some (some r))
    {s a : Nat} {st : Stmt} (hs : test[s]? = some st) (hex : mn = true → hasOnlyException st = false)
    (ha : a < st.length) (hviol : r.trace.wasViolated s a = true) :
    ∃ t', o.tests[t]? = some t' ∧ t'.length = test.length ∧
      ∃ (s' : Nat) (st' : Stmt) (a' : Nat) (x : Assertion) (st'' : Stmt), test[s']? = some st' ∧ st'[a']? = some x ∧
        r.trace.wasViolated s' a' = true ∧ t'[s']? = some st'' ∧ x ∈ st'' := by
  obtain ⟨_, hpt⟩ := handleAdd_infos h
  obtain ⟨n, rows, hcol, _, _, _, hmin, hrel⟩ := handleAdd_unfold h
  obtain ⟨row, hz, hvalid⟩ := handleAdd_valid (infos := o.infos) hcol
    (fun j c hjc => by obtain ⟨i, hi, _, hto, _⟩ := hpt j c hjc; exact ⟨i, hi, hto⟩) ht
  have hjr : (j, r) ∈ validResults row o.infos := (hvalid j r).2 ⟨c, hc, hr, hnt⟩
  cases mn with
  | true =>
    have hl := allSome_spec _ _ (hmin rfl)
    have hlt : ((List.zip tests rows).map
        (fun p => minimizeTest? p.1 (validResults p.2 o.infos)))[t]? =
        some (minimizeTest? test (validResults row o.infos)) := by
      rw [List.getElem?_map, hz]; rfl
    rw [hl, List.getElem?_map] at hlt
    cases hot : o.tests[t]? with
    | none => rw [hot] at hlt; cases hlt
    | some t' =>
      rw [hot] at hlt
      simp only [Option.map_some, Option.some.injEq] at hlt
      obtain ⟨hlen, _, hkeep⟩ := C21_minimize_preserves_kills
        (fun j r r' => validResults_functional) hlt.symm
      obtain ⟨s', st', a', x, st'', h1, _, h3, h4, h5, h6⟩ :=
        hkeep j r hjr s st a hs (hex rfl) ha hviol
      exact ⟨t', rfl, hlen, s', st', a', x, st'', h1, h3, h4, h5, h6⟩
  | false =>
    have hot : o.tests[t]? = some (relevantTest test (validResults row o.infos)) := by
      rw [hrel rfl, List.getElem?_map, hz]; rfl
    obtain ⟨hlen, _, hkeep⟩ := C21_relevant_preserves_kills test (validResults row o.infos)
    obtain ⟨st'', h5, h6⟩ := hkeep j r hjr s st a st[a] hs (List.getElem?_eq_getElem ha) hviol
    exact ⟨_, hot, hlen, s, st, a, st[a], st'', hs, List.getElem?_eq_getElem ha, hviol, h5, h6⟩

/-- **`_abort_after_first_timeout` is sound** ("a timed-out mutant is discarded from both the score and
the assertion filtering, everything after the first timeout is wasted"): the in-process executor
(results cut after a mutant's first timeout and padded with `None`) and the subprocess executor (all
results) lead to the same summary, score and kept assertions, for every stream of results. -/
theorem C21_abort_irrelevant (mn : Bool) (tests : List Test) (stream : List (Option (List (Option Res)))) :
    handleAddExec true mn tests stream = handleAddExec false mn tests stream := by
  unfold handleAddExec
  simp only [if_true, Bool.false_eq_true, if_false]
  exact handleAdd_abort mn tests stream

/-! ### Non-vacuity: concrete non-trivial instances meet the hypotheses -/

/-- a mutant that times out on the first test: the violation it shows on the second test is dropped
by the abort, and ignored anyway -/
example :
    abortAfterFirstTimeout [some ⟨true, ⟨[], []⟩, false⟩, some ⟨false, ⟨[(0, [0])], []⟩, false⟩]
      = [some ⟨true, ⟨[], []⟩, false⟩, none] ∧
    (handleAddExec false true [[[⟨1, false⟩]], [[⟨2, false⟩]]]
      [some [some ⟨true, ⟨[], []⟩, false⟩, some ⟨false, ⟨[(0, [0])], []⟩, false⟩]]).map
        (fun o => (o.tests, o.score, o.infos))
      = some ([[[]], [[]]], some (1, 1), [⟨0, [0], []⟩]) := by decide


/-- the classic greedy trap: the big middle set is picked first and pruned afterwards -/
example : KeysNodup [((0, 0), [1, 2, 3, 4]), ((0, 1), [1, 2, 5]), ((1, 0), [3, 4, 6]), ((1, 1), [])] ∧
    greedy 4 (candidates [((0, 0), [1, 2, 3, 4]), ((0, 1), [1, 2, 5]), ((1, 0), [3, 4, 6]), ((1, 1), [])])
      (universeOf [((0, 0), [1, 2, 3, 4]), ((0, 1), [1, 2, 5]), ((1, 0), [3, 4, 6]), ((1, 1), [])]) []
      = some [(0, 0), (0, 1), (1, 0)] ∧
    selectMinimal? [((0, 0), [1, 2, 3, 4]), ((0, 1), [1, 2, 5]), ((1, 0), [3, 4, 6]), ((1, 1), [])]
      = some [(0, 1), (1, 0)] := by
  refine ⟨by unfold KeysNodup; decide, by decide, by decide⟩

/-- ties go to the lowest key, whatever the insertion order of the dict -/
example : selectMinimal? [((2, 0), [7, 8]), ((0, 3), [8, 7]), ((1, 1), [7])] = some [(0, 3)] := by decide

/-- a summary with a timeout after a kill (the mutant is *not* killed), a clean kill and a survivor -/
example : computeSummary 3
    [[some ⟨false, true⟩, some ⟨false, true⟩, none],
     [some ⟨true, false⟩, some ⟨false, false⟩, some ⟨false, false⟩]]
    = some [⟨0, [1], [0]⟩, ⟨1, [], [0]⟩, ⟨2, [], []⟩] ∧
    getScore (getMetrics [⟨0, [1], [0]⟩, ⟨1, [], [0]⟩, ⟨2, [], []⟩]) = some (1, 2) := by decide

/-- a whole pass: one skipped mutant, one test with two assertions that both see mutant 0; the
second assertion is redundant and removed, the kill is kept -/
example :
    (handleAdd true [[[⟨10, false⟩, ⟨11, false⟩]]]
      [none, some [some ⟨false, ⟨[(0, [0, 1])], []⟩, false⟩]]).map (fun o => (o.tests, o.score))
    = some ([[[⟨10, false⟩]]], some (1, 1)) := by decide

end PynguinModel.SetCover

/-! ### `AssertionGenerator.__remove_non_holding_assertions` (first clause of C21) -/
namespace PynguinModel.AssertFilter
open PynguinModel.SetCover

/-- "reported as not holding": position `i` of statement `idx` is in `trace.failed` or `trace.error`. -/
def Reported (t : VTrace) (idx i : Nat) : Prop := i ∈ dictGet t.failed idx ∨ i ∈ dictGet t.error idx

/-- **One statement**: with pairwise distinct assertions and a trace that speaks about existing
positions the loop ends normally (no `KeyError`/`ValueError`), keeps a sublist (order preserved), and
an assertion is kept iff its position was not reported — failed and errored positions alike, in
whatever order they were reported. -/
theorem C21_nonholding_stmt_exact {α} [DecidableEq α] (st : List α) (t : VTrace) (idx : Nat)
    (hs : st.Nodup) (hr : ∀ p, Reported t idx p → p < st.length) :
    ∃ kept, removeStmt st (toDelete t idx) = some kept ∧ kept.Sublist st ∧
      ∀ i (h : i < st.length), st[i] ∈ kept ↔ ¬ Reported t idx i := by
  obtain ⟨kept, h1, h2, h3⟩ := removeStmt_spec st hs (toDelete t idx) (nodup_toDelete t idx)
    (fun p hp => hr p ((mem_toDelete t idx p).1 hp))
  exact ⟨kept, h1, h2, fun i hi => by rw [h3 i hi, mem_toDelete]; rfl⟩

/-- **The whole test**: `__remove_non_holding_assertions(test, result)` filters every statement by
the positions reported for that statement and touches nothing else. -/
theorem C21_nonholding_removed_exactly {α} [DecidableEq α] (test : List (List α)) (t : VTrace)
    (hs : ∀ st ∈ test, st.Nodup)
    (hr : ∀ k (h : k < test.length) p, Reported t k p → p < test[k].length) :
    ∃ out, removeNonHolding test t = some out ∧ out.length = test.length ∧
      ∀ k (h : k < test.length) (h' : k < out.length), out[k].Sublist test[k] ∧
        ∀ i (hi : i < test[k].length), test[k][i] ∈ out[k] ↔ ¬ Reported t k i := by
  obtain ⟨out, h1, h2, h3⟩ := removeNonHoldingFrom_spec t test 0 hs
    (fun k hk p hp => hr k hk p (by rw [Nat.zero_add] at hp; exact (mem_toDelete t k p).1 hp))
  refine ⟨out, h1, h2, fun k hk hk' => ?_⟩
  obtain ⟨q1, q2⟩ := h3 k hk hk'
  refine ⟨q1, fun i hi => ?_⟩
  rw [q2 i hi, Nat.zero_add, mem_toDelete]
  rfl

/-- hypotheses satisfiable, non-trivially: a failed and an errored assertion on the same statement,
the errored one behind the failed one, an untouched neighbour statement -/
example : removeNonHolding [[7], [10, 11, 12, 13], [20]] ⟨[(1, [0])], [(1, [2]), (2, [])]⟩
    = some [[7], [11, 13], [20]] := by decide

/-- Deleting by position in two passes (failed positions, then errored positions) is **not** the
same: after the first pass the errored position is stale, the errored assertion `12` stays and the
holding assertion `13` is deleted; the real loop keeps exactly `[11, 13]`. -/
theorem C21_nonholding_two_pass_cex :
    twoPassStmt [10, 11, 12, 13] ⟨[(1, [0])], [(1, [2])]⟩ 1 = some [11, 12] ∧
    removeStmt [10, 11, 12, 13] (toDelete ⟨[(1, [0])], [(1, [2])]⟩ 1) = some [11, 13] ∧
    twoPassStmt [10, 11, 12] ⟨[(1, [0])], [(1, [2])]⟩ 1 = none := by decide

end PynguinModel.AssertFilter
