import PynguinModel.Lemmas.ArchiveMio
import PynguinModel.Lemmas.ArchiveHeap
/-!
# C13 — The archive never loses a covered goal or a better solution

Property theorems only.  A *history* of a `CoverageArchive` is any list of `Op`s (`update` with any
solutions, `add_goals` with any goals — this includes everything `_GoalsManager.update` does) applied
to `CoverageArchive(objectives)`; a history of a `MIOPopulation` is any list of `POp`s
(`add_solution`, `shrink_population`, `sample_solution`) applied to `MIOPopulation(n)`; a history of a
`MIOArchive` is any list of `MOp`s (`update`, `shrink_solutions`).  All theorems are by induction
over the history (via the invariants `Inv` / `PopInv` of `Lemmas/Archive*.lean`); no bounds.

`reset()` is not part of a search history (it is never called by the algorithms) and is not modelled.
-/
namespace PynguinModel.Archive

/-! ## CoverageArchive -/

/-- The set of goals recorded as covered only grows — and keeps its order: after any history the
old `covered_goals` is a prefix of the new one. -/
theorem covered_monotone (a : CArchive) (ops : List Op) :
    a.coveredGoals <+: (a.run ops).coveredGoals := run_prefix a ops

theorem covered_stays_covered (a : CArchive) (ops : List Op) (g : Goal) (h : g ∈ a.coveredGoals) :
    g ∈ (a.run ops).coveredGoals := (covered_monotone a ops).subset h

/-- The objectives only grow as well (`add_goals` appends, `update` leaves them alone). -/
theorem objectives_monotone (a : CArchive) (ops : List Op) :
    a.objectives <+: (a.run ops).objectives := run_objectives_prefix a ops

/-- Covered and uncovered goals partition the objectives, after every history:
`uncovered` is exactly the objectives without a covering solution, in objective order; all three
collections are duplicate-free. -/
theorem covered_uncovered_partition (objs : List Goal) (ops : List Op) :
    let a := (CArchive.init objs).run ops
    a.uncovered = a.objectives.filter (fun g => decide (g ∉ a.coveredGoals)) ∧
    a.objectives.Nodup ∧ a.coveredGoals.Nodup ∧ a.uncovered.Nodup ∧
    (∀ g, g ∈ a.objectives ↔ (g ∈ a.coveredGoals ∨ g ∈ a.uncovered)) ∧
    (∀ g, ¬ (g ∈ a.coveredGoals ∧ g ∈ a.uncovered)) := by
  intro a
  have inv : Inv a := run_inv (inv_init objs) ops
  refine ⟨inv.unc, inv.objNodup, inv.keysNodup, ?_, ?_, ?_⟩
  · rw [inv.unc]; exact inv.objNodup.sublist List.filter_sublist
  · intro g
    rw [inv.unc]
    constructor
    · intro hg
      by_cases hc : g ∈ a.coveredGoals
      · exact Or.inl hc
      · exact Or.inr (List.mem_filter.2 ⟨hg, by simpa [CArchive.coveredGoals] using hc⟩)
    · rintro (h | h)
      · exact inv.keysObj g h
      · exact (List.mem_filter.1 h).1
  · intro g ⟨hc, hu⟩
    rw [inv.unc] at hu
    have := (List.mem_filter.1 hu).2
    simp only [decide_eq_true_eq] at this
    exact this hc

/-- Every archived solution covers the goal it is archived for (as of its insertion: `Sol`s are
immutable values), so the `assert self._all_covered()` of `solutions` never fails. -/
theorem archived_covers (objs : List Goal) (ops : List Op) (g : Goal) (s : Sol)
    (h : (g, s) ∈ ((CArchive.init objs).run ops).covered) : s.coversB g = true :=
  (run_inv (inv_init objs) ops).covers (g, s) h

theorem solutions_never_asserts (objs : List Goal) (ops : List Op) :
    ((CArchive.init objs).run ops).solutions ≠ none := by
  have inv := run_inv (inv_init objs) ops
  have hall : ((CArchive.init objs).run ops).allCovered = true :=
    List.all_eq_true.2 (fun p hp => inv.covers p hp)
  simp [CArchive.solutions, hall]

/-- `_is_better_than_current` is exactly the property's replacement rule. -/
theorem is_better_than_current_spec (old new : Sol) :
    isBetterThanCurrent old new = true ↔
      (old.erroneous = true ∧ new.clean = true) ∨ new.size < old.size :=
  isBetterThanCurrent_iff old new

/-- The replacement rule over whole histories.  `log` holds one event per executed assignment
`_covered[goal] = new` with the value `old` the dict held before.  The log is faithful (replaying it
from the empty dict, checking every `old`, yields exactly the final `covered` dict) and every event
obeys the rule: `new` covers the goal, and if there was an `old` solution then it was erroneous and
`new` is clean, or `new` is strictly shorter. -/
theorem replacement_rule (objs : List Goal) (ops : List Op) :
    let a := (CArchive.init objs).run ops
    replayLog a.log = some a.covered ∧
    ∀ e ∈ a.log, e.new.coversB e.goal = true ∧
      ∀ o, e.old = some o → (o.erroneous = true ∧ e.new.clean = true) ∨ e.new.size < o.size := by
  intro a
  have inv : Inv a := run_inv (inv_init objs) ops
  exact ⟨inv.replay, inv.rule⟩

/-- `_on_target_covered` fires exactly once per goal, in the order in which goals become covered. -/
theorem callbacks_exactly_once (objs : List Goal) (ops : List Op) :
    let a := (CArchive.init objs).run ops
    a.notified = a.coveredGoals ∧ a.notified.Nodup := by
  intro a
  have inv : Inv a := run_inv (inv_init objs) ops
  exact ⟨inv.notif, inv.notif ▸ inv.keysNodup⟩

/-- `_GoalsManager.update` (any number of loop iterations) is a history of the archive, and leaves
`_current_goals` duplicate-free and inside the archive's uncovered goals. -/
theorem goals_manager_update (objs : List Goal) (ops : List Op) (current : List Goal)
    (children : List (Goal × List Goal)) (sols : List Sol) (fuel : Nat) (m' : GM)
    (h : gmUpdate fuel ⟨(CArchive.init objs).run ops, current, children⟩ sols = some m') :
    (∃ ops', m'.archive = (CArchive.init objs).run (ops ++ ops')) ∧
    m'.current.Nodup ∧ ∀ g ∈ m'.current, g ∈ m'.archive.uncovered := by
  have inv := run_inv (inv_init objs) ops
  obtain ⟨⟨ops', ho⟩, _, hn, hu⟩ := gmUpdate_spec fuel (m := ⟨_, current, children⟩) inv h
  refine ⟨⟨ops', ?_⟩, hn, hu⟩
  rw [ho]; simp [CArchive.run, List.foldl_append]

/-! ## Archived chromosomes are objects: only `update` / `add_goals` change what the archive holds

`World` (`Model/ArchiveHeap.lean`) puts the chromosomes into an object store; the archive and the search loop
hold references. Loop operations: new objects (population, offspring, clones), `archive.update` on references,
`add_goals`, and `DynaMOSAAlgorithm.local_search` (clone the archived solutions, edit the clones in place,
update with the clones). -/

/-- No operation of the search loop alters an object that already exists (in particular an archived one), and
what the archive holds changes only through value-level `update` / `add_goals` events: the operation amounts to
the (possibly empty) list of archive events `op.events w`. Local search with `clone()` is such an operation. -/
theorem archive_changes_only_through_update (w : World) (hi : HInv w) (op : LOp) (hop : op.aliasFree = true) :
    w.heap <+: (w.step op).heap ∧ HInv (w.step op) ∧ (w.step op).a = w.a.run (op.events w) :=
  step_frame hi op hop

/-- After any alias-free history of the search loop, every archived reference, dereferenced NOW, is the
solution that was archived, and it covers the goal it is archived for; `solutions` does not assert. -/
theorem archived_object_covers_now (objs : List Goal) (ops : List LOp) (hops : ∀ op ∈ ops, op.aliasFree = true)
    (g : Goal) (s : Sol) (h : (g, s) ∈ ((World.init objs).run ops).a.covered) :
    ((World.init objs).run ops).heap[s.id]? = some s ∧ s.coversB g = true ∧
      (refresh ((World.init objs).run ops).heap ((World.init objs).run ops).a).solutions ≠ none := by
  obtain ⟨_, hi, evs, he⟩ := run_frame (hinv_init objs) ops hops
  have hinit : (World.init objs).a = CArchive.init objs := rfl
  rw [hinit] at he
  refine ⟨hi.coh (g, s) h, ?_, ?_⟩
  · rw [he] at h; exact archived_covers objs evs g s h
  · rw [refresh_of_coh hi.coh, he]; exact solutions_never_asserts objs evs

private def c1 : Sol := ⟨0, 2, some (false, false), [1]⟩       -- covers goal 1
private def c2 : Sol := ⟨0, 2, some (false, false), [2]⟩       -- the same test after local search moved it to goal 2

/-- Local search WITHOUT `clone()` breaks the clause: the archived object for goal 1 is rewritten in place into a
test covering goal 2 (the suite got better: goal 2 is new); the following update archives it for goal 2 and keeps
it for goal 1, which it does not cover any more — `solutions` trips its own assertion. With `clone()` the same
edit leaves the archived object alone. -/
theorem aliasing_local_search_cex :
    let w := (World.init [1, 2]).run [.alloc [c1], .update [0], .aliasLocalSearch [(0, c2)]]
    let w' := (World.init [1, 2]).run [.alloc [c1], .update [0], .localSearch [(0, c2)]]
    (w.a.covered.map (fun p => (p.1, p.2.id)) = [(1, 0), (2, 0)] ∧ w.heap[0]?.map (·.coversB 1) = some false ∧
      (refresh w.heap w.a).solutions = none) ∧
    (w'.a.covered.map (fun p => (p.1, p.2.id)) = [(1, 0), (2, 1)] ∧ w'.heap[0]?.map (·.coversB 1) = some true ∧
      w'.heap[1]?.map (·.coversB 2) = some true ∧ (refresh w'.heap w'.a).solutions ≠ none) := by
  decide

/-- the hypotheses of the two theorems above are satisfiable on a non-trivial history (a local search that
succeeds on a clone) -/
example : (∀ op ∈ [LOp.alloc [c1], .update [0], .localSearch [(0, c2)]], op.aliasFree = true) ∧
    (2, { c2 with id := 1 }) ∈ ((World.init [1, 2]).run [.alloc [c1], .update [0], .localSearch [(0, c2)]]).a.covered := by
  decide

/-! ## MIOPopulation -/

/-- A population never exceeds its capacity, stays sorted by descending `h`, holds only `h` values
in `(0, 1]`, and as soon as it holds a fully covering solution (`h = 1`) it is `is_covered`. -/
theorem mio_population_invariant (n : Nat) (ops : List POp) :
    let p := (Pop.init n).run ops
    p.sols.length ≤ p.capacity ∧
    p.sols.Pairwise (fun a b => b.1 ≤ a.1) ∧
    (∀ x ∈ p.sols, 0 < x.1 ∧ x.1 ≤ hOne) ∧
    ((∃ x ∈ p.sols, x.1 = hOne) → p.isCovered = true) := by
  intro p
  have inv : PopInv p := run_popInv (popInv_init n) ops
  exact ⟨inv.lenCap, inv.sorted, inv.hRange, inv.oneCov⟩

/-- A covered target keeps exactly one solution, with `h = 1` and capacity 1. -/
theorem mio_covered_exactly_one (p : Pop) (h : p.isCovered = true) :
    ∃ s, p.sols = [(hOne, s)] ∧ p.capacity = 1 ∧ p.best = some s := by
  obtain ⟨s, hs, hc⟩ := (isCovered_iff p).1 h
  exact ⟨s, hs, hc, by simp [Pop.best, h, hs]⟩

/-- Covered stays covered, whatever happens next. -/
theorem mio_covered_stays_covered (p : Pop) (h : p.isCovered = true) (ops : List POp) :
    (p.run ops).isCovered = true := run_covered h ops

/-- Offering a fully covering solution (`h = 1`) always leaves the target covered — so from the
first such offer on, the target is covered forever. -/
theorem mio_cover_is_recorded (n : Nat) (ops ops' : List POp) (s : Sol) :
    ((Pop.init n).run (ops ++ [.add hOne s] ++ ops')).isCovered = true := by
  rw [run_append, run_append]
  apply run_covered
  exact step_add_one_covered (run_popInv (popInv_init n) ops) s

/-- Replacement rule for a covered MIO target (repaired code): `add_solution` leaves the solution
list alone or installs the candidate, and then the candidate fully covers the target (`h = 1`) and
the old solution was erroneous while the candidate is clean, or the candidate is strictly shorter. -/
theorem mio_replacement_rule (p : Pop) (hc : p.isCovered = true) (h : Nat) (s : Sol) :
    (p.step (.add h s)).sols = p.sols ∨
    ∃ o, p.sols = [(hOne, o)] ∧ h = hOne ∧ (p.step (.add h s)).sols = [(hOne, s)] ∧
      ((o.erroneous = true ∧ s.clean = true) ∨ s.size < o.size) := by
  have hp := popInv_of_covered hc
  simp only [Pop.step]
  split
  · rename_i r hr
    have hcase := addSolution_cases hp h s hr
    cases hcase with
    | rejectZero => exact Or.inl rfl
    | rejectCovered => exact Or.inl rfl
    | replaceBest o h1 hs _ hb => exact Or.inr ⟨o, hs, h1, rfl, (isPairBetter_one_iff o s).1 hb⟩
    | keepBest => exact Or.inl rfl
    | firstCover _ hn => simp [hc] at hn
    | append _ _ hn => simp [hc] at hn
    | replaceWorst _ _ _ hn => simp [hc] at hn
    | keepWorst _ _ _ hn => simp [hc] at hn
  · exact Or.inl rfl

/-- The rule the unrepaired code used for covered targets (`<=` instead of `<`) let an error-free
solution be replaced by an erroneous one of the same length. -/
theorem mio_nonstrict_rule_cex :
    ∃ o s : Sol, mioIsBetterThanCurrent false o s = true ∧
      ¬ ((o.erroneous = true ∧ s.clean = true) ∨ s.size < o.size) :=
  ⟨⟨0, 3, some (false, false), []⟩, ⟨1, 3, some (false, true), []⟩, by decide⟩

/-- With a valid capacity and `h ∈ [0, 1]`, `add_solution` never raises: in particular its final
`assert len(self._solutions) <= self._capacity` cannot fail. -/
theorem mio_add_never_fails (n : Nat) (hn : 1 ≤ n) (ops : List POp) (h : Nat) (hh : h ≤ hOne) (s : Sol) :
    ∃ r, ((Pop.init n).run ops).addSolution h s = .ok r := by
  have key : ∀ (ops : List POp) (p : Pop), PopInv p → 1 ≤ p.capacity →
      PopInv (p.run ops) ∧ 1 ≤ (p.run ops).capacity := by
    intro ops
    induction ops with
    | nil => intro p hp hc; exact ⟨hp, hc⟩
    | cons op ops ih =>
      intro p hp hc
      refine ih (p.step op) (step_popInv hp op) ?_
      cases op with
      | add h s =>
        simp only [Pop.step]
        split
        · rename_i r hr
          have hcase := addSolution_cases hp h s hr
          cases hcase <;> first | exact hc | exact Nat.le_refl 1
        · exact hc
      | shrink k =>
        simp only [Pop.step, Pop.shrink]
        split
        · rename_i r hr
          split at hr
          · cases hr
          · split at hr <;> (injection hr with hr; subst hr)
            · exact hc
            · simp only; omega
        · exact hc
      | sample r =>
        simp only [Pop.step, Pop.sample]
        split <;> exact hc
  obtain ⟨hp, hc⟩ := key ops (Pop.init n) (popInv_init n) (by simpa [Pop.init] using hn)
  exact addSolution_ok hp hh s (Or.inr hc)

/-! ## MIOArchive -/

/-- The targets of a MIO archive never change. -/
theorem mio_archive_targets_fixed (m : MArchive) (ops : List MOp) :
    keys (m.run ops).pops = keys m.pops := mrun_keys m ops

/-- Every history of a `MIOArchive` is, target by target, a history of that target's
`MIOPopulation` — so all population theorems above hold for every target of the archive. -/
theorem mio_archive_history (ts : List Goal) (n : Nat) (ops : List MOp) (g : Goal) (hg : g ∈ ts) :
    ∃ pops, lookup ((MArchive.init ts n).run ops).pops g = some ((Pop.init n).run pops) := by
  have hk := (minit_keys ts n g).2 hg
  cases hl : lookup (MArchive.init ts n).pops g with
  | none => exact absurd hk ((lookup_eq_none_iff _ g).1 hl)
  | some p =>
    have hp : p = Pop.init n := minit_values ts n (g, p) (lookup_some_mem hl)
    subst hp
    exact mrun_lookup _ ops hl

/-- Archive-level statement of the MIO clauses of the property. -/
theorem mio_archive_invariant (ts : List Goal) (n : Nat) (ops ops' : List MOp) (g : Goal) (hg : g ∈ ts) :
    ∃ p p', lookup ((MArchive.init ts n).run ops).pops g = some p ∧
      lookup ((MArchive.init ts n).run (ops ++ ops')).pops g = some p' ∧
      p.sols.length ≤ p.capacity ∧ (p.isCovered = true → p.sols.length = 1) ∧
      (p.isCovered = true → p'.isCovered = true) := by
  obtain ⟨po, hpo⟩ := mio_archive_history ts n ops g hg
  have hrun : (MArchive.init ts n).run (ops ++ ops') = ((MArchive.init ts n).run ops).run ops' := by
    simp [MArchive.run, List.foldl_append]
  obtain ⟨po', hpo'⟩ := mrun_lookup ((MArchive.init ts n).run ops) ops' hpo
  refine ⟨_, _, hpo, by rw [hrun]; exact hpo', ?_, ?_, ?_⟩
  · exact (run_popInv (popInv_init n) po).lenCap
  · intro hc
    obtain ⟨s, hs, _⟩ := (isCovered_iff _).1 hc
    simp [hs]
  · intro hc; exact run_covered hc po'

/-! ## Non-vacuity: concrete histories satisfying the hypotheses above -/

section Examples

private def s1 : Sol := ⟨1, 4, some (false, true), [10, 11]⟩   -- raises, covers 10 and 11
private def s2 : Sol := ⟨2, 6, some (false, false), [10]⟩      -- clean, longer, covers 10
private def s3 : Sol := ⟨3, 2, none, [11, 12]⟩                 -- no result, shorter

/-- A history in which a goal is covered, an erroneous solution is replaced by a longer clean one,
another by a strictly shorter one, and a goal is added later and then covered. -/
example :
    let a := (CArchive.init [10, 11]).run [.update [s1, s2], .addGoals [12, 10], .update [s3]]
    a.coveredGoals = [10, 11, 12] ∧ a.uncovered = [] ∧ a.objectives = [10, 11, 12] ∧
    a.covered.map (fun p => (p.1, p.2.id)) = [(10, 2), (11, 3), (12, 3)] ∧
    a.log.map (fun e => (e.goal, e.old.map (·.id), e.new.id)) =
      [(10, none, 1), (10, some 1, 2), (11, none, 1), (11, some 1, 3), (12, none, 3)] := by
  decide

/-- A covered MIO population exists and is reached by a history; a strictly shorter solution
replaces the archived one, an equally long one does not. -/
example :
    let p := (Pop.init 3).run [.add hOne s2]
    p.isCovered = true ∧ (p.step (.add hOne s1)).sols = [(hOne, s1)] ∧
    (p.step (.add hOne { s2 with id := 9 })).sols = p.sols := by
  decide

example : (1 : Nat) ≤ 3 ∧ (12345 : Nat) ≤ hOne := by decide

/-- A goals-manager update that terminates and replaces a covered root by its children. -/
example :
    (gmUpdate 5 ⟨(CArchive.init [10]).run [], [10], [(10, [11, 12])]⟩ [s1]).map
      (fun m => (m.current, m.archive.coveredGoals, m.archive.uncovered)) = some ([12], [10, 11], [12]) := by
  decide

example : 10 ∈ [10, 11] := by decide

end Examples

end PynguinModel.Archive
