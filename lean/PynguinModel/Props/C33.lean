import PynguinModel.Lemmas.MasterWorker
/-!
# C33 — Worker crashes never hang Pynguin and restarts are bounded

Property theorems only.  The environment is an arbitrary script of worker fates (`List Fate`, no
bound on the number of crashes; `terminates_stream` speaks about infinite scripts).  The runtime
assumption of the restart bound is stated explicitly as `AllPos`: every worker that dies consumed
a positive amount of wall-clock time as measured by the master (`time.time() - _start_time > 0`);
`zero_elapsed_restarts_unbounded` shows that the assumption is necessary.

The "never hangs" statements are about the repaired `get_result` (`cfg.liveness = true`, proposed
fix `C33-orphan-holds-pipe`).  For the blocking `recv()` of the unrepaired code the statement is
`never_hangs_partial` (no orphan holds the pipe) and `hang_orphan_holds_pipe_cex` is the witness
that the full statement fails there.
-/
namespace PynguinModel.MasterWorker

/-- Every worker in the script that dies without delivering consumed positive wall-clock time. -/
def AllPos (fates : List Fate) : Prop := ∀ f ∈ fates, f.PosElapsed

private theorem allPos_good {fates : List Fate} (h : AllPos fates) : ∀ f ∈ fates, f.Good PosB :=
  fun f hf => (posElapsed_iff_good f).1 (h f hf)

/-! ## Each restart strictly reduces the remaining search time -/

/-- One crash: with search time left and positive elapsed time, `_adjust_search_time_after_crash`
leaves a non-negative search time that is smaller by at least one second. -/
theorem restart_decreases (t : Task) (e : Elapsed) (hpos : 0 < e.num) (ht : 0 < t.maxSearchTime) :
    0 ≤ (adjustSearchTimeAfterCrash t e).maxSearchTime ∧
    (adjustSearchTimeAfterCrash t e).maxSearchTime ≤ t.maxSearchTime - 1 := by
  rw [adjust_of_pos ht]
  have := remainingTime_lt hpos ht
  exact ⟨remainingTime_nonneg _ _, by omega⟩

/-- Whole runs: the search-time budgets handed to the successive workers (newest first) are
strictly decreasing, for every script. -/
theorem worker_budgets_strictly_decrease (cfg : Cfg) (t : Task) (fates : List Fate)
    (hpos : AllPos fates) :
    (runPynguin cfg t fates).state.timeline.Pairwise (· < ·) := by
  cases fates with
  | nil => simp [runPynguin, ClientOutcome.state, initState]
  | cons f rest =>
    cases f with
    | spawnFails => simp [runPynguin, ClientOutcome.state, initState]
    | runs b =>
      rw [runPynguin_state_runs]
      have hg := allPos_good hpos
      refine getResult_invariant cfg PosB
        (fun s => s.timeline.Pairwise (· < ·) ∧ ∀ x ∈ s.timeline, s.task.maxSearchTime ≤ x)
        (fun o => o.state.timeline.Pairwise (· < ·))
        ?_ ?_ ?_ ?_ ?_ ?_ rest _ b ?_ (hg _ (List.mem_cons_self ..))
        (fun f hf => hg f (List.mem_cons_of_mem _ hf))
      · intro s b r hR _ _; exact hR.1
      · intro s b hR _ _; exact hR.1
      · intro s b e hR _ _ h2
        rw [(restartPrefix_false h2).1]; exact hR.1
      · intro s b e hR _ _ h2
        simp only [Outcome.state]; rw [(restartPrefix_true h2).2.2.2.2.1]; exact hR.1
      · intro s b e hR _ _ h2
        simp only [Outcome.state]; rw [(restartPrefix_true h2).2.2.2.2.1]; exact hR.1
      · intro s b e hR hb he h2
        have hT := restartPrefix_true_pos h2
        obtain ⟨_, hT', _, _, htl, _⟩ := restartPrefix_true h2
        have hlt := remainingTime_lt (hb e he) hT
        rw [adjust_of_pos hT] at hT'
        simp only [startWorker, htl, hT']
        refine ⟨List.pairwise_cons.2 ⟨?_, hR.1⟩, ?_⟩
        · intro x hx; have := hR.2 x hx; omega
        · intro x hx
          rcases List.mem_cons.1 hx with rfl | hx
          · exact Int.le_refl _
          · have := hR.2 x hx; omega
      · simp [startWorker, initState]

/-! ## Restarts are bounded by the initial search time -/

/-- For every script: the number of restarts is at most `maximum_search_time - 1` (and `0` without
a positive search time), and at most `max 1 maximum_search_time` worker processes are started. -/
theorem restarts_bounded (cfg : Cfg) (t : Task) (fates : List Fate) (hpos : AllPos fates) :
    ((runPynguin cfg t fates).state.restartCount : Int) + 1 ≤ max 1 t.maxSearchTime ∧
    ((runPynguin cfg t fates).state.started : Int) ≤ max 1 t.maxSearchTime := by
  cases fates with
  | nil => simp only [runPynguin, ClientOutcome.state, initState]; omega
  | cons f rest =>
    cases f with
    | spawnFails => simp only [runPynguin, ClientOutcome.state, initState]; omega
    | runs b =>
      rw [runPynguin_state_runs]
      have hg := allPos_good hpos
      refine getResult_invariant cfg PosB
        (fun s => (s.restartCount : Int) + max 1 s.task.maxSearchTime ≤ max 1 t.maxSearchTime ∧
          s.started = s.restartCount + 1)
        (fun o => (o.state.restartCount : Int) + 1 ≤ max 1 t.maxSearchTime ∧
          (o.state.started : Int) ≤ max 1 t.maxSearchTime)
        ?_ ?_ ?_ ?_ ?_ ?_ rest _ b ?_ (hg _ (List.mem_cons_self ..))
        (fun f hf => hg f (List.mem_cons_of_mem _ hf))
      · intro s b r hR _ _; simp only [Outcome.state]; omega
      · intro s b hR _ _; simp only [Outcome.state]; omega
      · intro s b e hR _ _ h2
        rw [(restartPrefix_false h2).1]; simp only [Outcome.state]; omega
      · intro s b e hR hb he h2
        have hT := restartPrefix_true_pos h2
        obtain ⟨hpos', hT', hrc, hst, _, _⟩ := restartPrefix_true h2
        have hlt := remainingTime_lt (hb e he) hT
        rw [adjust_of_pos hT] at hT' hpos'
        simp only [Outcome.state, hrc, hst]; omega
      · intro s b e hR hb he h2
        have hT := restartPrefix_true_pos h2
        obtain ⟨hpos', hT', hrc, hst, _, _⟩ := restartPrefix_true h2
        have hlt := remainingTime_lt (hb e he) hT
        rw [adjust_of_pos hT] at hT' hpos'
        simp only [Outcome.state, hrc, hst]; omega
      · intro s b e hR hb he h2
        have hT := restartPrefix_true_pos h2
        obtain ⟨hpos', hT', hrc, hst, _, _⟩ := restartPrefix_true h2
        have hlt := remainingTime_lt (hb e he) hT
        rw [adjust_of_pos hT] at hT' hpos'
        simp only [startWorker, hrc, hst, hT']; omega
      · exact ⟨by simp only [startWorker, initState]; omega, rfl⟩

/-! ## `get_result` terminates -/

/-- `get_result` returns (or raises into `MasterProcess.get_result`) as soon as the script covers
`maximum_search_time - 1` further workers: it never needs more. -/
theorem getResult_terminates (cfg : Cfg) (hl : cfg.liveness = true) :
    ∀ (rest : List Fate) (s : State) (b : Behaviour), PosB b → (∀ f ∈ rest, f.PosElapsed) →
      s.task.maxSearchTime - 1 ≤ (rest.length : Int) →
      (∃ r s', getResult cfg s b rest = .returned r s') ∨ (∃ s', getResult cfg s b rest = .raised s') := by
  intro rest
  induction rest with
  | nil =>
    intro s b hb _ hlen
    cases hrecv : receive cfg.liveness s (workerMain b) with
    | msg r => simp only [getResult, step_msg hrecv]; exact Or.inl ⟨_, _, rfl⟩
    | hang => have := (receive_hang hrecv).1; simp [hl] at this
    | exc e =>
      cases h2 : (restartPrefix cfg s e).2 with
      | false => simp only [getResult, step_abort hrecv h2]; exact Or.inl ⟨_, _, rfl⟩
      | true =>
        exfalso
        have hT := restartPrefix_true_pos h2
        have h1 := (restartPrefix_true h2).1
        rw [adjust_of_pos hT] at h1
        have := remainingTime_lt (hb e (receive_exc hrecv)) hT
        simp only [List.length_nil] at hlen
        omega
  | cons f rest ih =>
    intro s b hb hrest hlen
    cases hrecv : receive cfg.liveness s (workerMain b) with
    | msg r => simp only [getResult, step_msg hrecv]; exact Or.inl ⟨_, _, rfl⟩
    | hang => have := (receive_hang hrecv).1; simp [hl] at this
    | exc e =>
      cases h2 : (restartPrefix cfg s e).2 with
      | false => simp only [getResult, step_abort hrecv h2]; exact Or.inl ⟨_, _, rfl⟩
      | true =>
        simp only [getResult, step_restart hrecv h2]
        cases f with
        | spawnFails => exact Or.inr ⟨_, rfl⟩
        | runs b' =>
          have hT := restartPrefix_true_pos h2
          obtain ⟨_, hT', _⟩ := restartPrefix_true h2
          rw [adjust_of_pos hT] at hT'
          have hlt := remainingTime_lt (hb e (receive_exc hrecv)) hT
          refine ih _ b' ((posElapsed_iff_good _).1 (hrest _ (List.mem_cons_self ..)))
            (fun f hf => hrest f (List.mem_cons_of_mem _ hf)) ?_
          simp only [startWorker, hT']
          simp only [List.length_cons] at hlen
          omega

/-- The command returns: for every script of positive-elapsed fates that is at least
`max 1 maximum_search_time` long, `run_pynguin` produces a return code (it is neither waiting for
more input nor hanging). -/
theorem terminates (cfg : Cfg) (hl : cfg.liveness = true) (t : Task) (fates : List Fate)
    (hpos : AllPos fates) (hlen : max 1 t.maxSearchTime ≤ (fates.length : Int)) :
    ∃ rc r s, runPynguin cfg t fates = .code rc r s := by
  cases fates with
  | nil => simp only [List.length_nil] at hlen; omega
  | cons f rest =>
    cases f with
    | spawnFails => exact ⟨_, _, _, rfl⟩
    | runs b =>
      have hb : PosB b := (posElapsed_iff_good _).1 (hpos _ (List.mem_cons_self ..))
      have := getResult_terminates cfg hl rest (startWorker (initState t)) b hb
        (fun f hf => hpos f (List.mem_cons_of_mem _ hf))
        (by simp only [startWorker, initState, List.length_cons] at hlen ⊢; omega)
      simp only [runPynguin, masterGetResult]
      rcases this with ⟨r, s', h⟩ | ⟨s', h⟩ <;> rw [h] <;> exact ⟨_, _, _, rfl⟩

/-- Once `get_result` has finished, further script entries are never looked at. -/
theorem getResult_append (cfg : Cfg) (more : List Fate) :
    ∀ (rest : List Fate) (s : State) (b : Behaviour),
      (∀ s', getResult cfg s b rest ≠ .blocked s') →
      getResult cfg s b (rest ++ more) = getResult cfg s b rest := by
  intro rest
  induction rest with
  | nil =>
    intro s b h
    simp only [List.nil_append]
    cases hs : step cfg s b with
    | done o => cases more <;> simp only [getResult, hs]
    | restart s' => simp only [getResult, hs] at h; exact absurd rfl (h s')
  | cons f rest ih =>
    intro s b h
    simp only [List.cons_append]
    cases hs : step cfg s b with
    | done o => simp only [getResult, hs]
    | restart s' =>
      simp only [getResult, hs] at h ⊢
      cases f with
      | spawnFails => rfl
      | runs b' => exact ih _ b' h

/-- The return code of the command does not depend on anything after the point where it returned. -/
theorem result_stable (cfg : Cfg) (t : Task) (fates more : List Fate) {rc r s}
    (h : runPynguin cfg t fates = .code rc r s) :
    runPynguin cfg t (fates ++ more) = .code rc r s := by
  cases fates with
  | nil => simp [runPynguin] at h
  | cons f rest =>
    cases f with
    | spawnFails => simpa [runPynguin] using h
    | runs b =>
      simp only [List.cons_append, runPynguin, masterGetResult] at h ⊢
      rw [getResult_append cfg more rest _ b]
      · exact h
      · intro s' hb; rw [hb] at h; simp at h

/-- Infinite crash sequences: for every infinite script with positive elapsed times the command
returns a fixed return code after looking at no more than `max 1 maximum_search_time` workers. -/
theorem terminates_stream (cfg : Cfg) (hl : cfg.liveness = true) (t : Task) (env : Nat → Fate)
    (hpos : ∀ i, (env i).PosElapsed) :
    ∃ rc r s, ∀ m, (max 1 t.maxSearchTime).toNat ≤ m →
      runPynguin cfg t ((List.range m).map env) = .code rc r s := by
  have hall : ∀ m, AllPos ((List.range m).map env) := by
    intro m f hf
    obtain ⟨i, _, rfl⟩ := List.mem_map.1 hf
    exact hpos i
  obtain ⟨rc, r, s, h⟩ := terminates cfg hl t ((List.range (max 1 t.maxSearchTime).toNat).map env)
    (hall _) (by simp only [List.length_map, List.length_range]; omega)
  refine ⟨rc, r, s, fun m hm => ?_⟩
  obtain ⟨k, rfl⟩ := Nat.exists_eq_add_of_le hm
  rw [List.range_add, List.map_append]
  exact result_stable cfg t _ _ h

/-! ## No restart when no search time remains (covers iteration-only budgets) -/

/-- With `maximum_search_time ≤ 0` (the default `-1` of an iteration-only budget included) the
first worker is the only one: nothing is restarted, the state is untouched, and if that worker
did not deliver the command returns `NO_TESTS_GENERATED` from the master's ERROR result. -/
theorem no_restart_without_time (cfg : Cfg) (hl : cfg.liveness = true) (t : Task)
    (ht : t.maxSearchTime ≤ 0) (b : Behaviour) (rest : List Fate) :
    ∃ rc r, runPynguin cfg t (.runs b :: rest) = .code rc r (startWorker (initState t)) ∧
      (∀ e, b.elapsed? = some e → rc = .noTestsGenerated ∧ r = some (errorResult 0)) := by
  have hrp : ∀ e, restartPrefix cfg (startWorker (initState t)) e = (startWorker (initState t), false) := by
    intro e
    have h2 : (restartPrefix cfg (startWorker (initState t)) e).2 = false := by
      rw [restartPrefix_snd, adjust_of_nonpos (by simpa [startWorker, initState] using ht)]
      exact decide_eq_false (by simp only [startWorker, initState]; omega)
    have h1 := (restartPrefix_false h2).1
    rw [adjust_of_nonpos (by simpa [startWorker, initState] using ht)] at h1
    exact Prod.ext h1 h2
  cases hrecv : receive cfg.liveness (startWorker (initState t)) (workerMain b) with
  | msg r =>
    refine ⟨clientCode { r with restartCount := 0 }, some { r with restartCount := 0 }, ?_, ?_⟩
    · cases rest <;> simp only [runPynguin, masterGetResult, getResult, step_msg hrecv] <;> rfl
    · intro e he
      rcases receive_msg hrecv with ⟨rc, rfl, _⟩ | ⟨rfl, _⟩ <;> simp [Behaviour.elapsed?] at he
  | hang => have := (receive_hang hrecv).1; simp [hl] at this
  | exc e =>
    have h2 : (restartPrefix cfg (startWorker (initState t)) e).2 = false := by rw [hrp e]
    refine ⟨.noTestsGenerated, some (errorResult 0), ?_, fun _ _ => ⟨rfl, rfl⟩⟩
    cases rest <;>
      simp only [runPynguin, masterGetResult, getResult, step_abort hrecv h2, hrp e] <;> rfl

/-- In every run, every worker except the first one was started with a positive search time: the
timeline (newest first) is `later ++ [maximum_search_time]` with all of `later` positive.  This
does not need the positivity assumption on elapsed times. -/
theorem restarts_only_with_time (cfg : Cfg) (t : Task) (b : Behaviour) (rest : List Fate) :
    ∃ later, (runPynguin cfg t (.runs b :: rest)).state.timeline = later ++ [t.maxSearchTime] ∧
      (∀ x ∈ later, 0 < x) ∧
      later.length ≤ (runPynguin cfg t (.runs b :: rest)).state.restartCount := by
  rw [runPynguin_state_runs]
  refine getResult_invariant cfg (fun _ => True)
    (fun s => ∃ later, s.timeline = later ++ [t.maxSearchTime] ∧ (∀ x ∈ later, 0 < x) ∧
      later.length = s.restartCount)
    (fun o => ∃ later, o.state.timeline = later ++ [t.maxSearchTime] ∧ (∀ x ∈ later, 0 < x) ∧
      later.length ≤ o.state.restartCount)
    ?_ ?_ ?_ ?_ ?_ ?_ rest _ b ?_ trivial (fun f _ => by cases f <;> trivial)
  · intro s b r ⟨l, h1, h2, h3⟩ _ _; exact ⟨l, h1, h2, by simp only [Outcome.state]; omega⟩
  · intro s b ⟨l, h1, h2, h3⟩ _ _; exact ⟨l, h1, h2, by simp only [Outcome.state]; omega⟩
  · intro s b e ⟨l, h1, h2, h3⟩ _ _ hf
    rw [(restartPrefix_false hf).1]; exact ⟨l, h1, h2, by simp only [Outcome.state]; omega⟩
  · intro s b e ⟨l, h1, h2, h3⟩ _ _ hf
    obtain ⟨_, _, hrc, _, htl, _⟩ := restartPrefix_true hf
    exact ⟨l, by simp only [Outcome.state, htl, h1], h2, by simp only [Outcome.state, hrc]; omega⟩
  · intro s b e ⟨l, h1, h2, h3⟩ _ _ hf
    obtain ⟨_, _, hrc, _, htl, _⟩ := restartPrefix_true hf
    exact ⟨l, by simp only [Outcome.state, htl, h1], h2, by simp only [Outcome.state, hrc]; omega⟩
  · intro s b e ⟨l, h1, h2, h3⟩ _ _ hf
    obtain ⟨hp, hT', hrc, _, htl, _⟩ := restartPrefix_true hf
    refine ⟨(restartPrefix cfg s e).1.task.maxSearchTime :: l, ?_, ?_, ?_⟩
    · simp only [startWorker, htl, h1, List.cons_append]
    · intro x hx
      rcases List.mem_cons.1 hx with rfl | hx
      · omega
      · exact h2 x hx
    · simp only [startWorker, hrc, List.length_cons]; omega
  · exact ⟨[], by simp [startWorker, initState], by simp, by simp [startWorker, initState]⟩

/-! ## Success is reported only if some worker delivered a result -/

theorem getResult_ok_delivered (cfg : Cfg) :
    ∀ (rest : List Fate) (s : State) (b : Behaviour) (r : WorkerResult) (s' : State),
      getResult cfg s b rest = .returned r s' → clientCode r = .ok →
      ∃ k, (Fate.runs b :: rest)[k]? = some (.runs (.returns .ok)) ∧
        s'.restartCount = s.restartCount + k ∧
        ∀ j, j < k → ∃ bj e, (Fate.runs b :: rest)[j]? = some (.runs bj) ∧ bj.elapsed? = some e := by
  intro rest
  induction rest with
  | nil =>
    intro s b r s' h hok
    cases hrecv : receive cfg.liveness s (workerMain b) with
    | msg r0 =>
      simp only [getResult, step_msg hrecv, Outcome.returned.injEq] at h
      obtain ⟨rfl, rfl⟩ := h
      rcases receive_msg hrecv with ⟨rc, rfl, rfl⟩ | ⟨rfl, rfl⟩
      · simp only [clientCode] at hok; subst hok
        exact ⟨0, rfl, rfl, fun j hj => absurd hj (Nat.not_lt_zero j)⟩
      · simp [clientCode] at hok
    | hang => simp [getResult, step_hang hrecv] at h
    | exc e =>
      cases h2 : (restartPrefix cfg s e).2 with
      | false =>
        simp only [getResult, step_abort hrecv h2, Outcome.returned.injEq] at h
        obtain ⟨rfl, _⟩ := h
        simp [clientCode, errorResult] at hok
      | true => simp [getResult, step_restart hrecv h2] at h
  | cons f rest ih =>
    intro s b r s' h hok
    cases hrecv : receive cfg.liveness s (workerMain b) with
    | msg r0 =>
      simp only [getResult, step_msg hrecv, Outcome.returned.injEq] at h
      obtain ⟨rfl, rfl⟩ := h
      rcases receive_msg hrecv with ⟨rc, rfl, rfl⟩ | ⟨rfl, rfl⟩
      · simp only [clientCode] at hok; subst hok
        exact ⟨0, rfl, rfl, fun j hj => absurd hj (Nat.not_lt_zero j)⟩
      · simp [clientCode] at hok
    | hang => simp [getResult, step_hang hrecv] at h
    | exc e =>
      cases h2 : (restartPrefix cfg s e).2 with
      | false =>
        simp only [getResult, step_abort hrecv h2, Outcome.returned.injEq] at h
        obtain ⟨rfl, _⟩ := h
        simp [clientCode, errorResult] at hok
      | true =>
        simp only [getResult, step_restart hrecv h2] at h
        cases f with
        | spawnFails => simp at h
        | runs b' =>
          obtain ⟨k, hk, hrc, hbefore⟩ := ih _ b' r s' h hok
          have hrc' := (restartPrefix_true h2).2.2.1
          refine ⟨k + 1, by simpa using hk, ?_, ?_⟩
          · simp only [startWorker] at hrc; omega
          · intro j hj
            cases j with
            | zero => exact ⟨b, e, rfl, receive_exc hrecv⟩
            | succ j => simpa using hbefore j (by omega)

/-- `ReturnCode.OK` is reported only if the script contains a worker that ran `run_pynguin()` to
the end with `ReturnCode.OK` and delivered it: it is worker number `restart_count`, and all
workers before it died without delivering. -/
theorem ok_only_if_delivered (cfg : Cfg) (t : Task) (fates : List Fate) {r s}
    (h : runPynguin cfg t fates = .code .ok r s) :
    ∃ k, fates[k]? = some (.runs (.returns .ok)) ∧ s.restartCount = k ∧
      ∀ j, j < k → ∃ bj e, fates[j]? = some (.runs bj) ∧ bj.elapsed? = some e := by
  cases fates with
  | nil => simp [runPynguin] at h
  | cons f rest =>
    cases f with
    | spawnFails => simp [runPynguin] at h
    | runs b =>
      simp only [runPynguin, masterGetResult] at h
      cases hg : getResult cfg (startWorker (initState t)) b rest with
      | returned r0 s0 =>
        rw [hg] at h
        simp only [ClientOutcome.code.injEq] at h
        obtain ⟨hc, _, rfl⟩ := h
        obtain ⟨k, hk, hrc, hb⟩ := getResult_ok_delivered cfg rest _ b r0 s0 hg hc
        exact ⟨k, hk, by simpa [startWorker, initState] using hrc, hb⟩
      | raised s0 => rw [hg] at h; simp [clientCode] at h
      | blocked s0 => rw [hg] at h; simp at h
      | hang s0 => rw [hg] at h; simp at h

/-! ## The master never waits for something that cannot arrive -/

/-- With the liveness check of `RunningTask._receive` the command never hangs, whatever the
workers (and their orphans) do. -/
theorem never_hangs (cfg : Cfg) (hl : cfg.liveness = true) (t : Task) (fates : List Fate) :
    ∀ s, runPynguin cfg t fates ≠ .hang s := by
  intro s0 h
  cases fates with
  | nil => simp [runPynguin] at h
  | cons f rest =>
    cases f with
    | spawnFails => simp [runPynguin] at h
    | runs b =>
      have key : ∀ s', getResult cfg (startWorker (initState t)) b rest ≠ .hang s' := by
        refine getResult_invariant cfg (fun _ => True) (fun _ => True) (fun o => ∀ s', o ≠ .hang s')
          ?_ ?_ ?_ ?_ ?_ ?_ rest _ b trivial trivial (fun f _ => by cases f <;> trivial)
        · intros; simp
        · intro s b _ _ hh; have := (receive_hang hh).1; simp [hl] at this
        · intros; simp
        · intros; simp
        · intros; simp
        · intros; trivial
      simp only [runPynguin, masterGetResult] at h
      cases hg : getResult cfg (startWorker (initState t)) b rest with
      | hang s' => exact key s' hg
      | returned r0 s' => rw [hg] at h; simp at h
      | raised s' => rw [hg] at h; simp at h
      | blocked s' => rw [hg] at h; simp at h

/-- The full statement for a given protocol variant: no script makes the command hang. -/
def C33_never_hangs_full (cfg : Cfg) : Prop :=
  ∀ (t : Task) (fates : List Fate) (s : State), runPynguin cfg t fates ≠ .hang s

/-- The unrepaired protocol (blocking `recv()`): the command does not hang as long as no orphan of
a killed worker keeps the pipe's sending end open (the master always closes its own copy). -/
theorem never_hangs_partial (cfg : Cfg) (t : Task) (fates : List Fate)
    (hno : ∀ f ∈ fates, f.noOrphan = true) : ∀ s, runPynguin cfg t fates ≠ .hang s := by
  intro s0 h
  cases fates with
  | nil => simp [runPynguin] at h
  | cons f rest =>
    cases f with
    | spawnFails => simp [runPynguin] at h
    | runs b =>
      have hgood : ∀ f ∈ Fate.runs b :: rest, f.Good (fun b => ∀ e, b ≠ .killed e true) := by
        intro f hf
        have := hno f hf
        cases f with
        | spawnFails => trivial
        | runs b' =>
          intro e he; subst he; simp [Fate.noOrphan] at this
      have key : ∀ s', getResult cfg (startWorker (initState t)) b rest ≠ .hang s' := by
        refine getResult_invariant cfg (fun b => ∀ e, b ≠ .killed e true)
          (fun s => s.writeEndClosed = true) (fun o => ∀ s', o ≠ .hang s')
          ?_ ?_ ?_ ?_ ?_ ?_ rest _ b rfl (hgood _ (List.mem_cons_self ..))
          (fun f hf => hgood f (List.mem_cons_of_mem _ hf))
        · intros; simp
        · intro s b hR hb hh
          rcases (receive_hang hh).2 with hc | ⟨e, rfl⟩
          · simp [hR] at hc
          · exact absurd rfl (hb e)
        · intros; simp
        · intros; simp
        · intros; simp
        · intro s b e hR _ _ h2
          simp only [startWorker]
      simp only [runPynguin, masterGetResult] at h
      cases hg : getResult cfg (startWorker (initState t)) b rest with
      | hang s' => exact key s' hg
      | returned r0 s' => rw [hg] at h; simp at h
      | raised s' => rw [hg] at h; simp at h
      | blocked s' => rw [hg] at h; simp at h

/-- Witness (replayed on the implementation on every run): with the blocking `recv()` a single
worker that is killed while one of its descendants keeps the inherited sending end open makes the
command wait forever. -/
theorem hang_orphan_holds_pipe_cex :
    ¬ C33_never_hangs_full { useMasterWorker := true, liveness := false } := by
  intro h
  exact h ⟨10, false, true⟩ [.runs (.killed ⟨1, 2, by decide⟩ true)]
    (startWorker (initState ⟨10, false, true⟩)) rfl

/-- The repaired protocol satisfies the full statement. -/
theorem never_hangs_full_repaired (mw : Bool) :
    C33_never_hangs_full { useMasterWorker := mw, liveness := true } :=
  fun t fates => never_hangs _ rfl t fates

/-! ## The positivity assumption is necessary -/

theorem getResult_zero_elapsed (cfg : Cfg) (e : Elapsed) (h0 : e.num = 0) :
    ∀ (n : Nat) (s : State), s.writeEndClosed = true → 0 < s.task.maxSearchTime →
      ∃ s', getResult cfg s (.killed e false) (List.replicate n (.runs (.killed e false))) = .blocked s' ∧
        s'.restartCount = s.restartCount + n + 1 ∧ s'.task.maxSearchTime = s.task.maxSearchTime := by
  intro n
  induction n with
  | zero =>
    intro s hw hT
    have hrecv : receive cfg.liveness s (workerMain (.killed e false)) = .exc e := by
      simp [workerMain, receive, hw]
    have h2 : (restartPrefix cfg s e).2 = true := by
      rw [restartPrefix_snd, adjust_of_pos hT, remainingTime_zero h0 hT]; simpa using hT
    obtain ⟨_, hT', hrc, _, _, _⟩ := restartPrefix_true h2
    rw [adjust_of_pos hT, remainingTime_zero h0 hT] at hT'
    exact ⟨_, by simp only [List.replicate, getResult, step_restart hrecv h2], by omega, hT'⟩
  | succ n ih =>
    intro s hw hT
    have hrecv : receive cfg.liveness s (workerMain (.killed e false)) = .exc e := by
      simp [workerMain, receive, hw]
    have h2 : (restartPrefix cfg s e).2 = true := by
      rw [restartPrefix_snd, adjust_of_pos hT, remainingTime_zero h0 hT]; simpa using hT
    obtain ⟨_, hT', hrc, _, _, hw'⟩ := restartPrefix_true h2
    rw [adjust_of_pos hT, remainingTime_zero h0 hT] at hT'
    obtain ⟨s', hs', hrc', hT''⟩ := ih (startWorker (restartPrefix cfg s e).1) rfl
      (by simp only [startWorker]; omega)
    refine ⟨s', ?_, ?_, ?_⟩
    · simp only [List.replicate, getResult, step_restart hrecv h2]; exact hs'
    · simp only [startWorker] at hrc'; omega
    · simp only [startWorker] at hT''; omega

/-- If crashed workers consume no measurable time (`elapsed = 0`), the search time is never
reduced and the number of restarts is unbounded: `n + 1` instant crashes cause `n + 1` restarts
with the search time unchanged.  Hence `AllPos` cannot be dropped from `restarts_bounded`. -/
theorem zero_elapsed_restarts_unbounded (cfg : Cfg) (t : Task) (ht : 0 < t.maxSearchTime)
    (e : Elapsed) (h0 : e.num = 0) (n : Nat) :
    ∃ s, runPynguin cfg t (List.replicate (n + 1) (.runs (.killed e false))) = .blocked s ∧
      s.restartCount = n + 1 ∧ s.task.maxSearchTime = t.maxSearchTime := by
  obtain ⟨s', h, hrc, hT⟩ := getResult_zero_elapsed cfg e h0 n (startWorker (initState t)) rfl
    (by simpa [startWorker, initState] using ht)
  refine ⟨s', ?_, by simpa [startWorker, initState] using hrc, by simpa [startWorker, initState] using hT⟩
  simp only [List.replicate, runPynguin, masterGetResult, h]

/-! ## Non-vacuity: the hypotheses are satisfiable on concrete, non-trivial scripts -/

/-- three crashes (0.75 s, 2.5 s, 1 s) of a 10 s budget, then a worker delivers `OK` -/
def demoFates : List Fate :=
  [.runs (.killed ⟨3, 4, by decide⟩ false), .runs (.interrupted ⟨5, 2, by decide⟩),
   .runs (.killed ⟨1, 1, by decide⟩ true), .runs (.returns .ok)]

example : AllPos demoFates := by
  intro f hf
  simp only [demoFates, List.mem_cons, List.mem_nil_iff, or_false] at hf
  rcases hf with rfl | rfl | rfl | rfl <;> intro e he <;> simp [Behaviour.elapsed?] at he <;>
    subst he <;> decide

example : ∃ r s, runPynguin ⟨true, true⟩ ⟨10, false, true⟩ demoFates = .code .ok r s ∧
    s.restartCount = 3 ∧ s.timeline = [5, 6, 9, 10] ∧ s.task.subprocess = true :=
  ⟨_, _, rfl, rfl, rfl, rfl⟩

/-- an iteration-only budget (`maximum_search_time = -1`): the first crash ends the run -/
example : ∃ s, runPynguin ⟨true, true⟩ ⟨-1, false, true⟩ demoFates
    = .code .noTestsGenerated (some (errorResult 0)) s ∧ s.started = 1 :=
  ⟨_, rfl, rfl⟩

/-- `terminates` applies: the script is at least `max 1 3 = 3` long -/
example : max 1 (3 : Int) ≤ (demoFates.length : Int) := by decide

example : ∀ f ∈ demoFates.take 2, f.noOrphan = true := by decide

end PynguinModel.MasterWorker
