import PynguinModel.Lemmas.CacheHosts
/-!
# C12 — cached fitness and coverage values are never stale

Property: after any history of mutation, crossover, cloning, adding fitness/coverage functions and cache
queries, every fitness, covered verdict and coverage value returned for a chromosome equals the value
recomputed from scratch on the chromosome's current tests, and querying never fails for a registered function.

Histories are lists of `Op` run by `step` from the empty world (any number of test-case and suite
chromosomes, suite members included).  Suites hold their member chromosomes as OBJECTS (`Suite.objs`, `Suite.order`):
the same object may sit at several positions of a suite (`addAlias`, `setAlias`); `clone` and the splices copy.  `outOk` says: the output of a query is *equal* to `scratch`, the value
recomputed from the current contents (`expected`: a value, never `KeyError`; `StatisticsError` exactly when
`get_coverage` is asked with no coverage function).  `Admissible` lists the hypotheses, checked along the run:
* `MutEff.honest`: a test-factory sub-step that returned `False` left the statements alone (the test
  factory is outside the anchors; the adapter checks this on every real mutation);
* per-function queries name a registered function (see `unregistered_query_cex`);
* `strict = true` only: `TestSuiteMutation.mutate` drops no empty test while its local `changed` is unset
  (known finding; `C12_full_cex`).

Fitness values are exact non-negative floats in units of `2^-60` (whole numbers, quarters and values of a few
`2^-60`, i.e. below every absolute tolerance); the verdict that a fitness query leaves in the is-covered dict is
`math.isclose(v, 0.0)` with the default (purely relative) tolerance = `v == 0` (`fitness_query_infers_exact_verdict`).
Crossover is both `SinglePointRelativeCrossOver` (`xoverTc`, `xoverSuite`) and the direct
`cross_over(other, position1, position2)` (`crossTc`, `crossSuite`: every pair of positions, empty tails, empty suites).

Code versions (`Ver`): `Ver.repo` = /repo with proposed_fixes/C12-*.diff (what the driver runs),
`Ver.fixed` = additionally the empty-test repair, `Ver.orig` = the unrepaired code (only in `_cex`).
-/
namespace PynguinModel.Cache

theorem stdSems_consistent : stdSems.Consistent := ⟨fun _ _ => rfl, fun _ _ => rfl⟩

/-- invariant + outputs along a whole history -/
theorem history_ok {S : Sems} (hS : S.Consistent) {V : Ver} (hV : V.Repaired) (strict : Bool)
    (hst : V.flagFilter = true ∨ strict = true) :
    ∀ (ops : List Op) (w : World), WOK S w → Admissible S V strict w ops → AllOk S V w ops
  | [], _, _, _ => trivial
  | op :: ops, w, hw, ha =>
    ⟨step_out hS hV strict w op hw ha.1,
      history_ok hS hV strict hst ops _ (step_ok hS hV strict hst w op hw ha.1) ha.2⟩

/-- **C12 at full strength** (code with all three repairs): for every history whose mutation effects are
honest reports and whose per-function queries name registered functions, every getter returns exactly the
value recomputed from scratch on the current tests and none raises `KeyError`. -/
theorem C12_cached_values_never_stale (S : Sems) (hS : S.Consistent) (ops : List Op)
    (h : Admissible S Ver.fixed false {} ops) : AllOk S Ver.fixed {} ops :=
  history_ok hS ⟨rfl, rfl⟩ false (Or.inl rfl) ops {} (wok_empty S) h

/-- the full-strength statement for the code the check runs against (/repo + the two proposed diffs) -/
def C12_full : Prop :=
  ∀ ops : List Op, Admissible stdSems Ver.repo false {} ops → AllOk stdSems Ver.repo {} ops

/-- **C12 for /repo + proposed diffs, partial**: the excluded input class is the explicit, decidable
`Suite.filterOk` part of `admissible … strict = true` (no unflagged drop of an empty member). -/
theorem C12_partial (S : Sems) (hS : S.Consistent) (ops : List Op)
    (h : Admissible S Ver.repo true {} ops) : AllOk S Ver.repo {} ops :=
  history_ok hS ⟨rfl, rfl⟩ true (Or.inr rfl) ops {} (wok_empty S) h

/-- one admissible step keeps the invariant "unchanged ⇒ every cached value and stored result is current" -/
theorem step_preserves_fresh (S : Sems) (hS : S.Consistent) (w : World) (op : Op) (hw : WOK S w)
    (ha : admissible Ver.repo true w op = true) : WOK S (step S Ver.repo w op).1 :=
  step_ok hS ⟨rfl, rfl⟩ true (Or.inr rfl) w op hw ha

/-- a getter on a chromosome satisfying the invariant returns the from-scratch value (no `KeyError`) -/
theorem query_correct (S : Sems) (hS : S.Consistent) (w : World) (r : Ref) (q : Query) (hw : WOK S w)
    (ha : admissible Ver.repo true w (.query r q) = true) (e : Out) (he : scratch S w r q = some e) :
    (step S Ver.repo w (.query r q)).2 = e :=
  step_out hS ⟨rfl, rfl⟩ true w (.query r q) hw ha e he

/-- `TestCaseMutation.mutate` (repaired): if `changed` is still `False` afterwards the content is the old one -/
theorem mutate_flags_every_content_change (t : Tc) (e : MutEff) (hh : e.honest t.content = true)
    (hc : (t.mutate Ver.repo e).changed = false) : (t.mutate Ver.repo e).content = t.content :=
  (tcMutate_content rfl t e hh hc).1

/-- **freshness of a suite run, aliased suites included**: `_run_test_suite_chromosome` returns, position by
position, the result of executing THAT position's current statements — also when one chromosome object sits at
several positions (it is flagged at each of them, every flagged position takes the next result of the iterator,
nothing shifts and the iterator never runs dry); no statements change, and every member object is left with a
stored result and caches that are current -/
theorem suite_run_is_current (S : Sem Content) (s : Suite) (hs : ∀ t ∈ s.objs, TcOK S t) :
    s.run.2 = s.order.map (fun i => (objAt s.objs i).content) ∧ s.run.1.order = s.order ∧
    (∀ i, (objAt s.run.1.objs i).content = (objAt s.objs i).content) ∧ ∀ t ∈ s.run.1.objs, TcOK S t := by
  obtain ⟨st', e, h1, h2⟩ := suRun_spec s hs
  rw [e]
  exact ⟨by simp [contents, Suite.members], rfl, h2, h1⟩

/-- the hand-out loop of `_run_test_suite_chromosome` on its own: given the snapshot flags and the results of the
flagged positions, position `k` receives the result of the test at position `k` -/
theorem suite_run_hands_each_position_its_own_result (S : Sem Content) (st : List Tc) (order : List Nat)
    (hs : ∀ t ∈ st, TcOK S t) :
    ∃ st', handOut st (snapshot st order) (pendingResults st (snapshot st order)) =
      some (st', order.map fun i => (objAt st i).content) := by
  obtain ⟨st', e, _⟩ := handOut_spec (S := S) (snapshot st order) st _ hs rfl (by
    intro p hp hf
    simp only [snapshot, List.mem_map] at hp
    obtain ⟨i, _, e⟩ := hp
    subst e
    exact hf)
  exact ⟨st', by rw [e]; simp [snapshot, List.map_map, Function.comp_def]⟩

/-- NOT the code (`_cex` only): the hand-out loop with the needs-execution test evaluated again at hand-out time
instead of taken from the snapshot -/
def handOutReeval : List Tc → List Nat → List Content → Option (List Tc × List Content)
  | st, [], _ => some (st, [])
  | st, i :: ps, it =>
    if needsExec (objAt st i) then
      match it with
      | r :: it' => (handOutReeval (st.set i ((objAt st i).executed r)) ps it').map fun p => (p.1, r :: p.2)
      | [] => none
    else
      match (objAt st i).result with
      | some r => (handOutReeval st ps it).map fun p => (p.1, r :: p.2)
      | none => none

/-- why the flags must be the snapshot's: suite `[t, t, u]` (the same object twice, then another new test) —
re-evaluated flags skip the second occurrence of `t` and hand `u` the result of `t`; the snapshot hands `u` its own -/
theorem reevaluated_flags_shift_results_cex :
    let st := [Tc.new 1 [], Tc.new 2 []]
    (handOutReeval st [0, 0, 1] (pendingResults st (snapshot st [0, 0, 1]))).map (·.2) = some [1, 1, 1] ∧
    (handOut st (snapshot st [0, 0, 1]) (pendingResults st (snapshot st [0, 0, 1]))).map (·.2) = some [1, 1, 2] := by
  decide

/-- `_compute_fitness` also fills the is-covered dict: the verdict it infers from the value (`math.isclose(v, 0.0)`,
default tolerances) is the verdict `compute_is_covered` returns — for every value, however small; so
`get_is_covered` does not depend on whether a fitness query came first -/
theorem fitness_query_infers_exact_verdict (S : Sem R) (hS : S.Consistent) (c : Cache) (f : Func) (r : R) :
    lookup f (c.store S .fit f r).isC = some (S.isCov f r) ∧ lookup f (c.store S .isCov f r).isC = some (S.isCov f r) := by
  simp [Cache.store, lookup_upsert_val, isCloseZero_eq, hS f r]

/-- why the tolerance has to stay relative: with any absolute tolerance `tol > 0` (`math.isclose(v, 0.0,
abs_tol=tol)`) a non-zero fitness is declared covered -/
theorem abs_tol_verdict_cex (tol : Nat) (h : 0 < tol) : ∃ v, v ≠ 0 ∧ isCloseZeroAbs tol v = true :=
  ⟨1, by decide, by simp [isCloseZeroAbs]; omega⟩

/-- `splice_test_suite_chromosomes` flags the parent for every pair of positions and every other parent — also
when the tail `other[position2:]` is empty and the parent is only truncated -/
theorem suite_splice_always_flags (s : Suite) (o : List Tc) (p1 p2 : Nat) :
    (s.splice o p1 p2).changed = true ∧ (s.splice o p1 p2).objs = s.objs ++ o.drop p2 ∧
    (s.splice o p1 p2).order = s.order.take p1 ++ (List.range (o.drop p2).length).map (· + s.objs.length) :=
  ⟨rfl, rfl, rfl⟩

/-- … and it has to: an empty tail (`position2 = size(other)`) with `position1 < size(parent)` changes the tests -/
example : ((Suite.splice ⟨[Tc.new 1 [], Tc.new 2 []], [0, 1], false, {}⟩ [Tc.new 3 []] 1 1).members.map (·.content)) = [1] := by
  decide

/-! ## decidability of the history predicates (for the concrete examples and counterexamples) -/

theorem outOk_iff (S : Sems) (w : World) (op : Op) (out : Out) :
    outOk S w op out ↔
      (match op with
        | .query r q => (match scratch S w r q with | some e => decide (out = e) | none => true)
        | _ => true) = true := by
  cases op <;> simp only [outOk]
  case query r q =>
    cases h : scratch S w r q with
    | none => simp
    | some e => simp

instance (S : Sems) (w : World) (op : Op) (out : Out) : Decidable (outOk S w op out) :=
  decidable_of_iff _ (outOk_iff S w op out).symm

instance decAdmissible (S : Sems) (V : Ver) (strict : Bool) : ∀ (w : World) (ops : List Op),
    Decidable (Admissible S V strict w ops)
  | _, [] => isTrue trivial
  | w, op :: ops =>
    have := decAdmissible S V strict (step S V w op).1 ops
    inferInstanceAs (Decidable (admissible V strict w op = true ∧ Admissible S V strict (step S V w op).1 ops))

instance decAllOk (S : Sems) (V : Ver) : ∀ (w : World) (ops : List Op), Decidable (AllOk S V w ops)
  | _, [] => isTrue trivial
  | w, op :: ops =>
    have := decAllOk S V (step S V w op).1 ops
    inferInstanceAs (Decidable (outOk S w op (step S V w op).2 ∧ AllOk S V (step S V w op).1 ops))

/-! ## concrete histories -/

def changeTo (c : Content) : MutEff := ⟨none, none, some ⟨true, c⟩, none, true, ⟨false, 0⟩⟩
def insertOnBackup (c : Content) : MutEff := ⟨none, none, none, none, false, ⟨true, c⟩⟩

/-- a non-trivial admissible history: two test cases, a suite with two members, mutation with and without
flag, crossover (relative and direct, with an empty tail / position 0 / the suite with itself), clone, functions
added late, queries in different orders on chromosomes and members -/
def sampleHistory : List Op :=
  [.newTc 1 [2], .newTc 5 [], .newSuite, .addTest 0 0, .addTest 0 1, .addFit (.su 0) 1, .addCov (.su 0) 3,
   .query (.su 0) (.fitnessFor 1), .query (.mem 0 0) (.isCovered 2), .query (.su 0) .coverage,
   .mutateSuite 0 ⟨[some (changeTo 7), none], [(4, [0])]⟩, .query (.su 0) (.isCovered 1), .query (.su 0) .fitness,
   .mutateTc 0 (insertOnBackup 9), .query (.tc 0) (.fitnessFor 2), .query (.tc 0) .coverage,
   .cloneTc 0 2, .xoverTc 0 1 (some 11) none, .query (.tc 2) .fitness, .query (.tc 0) .fitness,
   .cloneSuite 0 1, .xoverSuite 0 1 1 2, .addFit (.su 1) 4, .query (.su 1) (.fitnessFor 4), .query (.su 1) (.fitnessFor 1),
   .mutateSuite 1 ⟨[none, none, none, none], []⟩, .query (.su 1) .fitness,
   .crossSuite 0 1 1 9, .query (.su 0) (.fitnessFor 1), .query (.su 0) (.isCovered 1), .crossSuite 1 0 0 0,
   .query (.su 1) .fitness, .crossSuite 1 1 2 2, .query (.su 1) (.isCovered 4), .crossTc 0 1 (some 13),
   .query (.tc 0) (.fitnessFor 2), .query (.tc 0) (.isCovered 2), .crossTc 1 0 none, .query (.tc 1) .fitness]

example : Admissible stdSems Ver.repo true {} sampleHistory := by decide
example : Admissible stdSems Ver.fixed false {} sampleHistory := by decide
example : AllOk stdSems Ver.repo {} sampleHistory := by decide

/-- aliased suites: the same object twice in a suite (`addAlias`, `setAlias`), mutated through one position and
seen through the other, a new test appended behind the second occurrence (all three pending at once), member
queries through both positions, clone (which un-shares) and a mutation of the clone only -/
def aliasHistory : List Op :=
  [.newTc 1 [2], .newTc 5 [], .newSuite, .addTest 0 0, .addAlias 0 0, .addTest 0 1, .addFit (.su 0) 1,
   .addCov (.su 0) 3, .query (.su 0) (.fitnessFor 1), .query (.mem 0 1) (.fitnessFor 2),
   .mutateSuite 0 ⟨[some (changeTo 7), none, none], [(4, [0])]⟩, .query (.su 0) .fitness, .query (.su 0) .coverage,
   .query (.mem 0 0) (.fitnessFor 2), .query (.mem 0 1) (.isCovered 2), .query (.mem 0 3) .fitness,
   .mutateSuite 0 ⟨[some (changeTo 8), some (changeTo 9), none, some (changeTo 3)], []⟩, .query (.su 0) (.isCovered 1),
   .setAlias 0 2 3, .query (.su 0) (.fitnessFor 1), .cloneSuite 0 1, .mutateSuite 1 ⟨[some (changeTo 6)], []⟩,
   .query (.su 1) .fitness, .query (.su 0) .fitness, .delTest 0 0, .query (.su 0) (.coverageFor 3),
   .crossSuite 0 1 1 2, .query (.su 0) .fitness]

example : Admissible stdSems Ver.repo true {} aliasHistory := by decide
example : AllOk stdSems Ver.repo {} aliasHistory := by decide
/-- after the first mutation both positions of the shared object show the new statements -/
example : ((runOps stdSems Ver.repo {} (aliasHistory.take 11)).1.suites.map fun s => s.members.map (·.content))
    = [[7, 7, 5, 4]] := by decide

/-- fitness values of one unit (`2^-60`, not zero): fitness first, then the verdict, and the other way round -/
def tinyHistory : List Op :=
  [.newTc 1 [1], .query (.tc 0) (.fitnessFor 1), .query (.tc 0) (.isCovered 1), .cloneTc 0 1, .invalidate (.tc 1),
   .query (.tc 1) (.isCovered 1), .query (.tc 1) .fitness]

example : (runOps stdSems Ver.repo {} tinyHistory).2 = [.unit, .val 4, .flag false, .unit, .unit, .flag false, .val 4] := by
  decide
example : Admissible stdSems Ver.repo true {} tinyHistory ∧ AllOk stdSems Ver.repo {} tinyHistory := by decide

/-- known finding (unrepaired in /repo): a suite holding an already evaluated *empty* test; `mutate` drops
it with `changed` unset, the next query returns the value of the old member list -/
def dropEmptyHistory : List Op :=
  [.newTc 0 [], .newTc 5 [], .newSuite, .addTest 0 0, .addTest 0 1, .addFit (.su 0) 1,
   .query (.su 0) (.fitnessFor 1), .mutateSuite 0 ⟨[none, none], []⟩, .query (.su 0) (.fitnessFor 1)]

theorem C12_full_cex : ¬ C12_full := by
  intro h
  have := h dropEmptyHistory (by decide)
  revert this
  decide

/-- … the same history is fine once the drop sets `changed` (`Ver.fixed`) -/
example : AllOk stdSems Ver.fixed {} dropEmptyHistory := by decide

/-- unrepaired `_check_cache`: `get_coverage()` without coverage functions clears `changed` although no
test was executed; the stored execution result then counts as current (proposed_fixes/C12-check-cache-*.diff) -/
def clearedFlagHistory : List Op :=
  [.newTc 1 [2], .query (.tc 0) (.fitnessFor 2), .mutateTc 0 (changeTo 4), .query (.tc 0) .coverage,
   .query (.tc 0) (.fitnessFor 2)]

theorem orig_check_cache_cex :
    Admissible stdSems Ver.orig true {} clearedFlagHistory ∧ ¬ AllOk stdSems Ver.orig {} clearedFlagHistory := by
  decide

example : AllOk stdSems Ver.repo {} clearedFlagHistory := by decide

/-- unrepaired `TestCaseMutation.mutate` (D15): the `_mutation_insert()` on the restored backup changes the
statements, its result is ignored, `changed` stays `False` (proposed_fixes/C12-mutate-*.diff) -/
def ignoredInsertHistory : List Op :=
  [.newTc 1 [2], .query (.tc 0) (.fitnessFor 2), .mutateTc 0 (insertOnBackup 4), .query (.tc 0) (.fitnessFor 2)]

theorem orig_mutate_insert_cex :
    Admissible stdSems Ver.orig true {} ignoredInsertHistory ∧ ¬ AllOk stdSems Ver.orig {} ignoredInsertHistory := by
  decide

example : AllOk stdSems Ver.repo {} ignoredInsertHistory := by decide

/-- why queries must name registered functions: the size comparison of `_check_cache` is fooled by a cached
value of an unregistered function — the following query for the registered function raises `KeyError` -/
theorem unregistered_query_cex :
    (runOps stdSems Ver.fixed {} [.newTc 1 [2], .query (.tc 0) (.fitnessFor 3), .query (.tc 0) (.fitnessFor 2)]).2
      = [.unit, .val (3 * 2 ^ 58), .err .key] := by
  decide

end PynguinModel.Cache
