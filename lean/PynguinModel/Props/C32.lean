import PynguinModel.Lemmas.ThreadGuard
/-!
# C32 — Non-terminating tests time out without polluting later executions

Property theorems only.  A schedule is an arbitrary list of `(thread, tracer call)` events — any number
of threads, any interleaving, abandoned threads that wake up whenever they like, code under test that
catches `TracingAbortedException` and goes on calling the tracer.  All theorems are by induction over
the schedule, for every start state of the tracer.

* `no_cross_thread_writes` / `untouched_without_own_events`: a thread's trace and flag change only
  through that thread's own calls;
* `local_eq_solo_effective`: in every interleaving the local state of a thread is what the thread
  would have computed *alone* from those of its own calls that did not raise — nothing else;
* `never_adds`: hence every line / branch / predicate / code object in the trace a thread hands back
  was already in its trace, is in the import trace, or was issued by a callback of that very thread;
* `delivered_eq_solo`, `executor_result_sound`: a result that is not a timeout equals the result of the
  test case executed on its own, whatever the abandoned threads did meanwhile;
* `abandoned_thread_never_writes`, `abandoned_thread_dies_at_next_callback`: once a thread is not the
  current one (after the executor's `stop()` or a later test's `__enter__`) none of its guarded calls
  ever writes again, each raises `TracingAbortedException`;
* `nonterminating_reports_timeout`, `wait_bound`: a thread still alive after the first join yields a
  fresh timeout result, and `execute` blocks in `join` for at most `min(max, per_stmt*size) + max`.
* `result_comes_from_own_thread`, `late_put_never_reaches_other_execution`, `history_result_sound`,
  `abandoned_execution_reports_fresh_timeout`: the result hand-over.  A *history* adds to the tracer
  calls the `put`s of the test threads — also of abandoned ones that finish arbitrarily late — and the
  `collect`s of the main thread.  With the code's queue per execution, whatever `execute` number `k`
  returns was put by the thread of execution `k` and is the solo result of that test case;
  `shared_queue_cex`: with one queue for the executor's lifetime it is not.
* `stale_exit_aborts_current` documents what the code does in addition (not demanded by C32): the
  `__exit__` of a dying abandoned thread calls `stop()` and thereby aborts the execution that is
  current at that moment — that execution then reports a (spurious) timeout; results get lost, never
  polluted.
-/
namespace PynguinModel.ThreadGuard

/-- **No cross-thread writes** (single call): a call by `t` leaves every other thread's flag and trace
untouched. -/
theorem no_cross_thread_writes (s : T) (t u : Tid) (op : Op) (h : u ≠ t) :
    (step s t op).1.loc u = s.loc u :=
  step_loc_other s t u op h

/-- …and so does every schedule in which `u` itself does nothing. -/
theorem untouched_without_own_events (s : T) (u : Tid) (es : List Ev) (h : ∀ e ∈ es, e.tid ≠ u) :
    (run s es).loc u = s.loc u := by
  induction es generalizing s with
  | nil => rfl
  | cons e es ih =>
    simp only [run]
    rw [ih _ (fun e' he' => h e' (List.mem_cons_of_mem _ he'))]
    exact step_loc_other s e.tid u e.op (fun hu => h e (List.mem_cons_self ..) hu.symm)

/-- **Exact characterisation.**  For every schedule (without import-time calls) and every thread `t`:
the flag and the trace of `t` at the end are those of `t` running *alone* over exactly those of its own
calls that did not raise.  Nothing any other thread does enters. -/
theorem local_eq_solo_effective (s : T) (t : Tid) (es : List Ev) (h : noImportOps es = true) :
    (run s es).loc t = soloRun s.imp (s.loc t) (effective t s es) := by
  induction es generalizing s with
  | nil => rfl
  | cons e es ih =>
    simp only [noImportOps, List.all_cons, Bool.and_eq_true, Bool.not_eq_eq_eq_not, Bool.not_true] at h
    have hes : noImportOps es = true := by simpa [noImportOps] using h.2
    simp only [run, effective]
    rw [ih _ hes, step_imp _ _ _ h.1]
    by_cases ht : e.tid = t
    · subst ht
      cases hr : (step s e.tid e.op).2
      · simp only [and_self, if_true, soloRun, List.singleton_append, List.foldl_cons]
        rw [step_loc_self s e.tid e.op h.1 hr]
      · simp only [Bool.true_eq_false, and_false, if_false, List.nil_append]
        rw [step_raised_unchanged s e.tid e.op hr]
    · simp only [ht, false_and, if_false, List.nil_append]
      rw [step_loc_other s e.tid t e.op (fun h' => ht h'.symm)]

/-- **The abandoned execution never adds anything to another execution's result.**  For every
schedule, every thread `t` and every item `x` (code object, line, predicate, true/false branch) in
`t`'s trace at the end: `x` was in `t`'s trace at the start, or in the import trace, or `t` itself
issued a callback carrying `x`.  Calls of other threads — abandoned or not — contribute nothing. -/
theorem never_adds (s : T) (t : Tid) (es : List Ev) (h : noImportOps es = true) (x : Item)
    (hx : x ∈ ((run s es).loc t).trace.items) :
    x ∈ (s.loc t).trace.items ∨ x ∈ s.imp.items ∨ ∃ c, Op.cb c ∈ opsOf t es ∧ x ∈ c.items := by
  rw [local_eq_solo_effective s t es h] at hx
  rcases mem_soloRun_items _ _ _ _ hx with h1 | h1 | ⟨c, hc, hxc⟩
  · exact Or.inl h1
  · exact Or.inr (Or.inl h1)
  · exact Or.inr (Or.inr ⟨c, (effective_sublist s t es).subset hc, hxc⟩)

/-- **A delivered result is the solo result.**  If none of `t`'s calls raised (the thread ran to its
end and put a result on the queue), `t`'s flag and trace are exactly what `t` computes on its own from
all its calls, for every behaviour of every other thread. -/
theorem delivered_eq_solo (s : T) (t : Tid) (es : List Ev) (h : noImportOps es = true)
    (hr : raisedBy t s es = false) :
    (run s es).loc t = soloRun s.imp (s.loc t) (opsOf t es) := by
  rw [local_eq_solo_effective s t es h, effective_eq_opsOf s t es hr]

/-! ### Executor level -/

/-- **Executor: a result that is not a timeout is the solo result.**  Thread `t` runs
`_execute_test_case` for the statements `stmts` (its calls in the schedule are `execOps stmts`), the
other threads — abandoned executions of earlier test cases, the main thread calling `stop()` — do
anything at all, interleaved in any way.  Whenever `execute` returns a result that is not a timeout,
its trace is the import trace plus exactly the events of the test's own statements. -/
theorem executor_result_sound (s : T) (t : Tid) (es : List Ev) (stmts : List Stmt) (alive : Bool)
    (tr : Trace) (h : noImportOps es = true) (hops : opsOf t es = execOps stmts)
    (hres : executeResult alive (threadOutcome t s es) = .ok tr) :
    tr = soloTrace s.imp stmts := by
  unfold executeResult threadOutcome at hres
  cases alive
  · cases hr : raisedBy t s es
    · simp only [hr, Bool.false_eq_true, if_false, Result.ok.injEq] at hres
      rw [← hres, delivered_eq_solo s t es h hr, hops, execOps, soloRun_append, soloRun_append]
      have h1 : soloRun s.imp (s.loc t) [.initTrace, .enter] = ⟨(s.loc t).enabled, s.imp⟩ := rfl
      rw [h1, soloRun_exit, soloRun_stmts]
      rfl
    · simp [hr] at hres
  · simp at hres

/-! ### Abandoned threads -/

/-- **An abandoned thread never writes again.**  Once `t` is not the current thread (the executor
called `stop()`, or a later test case entered the tracer), then — in every continuation, interleaved
with any other threads in any way, as long as `t` does not itself call `__enter__`, `init_trace`,
`store_import_trace` or `reset` (an executor thread calls the first two only at its start, the others
never) — the trace of `t` stays exactly as it is. -/
theorem abandoned_thread_never_writes (s : T) (t : Tid) (es : List Ev) (hc : s.current ≠ some t)
    (hne : ∀ e ∈ es, e.tid = t → e.op ≠ .enter ∧ e.op ≠ .initTrace ∧ e.op.isImportOp = false) :
    ((run s es).loc t).trace = (s.loc t).trace := by
  induction es generalizing s with
  | nil => rfl
  | cons e es ih =>
    simp only [run]
    have he := hne e (List.mem_cons_self ..)
    rw [ih _ (step_current_ne s e.tid t e.op hc (fun h => (he h.1).1 h.2))
      (fun e' he' => hne e' (List.mem_cons_of_mem _ he'))]
    by_cases ht : e.tid = t
    · obtain ⟨h1, h2, h3⟩ := he ht
      rw [ht]
      cases hop : e.op <;> simp_all [step, Op.isImportOp]
      split <;> (try simp)
    · rw [step_loc_other s e.tid t e.op (fun h' => ht h'.symm)]

/-- **An abandoned thread dies at its next callback**: every `check()` and every callback made with
the thread's flag enabled raises `TracingAbortedException` and changes nothing. -/
theorem abandoned_thread_dies_at_next_callback (s : T) (t : Tid) (hc : s.current ≠ some t) :
    ((step s t .check).2 = true ∧ (step s t .check).1 = s) ∧
    ∀ c, (s.loc t).enabled = true → (step s t (.cb c)).2 = true ∧ (step s t (.cb c)).1 = s := by
  refine ⟨⟨by simp [step, hc], rfl⟩, fun c hen => ?_⟩
  have : (step s t (.cb c)).2 = true := by rw [step_cb_raises]; simp [hen, hc]
  exact ⟨this, step_raised_unchanged s t _ this⟩

/-- …for the whole rest of the schedule: every such call of `t` raises. -/
theorem abandoned_thread_always_raises (s : T) (t : Tid) (pre : List Ev) (c : Cb)
    (hc : s.current ≠ some t) (hne : ∀ e ∈ pre, e.tid = t → e.op ≠ .enter)
    (hen : ((run s pre).loc t).enabled = true) :
    (step (run s pre) t (.cb c)).2 = true ∧ (step (run s pre) t .check).2 = true := by
  have h := abandoned_stays_abandoned s t pre hc hne
  have := abandoned_thread_dies_at_next_callback (run s pre) t h
  exact ⟨(this.2 c hen).1, this.1.1⟩

/-! ### Timeouts -/

/-- **A test case whose thread is still alive after the first join reports a timeout** — a fresh
`ExecutionResult(timeout=True)`, independent of anything the thread recorded. -/
theorem nonterminating_reports_timeout (q : Outcome) : executeResult true q = .timeout := rfl

/-- A thread that was aborted (some tracer call raised) delivers nothing, which `execute` also turns
into a timeout result. -/
theorem aborted_reports_timeout (s : T) (t : Tid) (es : List Ev) (alive : Bool)
    (h : raisedBy t s es = true) : executeResult alive (threadOutcome t s es) = .timeout := by
  cases alive <;> simp [executeResult, threadOutcome, h]

/-- **The bound**: `execute` blocks in `join` for at most `min(max, per_stmt * size) + max ≤ 2 * max`
time units. -/
theorem wait_bound (maxT perStmt size : Nat) :
    waitBound maxT perStmt size ≤ 2 * maxT ∧ firstJoin maxT perStmt size ≤ perStmt * size := by
  unfold waitBound firstJoin
  omega

/-! ### The result hand-over (`return_queue`) -/

/-- **An abandoned execution reports a fresh timeout** and leaves every queue as it is (`if timed_out:
result = ExecutionResult(timeout=True)` — the queue is not read), whatever the queue discipline. -/
theorem abandoned_execution_reports_fresh_timeout (m : QMode) (h : H) (k : Nat) :
    hstep m h (.collect k true) = (h, some (k, .timeout)) := by
  simp [hstep]

/-- **With a queue per execution, the result returned for execution `k` was produced by thread `k`.**
For every history on a new executor — tracer calls of any threads in any interleaving, `put`s of
abandoned threads that finish arbitrarily late (in the grace period, between later executions, in the
middle of a later execution), any number of executions —: whenever `execute` number `k` returns a result
that is not a timeout, that result was `put` by the thread of execution `k` itself, and its trace is
that thread's own thread-local trace at the moment of the `put`. -/
theorem result_comes_from_own_thread (s : T) (es : List HEv) (k p : Nat) (r : Res)
    (hm : (k, HResult.ok p r) ∈ hresults .perExecution (H.init s) es) :
    p = k ∧ ∃ pre t exc post, es = pre ++ HEv.put k t exc :: post
      ∧ r = ⟨((run s (callsOf pre)).loc t).trace, exc⟩ := by
  have hp := hresults_own (H.init s) es (qown_init s) k p r hm
  refine ⟨hp, ?_⟩
  rcases hresults_provenance _ _ es k p r hm with ⟨i, hi⟩ | ⟨pre, t, exc, post, he, hr⟩
  · simp [H.init] at hi
  · subst hp
    exact ⟨pre, t, exc, post, he, by rw [hr, hfinal_tr]; rfl⟩

/-- **The late `put` of an abandoned execution never reaches a later execution**: no `execute` ever
returns a result produced by another execution's thread. -/
theorem late_put_never_reaches_other_execution (s : T) (es : List HEv) (k p : Nat) (r : Res)
    (hpk : p ≠ k) : (k, HResult.ok p r) ∉ hresults .perExecution (H.init s) es :=
  fun hm => hpk (result_comes_from_own_thread s es k p r hm).1

/-- **History level: a result that is not a timeout is the solo result of that very test case.**
The thread of execution `k` puts its result only at the end of an unaborted `_execute_test_case` over
the statements `stmts` (`hput`: that is the code — `put` is its last action, `except
TracingAbortedException: return` skips it); everything else — other executions' threads, their tracer
calls and their late `put`s — is arbitrary.  Then whatever `execute` number `k` returns, if it is not a
timeout, carries the import trace plus exactly the events of `stmts`. -/
theorem history_result_sound (s : T) (es : List HEv) (k p : Nat) (r : Res) (stmts : List Stmt)
    (h : noImportOps (callsOf es) = true)
    (hput : ∀ pre t exc post, es = pre ++ HEv.put k t exc :: post →
      opsOf t (callsOf pre) = execOps stmts ∧ raisedBy t s (callsOf pre) = false)
    (hm : (k, HResult.ok p r) ∈ hresults .perExecution (H.init s) es) :
    p = k ∧ r.trace = soloTrace s.imp stmts := by
  obtain ⟨hp, pre, t, exc, post, he, hr⟩ := result_comes_from_own_thread s es k p r hm
  refine ⟨hp, ?_⟩
  obtain ⟨hops, hnr⟩ := hput pre t exc post he
  have hpre : noImportOps (callsOf pre) = true := by
    rw [he, callsOf_append] at h
    simp only [noImportOps, List.all_append, Bool.and_eq_true] at h ⊢
    exact h.1
  rw [hr]
  show ((run s (callsOf pre)).loc t).trace = _
  rw [delivered_eq_solo s t _ hpre hnr, hops, soloRun_execOps]

/-- A *late finisher*: execution 0 (thread 1) records line 5, passes its last `check()` and then sits
in a slow after-statement observer; the first join expires (`stop()`), the thread finishes in the grace
period and puts its result; execution 0 is reported as a timeout.  Execution 1 (thread 2, line 7, raises
exception 1 in statement 0) and execution 2 (thread 3, line 9) are ordinary. -/
def lateFinisher : List HEv :=
  [.call ⟨1, .initTrace⟩, .call ⟨1, .enter⟩, .call ⟨1, .check⟩, .call ⟨1, .disable⟩, .call ⟨1, .enable⟩,
   .call ⟨1, .cb (.line 5)⟩, .call ⟨1, .check⟩, .call ⟨1, .disable⟩,
   .call ⟨0, .stop⟩,
   .call ⟨1, .enable⟩, .call ⟨1, .exit⟩, .put 0 1 [],
   .collect 0 true,
   .call ⟨2, .initTrace⟩, .call ⟨2, .enter⟩, .call ⟨2, .check⟩, .call ⟨2, .disable⟩, .call ⟨2, .enable⟩,
   .call ⟨2, .cb (.line 7)⟩, .call ⟨2, .check⟩, .call ⟨2, .disable⟩, .call ⟨2, .enable⟩,
   .call ⟨2, .exit⟩, .put 1 2 [(0, 1)],
   .collect 1 false,
   .call ⟨3, .initTrace⟩, .call ⟨3, .enter⟩, .call ⟨3, .check⟩, .call ⟨3, .disable⟩, .call ⟨3, .enable⟩,
   .call ⟨3, .cb (.line 9)⟩, .call ⟨3, .check⟩, .call ⟨3, .disable⟩, .call ⟨3, .enable⟩,
   .call ⟨3, .exit⟩, .put 2 3 [],
   .collect 2 false]

/-- The code: every execution gets its own result. -/
example : hresults .perExecution (H.init T.init) lateFinisher =
    [(0, .timeout), (1, .ok 1 ⟨⟨[], [7], [], [], []⟩, [(0, 1)]⟩), (2, .ok 2 ⟨⟨[], [9], [], [], []⟩, []⟩)] := by
  decide

/-- **One queue for the executor's lifetime breaks the property**: after the late finisher every
execution gets the result of the previous one — execution 1 is handed line 5 (issued by the abandoned
thread only), execution 2 is handed line 7 and the exception of execution 1. -/
theorem shared_queue_cex :
    hresults .shared (H.init T.init) lateFinisher =
      [(0, .timeout), (1, .ok 0 ⟨⟨[], [5], [], [], []⟩, []⟩), (2, .ok 1 ⟨⟨[], [7], [], [], []⟩, [(0, 1)]⟩)]
    ∧ ¬ (∀ (es : List HEv) (k p : Nat) (r : Res),
          (k, HResult.ok p r) ∈ hresults .shared (H.init T.init) es → p = k) := by
  have h1 : hresults .shared (H.init T.init) lateFinisher =
      [(0, .timeout), (1, .ok 0 ⟨⟨[], [5], [], [], []⟩, []⟩),
       (2, .ok 1 ⟨⟨[], [7], [], [], []⟩, [(0, 1)]⟩)] := by decide
  refine ⟨h1, fun hall => ?_⟩
  have := hall lateFinisher 1 0 ⟨⟨[], [5], [], [], []⟩, []⟩ (by rw [h1]; simp)
  omega

/-- The hypotheses of `history_result_sound` hold on the late-finisher history for execution 1. -/
example : noImportOps (callsOf lateFinisher) = true := by decide
example : opsOf 2 (callsOf (lateFinisher.take 23)) = execOps [⟨[], [.line 7], []⟩]
    ∧ raisedBy 2 T.init (callsOf (lateFinisher.take 23)) = false := by decide

/-! ### Stuck inside a tracer call: the watchdog's `stop()` never waits for a test thread -/

/-- **`stop()` never waits** (the code, `LockMode.none`): in every state — whoever is inside a callback,
for however long — every call of every thread is enabled; in particular the `stop()` of the watchdog is a
single step that ends with `current = None`, touches no thread-local state and leaves every thread that
is inside a callback where it is. -/
theorem stop_never_waits (s : F) (t : Tid) :
    (∀ op, fenabled .none s t op = true) ∧
    (fstep .none s t (.plain .stop)).1.tr.current = none ∧
    (∀ u, (fstep .none s t (.plain .stop)).1.tr.loc u = s.tr.loc u) ∧
    (fstep .none s t (.plain .stop)).1.inside = s.inside ∧
    (fstep .none s t (.plain .stop)).2 = false :=
  ⟨fun _ => rfl, rfl, fun _ => rfl, rfl, rfl⟩

/-- Hence, without a lock, **every** fine-grained schedule runs to its end: nobody ever waits for a
thread that is stuck inside a tracer call. -/
theorem nolock_every_schedule_runs (s : F) (es : List FEv) : (frun .none s es).isSome = true := by
  induction es generalizing s with
  | nil => rfl
  | cons e es ih => simp only [frun, fenabled, if_true]; exact ih _

/-- **A non-terminating test case that is stuck inside a tracer call is reported as a timeout**: thread
`u` passed the guard of a callback and never comes back; the watchdog (any other thread `t`) calls
`stop()` — enabled, one step —, after which `u` is not current (it dies at its next guarded call, should
it ever return), `u`'s trace is what it was, and `execute` returns a fresh timeout result. -/
theorem stuck_in_callback_reports_timeout (s : F) (t u : Tid) (q : Outcome) (_hu : s.inside u = true) :
    fenabled .none s t (.plain .stop) = true ∧
    (fstep .none s t (.plain .stop)).1.tr.current ≠ some u ∧
    (fstep .none s t (.plain .stop)).1.tr.loc u = s.tr.loc u ∧
    executeResult true q = .timeout :=
  ⟨rfl, by simp [fstep, step], rfl, rfl⟩

/-- Passing the guard of a callback changes nothing in the tracer (under either discipline): a thread
that is stuck inside a tracer call for ever is invisible to every other thread. -/
theorem callback_guard_changes_nothing (m : LockMode) (s : F) (t : Tid) :
    (fstep m s t .cbBegin).1.tr = s.tr := by
  simp only [fstep]
  split
  · rfl
  · split <;> rfl

/-- Guard and write back to back are the atomic callback of `step` (state and raised flag): the
schedule-level theorems above speak about callbacks that are not interrupted … -/
theorem split_callback_eq_atomic (m : LockMode) (s : F) (t : Tid) (c : Cb) (hi : s.inside t = false) :
    (fstep m (fstep m s t .cbBegin).1 t (.cbEnd c)).1.tr = (step s.tr t (.cb c)).1 ∧
    (fstep m s t .cbBegin).2 = (step s.tr t (.cb c)).2 := by
  by_cases hen : (s.tr.loc t).enabled = false
  · simp [fstep, step, hen, hi]
  · by_cases hc : s.tr.current ≠ some t
    · simp [fstep, step, hen, hc, hi]
    · simp [fstep, step, hen, hc]

/-- … and the write of an interrupted one, whenever it happens, goes to the caller's own thread-local
trace only: no other thread's flag or trace, not `current`, not the import trace.  (So a callback that
completes long after its execution was abandoned — the comparison finally returned in the middle of a
later test case — adds nothing to anybody else.) -/
theorem late_callback_write_is_own_thread_only (m : LockMode) (s : F) (t u : Tid) (c : Cb) (h : u ≠ t) :
    (fstep m s t (.cbEnd c)).1.tr.loc u = s.tr.loc u ∧
    (fstep m s t (.cbEnd c)).1.tr.current = s.tr.current ∧
    (fstep m s t (.cbEnd c)).1.tr.imp = s.tr.imp := by
  simp only [fstep]
  split
  · simp [T.setLoc, h]
  · exact ⟨rfl, rfl, rfl⟩

/-- Invariant of the counterexample: `u` holds the update lock and nobody else is inside a callback. -/
def HeldBy (s : F) (u : Tid) : Prop := s.owner = some u ∧ ∀ v, v ≠ u → s.inside v = false

theorem heldBy_step (s : F) (u : Tid) (e : FEv) (h : HeldBy s u) (hne : e.tid ≠ u)
    (hen : fenabled .updateLock s e.tid e.op = true) :
    HeldBy (fstep .updateLock s e.tid e.op).1 u ∧ e.op ≠ .plain .stop := by
  obtain ⟨ho, hin⟩ := h
  have hfree : lockFreeFor s e.tid = false := by
    simp [lockFreeFor, ho]; exact fun h' => hne h'.symm
  cases hop : e.op with
  | plain op =>
    refine ⟨⟨ho, hin⟩, fun hs => ?_⟩
    rw [hop] at hen
    cases hs
    simp [fenabled, hfree] at hen
  | cbBegin =>
    rw [hop] at hen
    simp only [fenabled, hfree, Bool.or_false, Bool.not_eq_eq_eq_not, Bool.not_true] at hen
    refine ⟨?_, by simp⟩
    simp only [fstep, hen, if_true]
    exact ⟨ho, hin⟩
  | cbEnd c =>
    refine ⟨?_, by simp⟩
    simp only [fstep, hin e.tid hne, Bool.false_eq_true, if_false]
    exact ⟨ho, hin⟩

/-- With the update lock: while `u` sits inside a callback (it holds the lock and takes no step), no
schedule of the other threads that contains a `stop()` can happen — the watchdog waits for ever, for
every behaviour of everybody else. -/
theorem update_lock_blocks_stop (s : F) (u : Tid) (es : List FEv) (h : HeldBy s u)
    (hne : ∀ e ∈ es, e.tid ≠ u) (hstop : ∃ e ∈ es, e.op = .plain .stop) :
    frun .updateLock s es = none := by
  induction es generalizing s with
  | nil => obtain ⟨e, he, _⟩ := hstop; cases he
  | cons e es ih =>
    simp only [frun]
    split
    · rename_i hen
      obtain ⟨h', hns⟩ := heldBy_step s u e h (hne e (List.mem_cons_self ..)) hen
      refine ih _ h' (fun e' he' => hne e' (List.mem_cons_of_mem _ he')) ?_
      obtain ⟨e', he', hs⟩ := hstop
      rcases List.mem_cons.mp he' with rfl | he''
      · exact absurd hs hns
      · exact ⟨e', he'', hs⟩
    · rfl

/-- Test thread 1 enters the tracer and is stuck inside the callback of a branch condition (`if x in
<endless generator>`): it passed the guard and never writes. -/
def stuckInside : List FEv :=
  [⟨1, .plain .initTrace⟩, ⟨1, .plain .enter⟩, ⟨1, .plain .check⟩, ⟨1, .plain .disable⟩,
   ⟨1, .plain .enable⟩, ⟨1, .plain (.cb (.line 5))⟩, ⟨1, .cbBegin⟩]

/-- **A `stop()` that needs a lock held by the stuck thread breaks the property**: after `stuckInside`
thread 1 holds the update lock; the watchdog's `stop()` is not enabled, and no continuation whatsoever in
which thread 1 stays stuck contains a completed `stop()` — `execute` never reports the timeout.  Without
the lock (the code) the same history goes on: `stop()`, a fresh timeout, and the next test case (thread 2)
runs and delivers its own result. -/
theorem update_lock_cex :
    (∃ s, frun .updateLock (F.init T.init) stuckInside = some s ∧ HeldBy s 1 ∧
      fenabled .updateLock s 0 (.plain .stop) = false ∧
      ∀ es, (∀ e ∈ es, e.tid ≠ 1) → (∃ e ∈ es, e.op = .plain .stop) → frun .updateLock s es = none) ∧
    (∃ s, frun .none (F.init T.init)
        (stuckInside ++ [⟨0, .plain .stop⟩, ⟨2, .plain .initTrace⟩, ⟨2, .plain .enter⟩,
          ⟨2, .plain (.cb (.line 7))⟩, ⟨2, .plain .exit⟩]) = some s ∧
      (s.tr.loc 2).trace = ⟨[], [7], [], [], []⟩ ∧ s.inside 1 = true ∧
      (s.tr.loc 1).trace = ⟨[], [5], [], [], []⟩) := by
  refine ⟨?_, ?_⟩
  · refine ⟨(fstep .updateLock ((stuckInside.take 6).foldl
        (fun s e => (fstep .updateLock s e.tid e.op).1) (F.init T.init)) 1 .cbBegin).1, ?_, ?_, ?_, ?_⟩
    · rfl
    · refine ⟨rfl, fun v hv => ?_⟩
      simp [stuckInside, fstep, step, F.init, T.init, T.setLoc, Local.fresh, hv]
    · rfl
    · intro es hne hstop
      exact update_lock_blocks_stop _ 1 es
        ⟨rfl, fun v hv => by simp [stuckInside, fstep, step, F.init, T.init, T.setLoc, Local.fresh, hv]⟩
        hne hstop
  · refine ⟨_, rfl, ?_, ?_, ?_⟩ <;> decide

/-- The hypotheses of `update_lock_blocks_stop` / `stuck_in_callback_reports_timeout` on a concrete state. -/
example : ∃ s, frun .none (F.init T.init) stuckInside = some s ∧ s.inside 1 = true ∧
    fenabled .none s 0 (.plain .stop) = true := ⟨_, rfl, by decide, rfl⟩

/-! ### What the code does beyond the property -/

/-- The `__exit__` of *any* thread (in particular of an abandoned thread that finally dies) resets
`current`: the execution that is current at that moment is aborted at its next guarded call and
delivers nothing (a spurious timeout).  Results are lost, never polluted. -/
theorem stale_exit_aborts_current (s : T) (t u : Tid) (c : Cb)
    (hen : (s.loc u).enabled = true) (htu : t ≠ u) :
    (step (step s t .exit).1 u (.cb c)).2 = true ∧ (step (step s t .exit).1 u .check).2 = true := by
  have hl : ((step s t .exit).1.loc u).enabled = true := by
    rw [step_loc_other s t u .exit (fun h => htu h.symm)]; exact hen
  constructor
  · rw [step_cb_raises, hl]; simp [step]
  · simp [step]

/-! ### Non-vacuity: concrete schedules -/

/-- Test 0 (thread 1) records line 5 and hangs; the executor stops it; test 1 (thread 2) runs; the
abandoned thread wakes up in the middle and tries to record line 6 and predicate 3. -/
def demo : List Ev :=
  [⟨1, .initTrace⟩, ⟨1, .enter⟩, ⟨1, .check⟩, ⟨1, .cb (.line 5)⟩,
   ⟨0, .stop⟩,
   ⟨2, .initTrace⟩, ⟨2, .enter⟩, ⟨2, .check⟩, ⟨2, .cb (.line 7)⟩,
   ⟨1, .cb (.line 6)⟩, ⟨1, .cb (.pred 3 true)⟩,
   ⟨2, .cb (.pred 4 false)⟩, ⟨2, .check⟩, ⟨2, .exit⟩]

example : noImportOps demo = true := by decide
example : raisedBy 2 T.init demo = false ∧ raisedBy 1 T.init demo = true := by decide
example : ((run T.init demo).loc 2).trace = ⟨[], [7], [(4, 1)], [], [4]⟩ := by decide
example : ((run T.init demo).loc 1).trace = ⟨[], [5], [], [], []⟩ := by decide
example : executeResult false (threadOutcome 2 T.init demo) = .ok ⟨[], [7], [(4, 1)], [], [4]⟩ := by
  decide
example : executeResult false (threadOutcome 1 T.init demo) = .timeout := by decide

/-- A schedule in executor shape (observers under `temporarily_disable` included). -/
def demo2 : List Ev :=
  (execOps [⟨[.line 1], [.line 7, .pred 4 false], [.line 2]⟩]).map (Ev.mk 2)

example : opsOf 2 demo2 = execOps [⟨[.line 1], [.line 7, .pred 4 false], [.line 2]⟩] := by decide
example : executeResult false (threadOutcome 2 T.init demo2)
    = .ok (soloTrace T.init.imp [⟨[.line 1], [.line 7, .pred 4 false], [.line 2]⟩]) := by decide

/-- The stale `__exit__`: thread 1 dies while thread 2 is current; thread 2 loses its result. -/
example : executeResult false (threadOutcome 2 T.init
    [⟨1, .initTrace⟩, ⟨1, .enter⟩, ⟨0, .stop⟩, ⟨2, .initTrace⟩, ⟨2, .enter⟩, ⟨2, .cb (.line 7)⟩,
     ⟨1, .check⟩, ⟨1, .exit⟩, ⟨2, .cb (.line 8)⟩, ⟨2, .exit⟩]) = .timeout := by decide

end PynguinModel.ThreadGuard
