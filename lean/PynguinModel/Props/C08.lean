import PynguinModel.Lemmas.Exclusions
/-!
# C08 — Coverage exclusions remove exactly the excluded code from the goals

Statements about the model `PynguinModel.Exclusions` (mirror of `ModuleAstInfo` / `AstInfo` / the
`ast_info` filters of the line and branch adapters / `_instrument_code_recursive`, WITH the C08
repairs of `proposed_fixes/C08-exclusions-exact.diff`).  All theorems hold for every region tree,
every marker set, every only-cover set and every code-object tree; the hypotheses `Laminar` and
`attributed` of the module-level statements are decidable and evaluated by the driver on every case.

Vocabulary (Lemmas/Exclusions.lean): `regions nc n` = the line intervals a branch construct `n`
excludes given marker lines `nc`; `ExcludedIn cfg root l` = "`l` lies inside excluded code of `root`"
(marked line, or inside a region of a construct below `root`); `OnlyOk` = the only-cover condition.
-/

namespace PynguinModel.Exclusions

/-! ## Lines (`should_cover_line`) -/

/-- **excluded_sound**: a line inside excluded code of the scope is never to be covered. -/
theorem excluded_sound (cfg : Cfg) (mod self : Node) (l : Nat) (h : ExcludedIn cfg self l) :
    shouldCoverLine cfg mod self l = false := by
  cases hx : shouldCoverLine cfg mod self l
  · rfl
  · exact absurd h ((shouldCoverLine_iff cfg mod self l).mp hx).1

/-- **included_complete**: a line outside excluded code that satisfies the only-cover condition is to be
covered. Together with `excluded_sound`: `should_cover_line` removes exactly the excluded code. -/
theorem included_complete (cfg : Cfg) (mod self : Node) (l : Nat) (h : ¬ ExcludedIn cfg self l)
    (ho : OnlyOk cfg mod self l) : shouldCoverLine cfg mod self l = true :=
  (shouldCoverLine_iff cfg mod self l).mpr ⟨h, ho⟩

/-- Without only-cover names every line outside excluded code is covered. -/
theorem included_complete_no_only (cfg : Cfg) (mod self : Node) (l : Nat) (h : ¬ ExcludedIn cfg self l)
    (ho : cfg.onlyCover = []) : shouldCoverLine cfg mod self l = true :=
  included_complete cfg mod self l h (Or.inl ho)

/-- With only-cover names: every line inside an only-cover scope (at any depth) and outside excluded code
is covered, whichever scope `self` asks. -/
theorem included_complete_inside_only (cfg : Cfg) (mod self : Node) (l : Nat)
    (h : ¬ ExcludedIn cfg self l) (s0 : Node) (hs0 : s0 ∈ preorder mod) (hsc : s0.isScope = true)
    (honly : s0.s ∈ cfg.onlyCover) (h1 : s0.s ≤ l) (h2 : l ≤ s0.e) :
    shouldCoverLine cfg mod self l = true :=
  included_complete cfg mod self l h (Or.inr (Or.inr (Or.inr ⟨s0, hs0, hsc, honly, h1, h2⟩)))

/-! ## Branches (`should_cover_conditional_statement`) -/

/-- **cond_sound**: a conditional jump on line `l` is only instrumented when line `l` itself is covered —
for *every* kind of jump (if/for/while/case headers, exception matches, conditional expressions, boolean
operators, asserts). The only escape is a line strictly between an `if` body and its `elif`, which holds
no code. -/
theorem cond_sound (cfg : Cfg) (mod self : Node) (l : Nat)
    (h : shouldCoverCond cfg mod self l = true) :
    shouldCoverLine cfg mod self l = true
      ∨ ∃ n ∈ preorder self, n.kind = .ifK ∧ hasElif n = true ∧ l ∈ elseLines n := by
  unfold shouldCoverCond at h
  split at h
  · rename_i n hfind
    have hmem := List.mem_of_find?_eq_some hfind
    have hp := List.find?_some hfind
    simp only [Bool.and_eq_true, Bool.or_eq_true, beq_iff_eq, List.contains_eq_mem,
      decide_eq_true_eq, List.all_eq_true] at hp h
    obtain ⟨hcover, hrest⟩ := h
    rcases hp.2 with hs | ⟨hk, hl⟩
    · left; rw [← hs]; exact hcover
    · rcases hrest with (hc | ⟨hif, helif⟩) | ⟨_, hall⟩
      · rcases hk with hk | hk <;> rw [hk] at hc <;> cases hc
      · right; exact ⟨n, hmem, hif, helif, hl⟩
      · left; exact hall l hl
  · exact Or.inl h

/-- No branch goal on an excluded line (lines that hold code are never inter-lines of an elif). -/
theorem cond_excluded_sound (cfg : Cfg) (mod self : Node) (l : Nat) (hex : ExcludedIn cfg self l)
    (hcode : ∀ n ∈ preorder self, l ∉ elseLines n) : shouldCoverCond cfg mod self l = false := by
  cases hx : shouldCoverCond cfg mod self l
  · rfl
  · rcases cond_sound cfg mod self l hx with h | ⟨n, hn, _, _, hl⟩
    · rw [excluded_sound cfg mod self l hex] at h; cases h
    · exact absurd hl (hcode n hn)

/-! ## Scopes / code objects (`should_be_covered`) -/

/-- `should_be_covered`, as a specification: the def line is in cover, every enclosing definition is in
cover (judged as its own scope), and the def line is not inside excluded code of the *module*. -/
theorem should_be_covered_iff (cfg : Cfg) (mod sc : Node) :
    shouldBeCovered cfg mod sc = true ↔
      (sc.s ∉ cfg.noCover ∧ OnlyOk cfg mod sc sc.s)
      ∧ (∀ d ∈ preorder mod, d.isDef = true → d.s ≤ sc.s → sc.s ≤ d.e →
            d.s ∉ cfg.noCover ∧ OnlyOk cfg mod d d.s)
      ∧ (¬ ExcludedIn cfg mod sc.s ∧ OnlyOk cfg mod mod sc.s) := by
  unfold shouldBeCovered
  rw [Bool.and_eq_true, Bool.and_eq_true, inCover_iff, shouldCoverLine_iff, List.all_eq_true]
  constructor
  · rintro ⟨⟨h1, h2⟩, h3⟩
    refine ⟨h1, ?_, h3⟩
    intro d hd hdef hlo hhi
    have := h2 d hd
    simp only [hdef, hlo, hhi, decide_true, Bool.and_self, Bool.not_true, Bool.false_or] at this
    exact (inCover_iff cfg mod d d.s).mp this
  · rintro ⟨h1, h2, h3⟩
    refine ⟨⟨h1, ?_⟩, h3⟩
    intro d hd
    by_cases hc : (d.isDef && decide (d.s ≤ sc.s) && decide (sc.s ≤ d.e)) = true
    · simp only [Bool.and_eq_true, decide_eq_true_eq] at hc
      have := (inCover_iff cfg mod d d.s).mpr (h2 d hd hc.1.1 hc.1.2 hc.2)
      simp [this]
    · simp only [Bool.not_eq_true] at hc
      simp [hc]

/-- **scope_excluded_sound**: a scope whose def line carries a marker / is a no-cover name / lies in a
`__main__` or TYPE_CHECKING block, or that is nested (at any depth) in such a definition, or whose def line
lies in an excluded branch of the module, is not covered. -/
theorem scope_excluded_sound (cfg : Cfg) (mod sc : Node)
    (h : sc.s ∈ cfg.noCover
         ∨ (∃ d ∈ preorder mod, d.isDef = true ∧ d.s ≤ sc.s ∧ sc.s ≤ d.e ∧ d.s ∈ cfg.noCover)
         ∨ ExcludedIn cfg mod sc.s) :
    shouldBeCovered cfg mod sc = false := by
  cases hx : shouldBeCovered cfg mod sc
  · rfl
  · obtain ⟨⟨h1, _⟩, h2, h3, _⟩ := (should_be_covered_iff cfg mod sc).mp hx
    rcases h with h | ⟨d, hd, hdef, hlo, hhi, hnc⟩ | h
    · exact absurd h h1
    · exact absurd hnc (h2 d hd hdef hlo hhi).1
    · exact absurd h h3

/-- **scope_included_complete** (only-cover given): a scope whose def line lies inside an only-cover scope
`s0` is covered, provided nothing excludes it. `hnest`: every enclosing definition either contains the def
line of `s0` or starts inside `s0` (definitions nest). -/
theorem scope_included_complete (cfg : Cfg) (mod sc s0 : Node)
    (hs0 : s0 ∈ preorder mod) (hscope : s0.isScope = true) (honly : s0.s ∈ cfg.onlyCover)
    (hdisj : s0.s ∉ cfg.noCover) (h1 : s0.s ≤ sc.s) (h2 : sc.s ≤ s0.e)
    (hself : sc.s ∉ cfg.noCover)
    (hdefs : ∀ d ∈ preorder mod, d.isDef = true → d.s ≤ sc.s → sc.s ≤ d.e → d.s ∉ cfg.noCover)
    (hnest : ∀ d ∈ preorder mod, d.isDef = true → d.s ≤ sc.s → sc.s ≤ d.e →
               (d.s ≤ s0.s ∧ s0.s ≤ d.e) ∨ (s0.s ≤ d.s ∧ d.s ≤ s0.e))
    (hex : ¬ ExcludedIn cfg mod sc.s) :
    shouldBeCovered cfg mod sc = true := by
  rw [should_be_covered_iff]
  have inside : ∀ self, OnlyOk cfg mod self sc.s :=
    fun _ => Or.inr (Or.inr (Or.inr ⟨s0, hs0, hscope, honly, h1, h2⟩))
  refine ⟨⟨hself, inside sc⟩, ?_, hex, inside mod⟩
  intro d hd hdef hlo hhi
  refine ⟨hdefs d hd hdef hlo hhi, ?_⟩
  rcases hnest d hd hdef hlo hhi with ⟨a, b⟩ | ⟨a, b⟩
  · exact Or.inr (Or.inr (Or.inl ⟨s0.s, a, b, hdisj, honly⟩))
  · exact Or.inr (Or.inr (Or.inr ⟨s0, hs0, hscope, honly, a, b⟩))

/-- Without only-cover names the scope is covered exactly when nothing excludes it. -/
theorem scope_included_complete_no_only (cfg : Cfg) (mod sc : Node) (ho : cfg.onlyCover = [])
    (hself : sc.s ∉ cfg.noCover)
    (hdefs : ∀ d ∈ preorder mod, d.isDef = true → d.s ≤ sc.s → sc.s ≤ d.e → d.s ∉ cfg.noCover)
    (hex : ¬ ExcludedIn cfg mod sc.s) : shouldBeCovered cfg mod sc = true := by
  rw [should_be_covered_iff]
  exact ⟨⟨hself, Or.inl ho⟩, fun d hd hdef hlo hhi => ⟨hdefs d hd hdef hlo hhi, Or.inl ho⟩, hex, Or.inl ho⟩

/-! ## From a scope to the whole module -/

/-- **not_excluded_lift** (the region-tree step): a line of a covered scope that is not excluded by the
constructs *inside* the scope is not excluded by any construct of the *module* either, because a region
that reaches into the scope from outside contains the scope's def line (laminarity). -/
theorem not_excluded_lift (cfg : Cfg) (mod sc : Node) (l : Nat) (hL : Laminar cfg mod)
    (hsc : sc ∈ preorder mod) (hs : sc.isScope = true) (h1 : sc.first ≤ l) (h2 : l ≤ sc.e)
    (hin : ¬ ExcludedIn cfg sc l) (hdef : ¬ ExcludedIn cfg mod sc.s) : ¬ ExcludedIn cfg mod l := by
  rintro (h | ⟨n, hn, hb, hn1, hn2, r, hr, hw⟩)
  · exact hin (Or.inl h)
  · unfold Within at hw
    rcases hL n hn hb r hr sc hsc hs with (hd | hd) | ⟨c1, c2, c3, c4, c5, c6⟩ | hmem
    · omega
    · omega
    · exact hdef (Or.inr ⟨n, hn, hb, c3, c4, r, hr, ⟨by omega, by omega⟩⟩)
    · exact hin (Or.inr ⟨n, hmem, hb, hn1, hn2, r, hr, hw⟩)

/-! ## Goals registered by the instrumentation -/

/-- A code object whose scope is not to be covered contributes no goal at all — no code-object goal, no
line goal, no predicate — and neither does anything nested in it. -/
theorem excluded_scope_no_goals (cfg : Cfg) (mod : Node) (c : CodeObj) (sc : Node)
    (hsc : getScope mod c.key = some sc) (h : shouldBeCovered cfg mod sc = false) :
    (instrument cfg mod c).cos = [] ∧ (instrument cfg mod c).lines = []
      ∧ (instrument cfg mod c).preds = [] := by
  cases c with
  | mk id first isMod isAnn blocks children =>
    have : skipped cfg mod (.mk id first isMod isAnn blocks children) = true := by
      unfold skipped; rw [hsc]; simp [h]
    unfold instrument
    simp [this]

/-- **C08, soundness for line goals**: no line goal lies inside excluded code of the module — the line
carries no marker, lies in no excluded region of any construct of the module, and belongs to a scope
whose def line and whose enclosing definitions are not excluded either. -/
theorem C08_no_line_goal_in_excluded_code (cfg : Cfg) (mod : Node) (c : CodeObj) (l : Nat)
    (hL : Laminar cfg mod) (hattr : attributed mod c = true)
    (hg : some l ∈ (instrument cfg mod c).lines) :
    ¬ ExcludedIn cfg mod l
    ∧ ∃ sc ∈ preorder mod, sc.isScope = true ∧ sc.first ≤ l ∧ l ≤ sc.e ∧ sc.s ∉ cfg.noCover
        ∧ ¬ ExcludedIn cfg mod sc.s
        ∧ ∀ d ∈ preorder mod, d.isDef = true → d.s ≤ sc.s → sc.s ≤ d.e → d.s ∉ cfg.noCover := by
  obtain ⟨sc, hsc, hscope, hcov, hline, h1, h2⟩ := instrument_lines_ok cfg mod c hattr l hg
  obtain ⟨⟨hs, _⟩, hdefs, hex, _⟩ := (should_be_covered_iff cfg mod sc).mp hcov
  have hin := ((shouldCoverLine_iff cfg mod sc l).mp hline).1
  exact ⟨not_excluded_lift cfg mod sc l hL hsc hscope h1 h2 hin hex,
    sc, hsc, hscope, h1, h2, hs, hex, fun d hd hdef a b => (hdefs d hd hdef a b).1⟩

/-- **C08, soundness for branch goals**: the jump line of every registered predicate is a covered line of
a covered scope (or an inter-line of an elif, which holds no code), hence not inside excluded code. -/
theorem C08_no_branch_goal_in_excluded_code (cfg : Cfg) (mod : Node) (c : CodeObj) (p : Nat × Nat)
    (hattr : attributed mod c = true) (hg : p ∈ (instrument cfg mod c).preds) :
    ∃ sc ∈ preorder mod, sc.isScope = true ∧ shouldBeCovered cfg mod sc = true ∧
      ∃ b : Block, b.idx = p.2 ∧ ∀ l, b.lastLine = some l →
        (¬ ExcludedIn cfg sc l ∧ shouldCoverLine cfg mod sc l = true)
        ∨ ∃ n ∈ preorder sc, n.kind = .ifK ∧ hasElif n = true ∧ l ∈ elseLines n := by
  obtain ⟨sc, hsc, hscope, hcov, b, hb, hcond⟩ := instrument_preds_ok cfg mod c hattr p hg
  refine ⟨sc, hsc, hscope, hcov, b, hb, fun l hl => ?_⟩
  rcases cond_sound cfg mod sc l (hcond l hl) with h | h
  · exact Or.inl ⟨((shouldCoverLine_iff cfg mod sc l).mp h).1, h⟩
  · exact Or.inr h

/-! ## Completeness for line goals -/

/-- **C08, completeness for line goals**: every line that has a (non-RESUME) instruction in a code object
reached by the instrumentation and that its scope is to cover is registered as a line goal. With
`included_complete*`: every executable line outside excluded code (inside only-cover scopes, when given)
is a line goal. -/
theorem C08_executable_line_is_goal (cfg : Cfg) (mod : Node) (r c : CodeObj) (l : Nat)
    (hreach : Reached cfg mod r c) (b : Block) (hb : b ∈ c.blocks) (i : Instr) (hi : i ∈ b.instrs)
    (hline : i.line = some l) (hres : i.isResume = false)
    (hcover : coverOf cfg mod (getScope mod c.key) l = true) :
    some l ∈ (instrument cfg mod r).lines := by
  induction hreach with
  | here c hs =>
    cases c with
    | mk id first isMod isAnn blocks children =>
      unfold instrument
      simp only [hs, Bool.false_eq_true, ↓reduceIte, Goals.append_lines, List.mem_append]
      left
      simp only [ownGoals, List.mem_flatMap]
      refine ⟨b, hb, ?_⟩
      rcases lineLoop_complete _ l hcover b.instrs none ⟨i, hi, hline, hres⟩ with h | h
      · exact h
      · cases h
  | child r k c hs hk _ ih =>
    have ih' := ih hb hcover
    cases r with
    | mk id first isMod isAnn blocks children =>
      unfold instrument
      simp only [hs, Bool.false_eq_true, ↓reduceIte, Goals.append_lines, List.mem_append]
      right
      exact mem_instrumentL_lines cfg mod (some l) children k hk ih'

/-! ## Non-vacuity: concrete trees on which the hypotheses hold and the verdicts differ -/

section Examples
/-- `def f(a):` (1) / `if a:  # pragma: no cover` (2) / `x = 1` (3) / `else:` (4) / `y = 2` (5) / `return y` (6) -/
def exIf : Node :=
  .mk .ifK false false "" 2 2 5 [] [.mk .other false false "" 3 3 3 [] [] [] [] []] []
    [.mk .other false false "" 5 5 5 [] [] [] [] []] []
def exFn : Node :=
  .mk .scope true false "f" 1 1 6 [] [exIf, .mk .other false false "" 6 6 6 [] [] [] [] []] [] [] []
def exMod : Node := .mk .module false false "" 0 0 6 [] [exFn] [] [] []
def exCfg : Cfg := ⟨[2], []⟩

example : regions exCfg.noCover exIf = [(3, 3)] := by decide
example : shouldCoverLine exCfg exMod exFn 3 = false := by decide
example : shouldCoverLine exCfg exMod exFn 5 = true := by decide
example : shouldCoverLine exCfg exMod exFn 2 = false := by decide
example : shouldCoverCond exCfg exMod exFn 2 = false := by decide
example : shouldBeCovered exCfg exMod exFn = true := by decide
example : ExcludedIn exCfg exFn 3 :=
  Or.inr ⟨exIf, by simp [exFn, preorder, preorderL, mem_preorder_self], by decide, by decide, by decide, (3, 3), by decide,
    ⟨by decide, by decide⟩⟩
example : ¬ ExcludedIn exCfg exFn 5 := by
  intro h
  have := excluded_sound exCfg exMod exFn 5 h
  revert this; decide
/-- only-cover: `f` is the only-cover scope, line 5 lies inside. -/
example : shouldCoverLine ⟨[2], [1]⟩ exMod exFn 5 = true := by decide
/-- an exception-match / conditional expression on a marked line: the default follows the line. -/
example : shouldCoverCond ⟨[6], []⟩ exMod exFn 6 = false := by decide
/-- the instrumentation of the example: lines 5 and 6 are goals, 2 and 3 are not. -/
def exCo : CodeObj :=
  .mk 0 1 true false [⟨0, false, none, true, [⟨some 1, false⟩]⟩]
    [.mk 1 1 false false
      [⟨0, true, some 2, true, [⟨some 1, true⟩, ⟨some 2, false⟩]⟩, ⟨1, false, some 3, true, [⟨some 3, false⟩]⟩,
       ⟨2, false, some 6, true, [⟨some 5, false⟩, ⟨some 6, false⟩]⟩] []]
example : (instrument exCfg exMod exCo).lines = [some 1, some 5, some 6] := by decide
example : (instrument exCfg exMod exCo).preds = [] := by decide
example : (instrument ⟨[], []⟩ exMod exCo).preds = [(1, 0)] := by decide
example : attributed exMod exCo = true := by decide
end Examples

end PynguinModel.Exclusions
