import PynguinModel.Lemmas.Mutants
import PynguinModel.Lemmas.MutantsTree
import PynguinModel.Model.MutantsCtl
/-!
C28 — mutation analysis yields genuine mutants and leaves the original intact.

The statements are about `Model/Mutants.lean`, which models the code WITH the two proposed repairs
(`proposed_fixes/C28-generator-restore-finally.diff`: the restoring assignments of `_generic_visit_list` /
`_generic_visit_real_node` sit in `finally` clauses, `closeEvs`; `proposed_fixes/C28-hom-mutant-count.diff`:
`HighOrderMutator.mutation_count` counts the mutants `mutate` yields).  `abandoned_without_finally_cex`
keeps the defect of the unrepaired code visible.  The last two sections are about `Model/MutantsCtl.lean`: abandoned
enumerations of the three mutators and `MutationController` under arbitrary call histories.
-/
namespace PynguinModel.Mutants

/-! ### the operator generators (`MutationOperator.mutate / visit / _generic_visit*`) -/

/-- An operator generator (full enumeration, or one mutation regenerated with `only_mutation`) that is
run to exhaustion leaves the heap — hence the original syntax tree — exactly as it found it, for every
tree, operator, target and start heap. -/
theorem exhausted_generator_restores (op : Op) (tgt : Target) (t : Tree) (h : Heap) :
    (run (mutateEvs op tgt h t) h).2 = h := by
  simp [mutateEvs, run_visit]

/-- At the `yield` of a mutation the heap is the start heap with exactly one slot changed: the slot of the
mutated node holds the replacement. -/
theorem mutant_heap_at_yield (op : Op) (tgt : Target) (t : Tree) (h : Heap) :
    (run (mutateEvs op tgt h t) h).1 =
      (yields (mutateEvs op tgt h t)).map fun i => (i, h.set i.path (some i.repl)) := by
  simp [mutateEvs, run_visit, snap]

/-- **Genuine mutants.** On an intact tree the mutant the consumer sees at the yield of mutation `i` is the
original with the subtree at `i.path` replaced by `i.repl` … -/
theorem mutant_is_replaceAt (t : Tree) (i : Info) :
    readRoot t (Heap.clean.set i.path (some i.repl)) = t.replaceAt i.path i.repl :=
  readRoot_clean_set t i.path i.repl

/-- … and such a tree differs from the original only at the mutated node: every position that is not
inside the mutated subtree and not above it carries the same subtree, every position above it carries the
same label and the same number of children. -/
theorem mutant_differs_only_at (t : Tree) (q : Path) (r : Tree) :
    (∀ p, ¬ p <+: q → ¬ q <+: p → (t.replaceAt q r).get? p = t.get? p) ∧
    (∀ p s, p <+: q → p ≠ q → t.get? p = some s →
      ∃ s', (t.replaceAt q r).get? p = some s' ∧ s'.label = s.label ∧ s'.kids.length = s.kids.length) :=
  ⟨fun p h1 h2 => get?_replaceAt_incomparable t q r p h1 h2, fun p s h1 h2 h3 => get?_replaceAt_above t q r p s h1 h2 h3⟩

/-! ### placeholders in child lists (`None` in `arguments.kw_defaults` / `Dict.keys`, identifier strings)

A child list may mix nodes with entries that are not nodes.  Such an entry is a `Tree.hole`: it keeps its
position in the list — the index `_generic_visit_list` writes through is the position in the real list, so
slot paths count placeholders — but no frame exists for it.  All theorems of this file are stated for
every `Tree`, hence for trees with placeholders anywhere; the statements below make explicit what that
means for the placeholders themselves. -/

/-- **Only node slots are touched.**  Every heap write of an operator generator (applying a mutation,
re-yielding through the ancestors, restoring) goes to the slot of a real node of the tree, and every
yielded mutation mutates a real node: no placeholder entry is ever overwritten or "restored", whatever
the tree, operator, target and start heap. -/
theorem generator_touches_only_node_slots (op : Op) (tgt : Target) (t : Tree) (h : Heap) :
    (∀ q c, Ev.write q c ∈ mutateEvs op tgt h t → t.nodeAt q) ∧
    (∀ i ∈ yields (mutateEvs op tgt h t), t.nodeAt i.path) := by
  refine ⟨fun q c he => slot_visit op tgt t h [] _ he, fun i hi => ?_⟩
  have : Ev.yield i ∈ mutateEvs op tgt h t := by
    generalize mutateEvs op tgt h t = es at hi
    induction es with
    | nil => simp [yields] at hi
    | cons e es ih =>
      cases e with
      | write q c => exact List.mem_cons_of_mem _ (ih (by simpa [yields] using hi))
      | yield j =>
        simp only [yields, List.mem_cons] at hi
        rcases hi with rfl | hi
        · exact List.mem_cons_self
        · exact List.mem_cons_of_mem _ (ih hi)
  exact slot_visit op tgt t h [] _ this

/-- **Placeholders survive in every mutant.**  A mutant (original with the subtree at the path `q` of a
real node replaced) still has every placeholder of the original at its position — same list index, same
value —, except those inside the replaced subtree itself. -/
theorem placeholder_kept_in_mutant (t : Tree) (q : Path) (r : Tree) (p : Path) (v : Nat)
    (hp : t.get? p = some (.hole v)) (hq : t.nodeAt q) (hout : ¬ q <+: p) :
    (t.replaceAt q r).get? p = some (.hole v) := by
  obtain ⟨l, ks, hq⟩ := hq
  rw [get?_replaceAt_incomparable t q r p ?_ hout, hp]
  intro hpq
  have := get?_hole_prefix t p q v _ hp hpq hq
  subst this
  rw [hp] at hq
  cases hq

/-- Why positions must count placeholders: with `kw_defaults = [None, 1]` (`def f(*, a, b=1)`), writing the
mutant of the default through its index among the NODES of the list (`0`) instead of its list position
(`1`) overwrites the placeholder and leaves the mutated slot untouched — not the mutant of that mutation. -/
theorem placeholder_index_shift_cex :
    let t := Tree.node 0 [.hole 5, .node 1 []]
    let r := Tree.node 9 []
    readRoot t (Heap.clean.set [1] (some r)) = .node 0 [.hole 5, r] ∧
    readRoot t (Heap.clean.set [0] (some r)) = .node 0 [r, .node 1 []] ∧
    readRoot t (Heap.clean.set [0] (some r)) ≠ t.replaceAt [1] r := by
  decide

/-- Higher order: applying a second mutation on a tree that already carries others changes, again, only
the slot of its own node (so a mutant of order k differs from the original only at its k mutated nodes);
this is `mutant_heap_at_yield` for an arbitrary start heap, read through `read`. -/
theorem hom_mutant_read (t : Tree) (h : Heap) (i : Nat) (q : Path) (r : Tree)
    (live : ∀ s, s ≠ [] → s <+: (i :: q) → s ≠ i :: q → h s = none) :
    read t (h.set (i :: q) (some r)) = (read t h).replaceAt (i :: q) r :=
  read_set r q t h i live

/-- A consumer that abandons a generator after the yield of mutation `i` closes it; the `finally` clauses
of the frames on the path (`closeEvs`) restore the start heap. -/
theorem abandoned_generator_close_restores (h : Heap) (i : Info) :
    applyWrites (closeEvs h i) (h.set i.path (some i.repl)) = h := by
  unfold closeEvs
  apply applyWrites_restore
  intro q hq
  have : q ≠ i.path := fun e => hq (e ▸ mem_prefixes_self i.path)
  exact Heap.set_ne _ _ this

/-- Without the `finally` clauses (the unrepaired code) nothing runs when the generator is dropped after
its first `next`: the tree stays mutated.  Concrete witness: `[x]` with one operator that rewrites `x`. -/
theorem abandoned_without_finally_cex :
    ∃ (t : Tree) (op : Op) (i : Info) (h1 : Heap) (rest : List Ev),
      next (mutateEvs op none Heap.clean t) Heap.clean = (some i, h1, rest) ∧ read t h1 ≠ t := by
  let t := Tree.node 0 [Tree.node 1 []]
  let op : Op := ⟨fun p _ => if p = [0] then [(0, Tree.node 9 [])] else []⟩
  have hy : (yields (mutateEvs op none Heap.clean t)).map (fun i => (i.path, i.repl)) = [([0], Tree.node 9 [])] := by
    decide
  refine ⟨t, op, ?_⟩
  cases hn : next (mutateEvs op none Heap.clean t) Heap.clean with
  | mk o r =>
    obtain ⟨h1, rest⟩ := r
    cases o with
    | none =>
      have h0 := next_none hn
      have := congrArg (fun x => x.1.length) h0
      simp only [mutant_heap_at_yield, List.length_map, List.length_nil] at this
      have hl := congrArg List.length hy
      simp only [List.length_map, List.length_cons, List.length_nil] at hl
      omega
    | some i =>
      refine ⟨i, h1, rest, rfl, ?_⟩
      obtain ⟨e1, hmem, _⟩ := targeted_step hn
      have hi : (i.path, i.repl) = ([0], Tree.node 9 []) := by
        have : (i.path, i.repl) ∈ (yields (mutateEvs op none Heap.clean t)).map (fun i => (i.path, i.repl)) :=
          List.mem_map.mpr ⟨i, hmem, rfl⟩
        rw [hy] at this
        simpa using this
      simp only [Prod.mk.injEq] at hi
      rw [e1, hi.1, hi.2, read_set _ [] t Heap.clean 0 (fun _ _ _ _ => rfl), read_clean]
      decide

/-! ### `FirstOrderMutator`: historical path and the reported count -/

theorem enumOp_eq (op : Op) (t : Tree) (h : Heap) : enumOp op t h = (enumOpF op t h, h) := by
  simp [enumOp, enumOpF, mutateEvs, run_visit, snap, Function.comp_def]

/-- the concatenated-operator enumeration leaves the tree intact and yields, per operator, the mutants of
`mutant_heap_at_yield` -/
theorem historical_eq (t : Tree) : ∀ (ops : List Op) (o : Nat) (h : Heap),
    historical t ops o h = (historicalF t ops o h, h) := by
  intro ops
  induction ops with
  | nil => intro o h; rfl
  | cons op ops ih => intro o h; simp [historical, historicalF, enumOp_eq, ih]

theorem first_order_enumeration_restores (t : Tree) (ops : List Op) (o : Nat) (h : Heap) :
    (historical t ops o h).2 = h := by rw [historical_eq]

theorem mutationCount_eq (t : Tree) : ∀ (ops : List Op) (h : Heap),
    mutationCount t ops h = (mutationCountF t ops h, h) := by
  intro ops
  induction ops with
  | nil => intro h; rfl
  | cons op ops ih =>
    intro h
    have e := exhausted_generator_restores op none t h
    have l := congrArg List.length (mutant_heap_at_yield op none t h)
    simp only [List.length_map] at l
    simp [mutationCount, mutationCountF, e, l, ih]

theorem perOperator_eq (t : Tree) : ∀ (ops : List Op) (h : Heap),
    perOperator t ops h = (perOperatorF t ops h, h) := by
  intro ops
  induction ops with
  | nil => intro h; rfl
  | cons op ops ih =>
    intro h
    have e := exhausted_generator_restores op none t h
    have l := mutant_heap_at_yield op none t h
    simp [perOperator, perOperatorF, e, l, ih, Function.comp_def]

/-- **Count.** `mutation_count` equals the number of mutants the full enumeration yields, and counting
leaves the tree intact. -/
theorem count_eq_full_length (t : Tree) (ops : List Op) (o : Nat) (h : Heap) :
    (mutationCount t ops h).1 = (historical t ops o h).1.length ∧ (mutationCount t ops h).2 = h := by
  rw [mutationCount_eq, historical_eq]
  refine ⟨?_, rfl⟩
  induction ops generalizing o with
  | nil => rfl
  | cons op ops ih =>
    have := ih (o + 1)
    simp only at this
    simp [mutationCountF, historicalF, enumOpF, this]

/-- the descriptors `_select_mutations` / `_generate_all_mutations` collect are, per operator, exactly the
mutations of the full enumeration -/
theorem perOperator_flatten_eq_full (t : Tree) (ops : List Op) (o : Nat) (h : Heap) :
    ((perOperator t ops h).1.map List.length).sum = (historical t ops o h).1.length := by
  rw [perOperator_eq, historical_eq]
  induction ops generalizing o with
  | nil => rfl
  | cons op ops ih => simp [perOperatorF, historicalF, enumOpF, ih (o + 1)]

/-! ### `FirstOrderMutator`: sampled / reordered path -/

/-- One round of the selected path (regenerate with `only_mutation`, yield, exhaust): the tree is intact
afterwards, the regenerated mutation is one the operator's generator yields, and the mutant differs from
the tree before only in the slot of that mutation. -/
theorem applyOne_spec {ops : List Op} {t : Tree} {m : Mut} {h h2 : Heap} {y : Mut × Tree}
    (ho : applyOne ops t m h = .ok (y, h2)) :
    h2 = h ∧ y.2 = readRoot t (h.set y.1.2.path (some y.1.2.repl)) ∧ y.1.1 = m.1 ∧
      ∃ op, ops[m.1]? = some op ∧ y.1.2 ∈ yields (mutateEvs op (some (m.2.path, m.2.name)) h t) := by
  unfold applyOne at ho
  split at ho
  · cases ho
  · rename_i op hop
    split at ho
    · cases ho
    · rename_i i h1 rest hn
      obtain ⟨e1, hmem, hfin⟩ := targeted_step hn
      split at ho
      · cases ho
      · rename_i h2' r' hn2
        have := hfin _ _ hn2
        simp only [Except.ok.injEq, Prod.mk.injEq] at ho
        obtain ⟨rfl, rfl⟩ := ho
        exact ⟨this, by rw [e1], rfl, op, hop, hmem⟩

theorem selectedMutate_eq (ops : List Op) (t : Tree) : ∀ (ms : List Mut) (h : Heap),
    selectedMutate ops t ms h = (selectedMutateF ops t ms h).map fun ys => (ys, h) := by
  intro ms
  induction ms with
  | nil => intro h; rfl
  | cons m ms ih =>
    intro h
    rw [selectedMutate, selectedMutateF]
    cases ha : applyOne ops t m h with
    | error e => rfl
    | ok r =>
      obtain ⟨y, h'⟩ := r
      obtain ⟨rfl, _⟩ := applyOne_spec ha
      simp only [bind, Except.bind, ih]
      cases selectedMutateF ops t ms h' <;> rfl

/-- **Sampled / reordered enumerations leave the tree intact.** -/
theorem selected_enumeration_restores {ops : List Op} {t : Tree} {ms : List Mut} {h hf : Heap}
    {ys : List (Mut × Tree)} (ho : selectedMutate ops t ms h = .ok (ys, hf)) : hf = h := by
  rw [selectedMutate_eq] at ho
  cases hs : selectedMutateF ops t ms h with
  | error e => rw [hs] at ho; cases ho
  | ok v => rw [hs] at ho; simp only [Except.map, Except.ok.injEq, Prod.mk.injEq] at ho; exact ho.2.symm

/-- `_round_robin` only reorders: the interleaving is a permutation of the concatenation. -/
theorem round_robin_perm {α : Type} (ls : List (List α)) : (roundRobin ls).Perm ls.flatten :=
  roundRobin_perm ls

/-- `_sample` keeps, per operator, mutations of that operator's full list, taken at the drawn positions
(each position once when the draw has no repetition — `random.sample`'s contract): no mutation is invented. -/
theorem sampled_subset_full {α : Type} (l : List α) (draw : List Nat) :
    (∀ x ∈ pick l draw, x ∈ l) ∧ ∃ idxs : List Nat, idxs.Perm draw ∧ pick l draw = idxs.filterMap fun i => l[i]? :=
  ⟨pick_subset' l draw, pick_spec l draw⟩

/-- **Sampled / reordered mutants are mutants of the full enumeration.** The mutation a selected round
regenerates with `only_mutation` is one the operator's full enumeration yields on the same tree, and its
mutant is the same function of (tree, mutation) as there (`mutant_heap_at_yield`). -/
theorem selected_mutant_is_full_mutant {ops : List Op} {t : Tree} {m : Mut} {h h2 : Heap} {y : Mut × Tree}
    (ho : applyOne ops t m h = .ok (y, h2)) :
    ∃ op, ops[y.1.1]? = some op ∧ (y.1.2, y.2) ∈ enumOpF op t h := by
  obtain ⟨_, e2, e3, op, hop, hmem⟩ := applyOne_spec ho
  refine ⟨op, by rw [e3]; exact hop, ?_⟩
  have := mem_yields_visit_none op (some (m.2.path, m.2.name)) t h [] y.1.2 hmem
  simp only [enumOpF, List.mem_map]
  exact ⟨y.1.2, this, by rw [e2]⟩

/-! ### `HighOrderMutator` -/

theorem finishAll_append : ∀ (a b : List (List Ev)) (h : Heap),
    finishAll (a ++ b) h = (finishAll a h).bind (finishAll b) := by
  intro a
  induction a with
  | nil => intro b h; rfl
  | cons g gs ih =>
    intro b h
    simp only [List.cons_append, finishAll]
    split
    · rfl
    · exact ih b _

/-- **LIFO restore.** After the generators of one higher-order mutant were started one on top of the
other, finishing them in reverse order (`_finish_generators`) gives back the heap the first one started
on — for arbitrary (also overlapping) mutation paths. -/
theorem hom_restore (ops : List Op) (t : Tree) : ∀ (g : List Mut) (h hk : Heap) (ms : List Mut)
    (gens : List (List Ev)), startAll ops t g h = .ok (hk, ms, gens) →
    ∀ hf, finishAll gens.reverse hk = .ok hf → hf = h := by
  intro g
  induction g with
  | nil =>
    intro h hk ms gens hs hf hfin
    simp only [startAll, Except.ok.injEq, Prod.mk.injEq] at hs
    obtain ⟨rfl, _, rfl⟩ := hs
    simpa [finishAll] using hfin.symm
  | cons m g ih =>
    intro h hk ms gens hs hf hfin
    unfold startAll at hs
    split at hs
    · cases hs
    · rename_i op hop
      split at hs
      · cases hs
      · rename_i i h1 rest hn
        obtain ⟨_, _, hback⟩ := targeted_step hn
        cases hrec : startAll ops t g h1 with
        | error e => rw [hrec] at hs; cases hs
        | ok v =>
          obtain ⟨hk', ms', gens'⟩ := v
          rw [hrec] at hs
          simp only [bind, Except.bind, pure, Except.pure, Except.ok.injEq, Prod.mk.injEq] at hs
          obtain ⟨rfl, _, rfl⟩ := hs
          rw [List.reverse_cons, finishAll_append] at hfin
          cases hmid : finishAll gens'.reverse hk' with
          | error e => rw [hmid] at hfin; cases hfin
          | ok hm =>
            rw [hmid] at hfin
            have := ih h1 hk' ms' gens' hrec hm hmid
            subst this
            simp only [Except.bind, finishAll] at hfin
            split at hfin
            · cases hfin
            · rename_i h' r' hn2
              simp only [Except.ok.injEq] at hfin
              subst hfin
              exact hback _ _ hn2

theorem homMutate_eq (ops : List Op) (t : Tree) : ∀ (gs : List (List Mut)) (h : Heap),
    homMutate ops t gs h = (homMutateF ops t gs h).map fun ys => (ys, h) := by
  intro gs
  induction gs with
  | nil => intro h; rfl
  | cons g gs ih =>
    intro h
    rw [homMutate, homMutateF]
    cases hs : startAll ops t g h with
    | error e => rfl
    | ok v =>
      obtain ⟨hk, ms, gens⟩ := v
      simp only [bind, Except.bind]
      cases hfin : finishAll gens.reverse hk with
      | error e => rfl
      | ok hf =>
        have := hom_restore ops t g h hk ms gens hs hf hfin
        subst this
        simp only [ih]
        cases homMutateF ops t gs hf <;> rfl

/-- **Higher-order enumerations leave the tree intact**, and yield one mutant per group of the strategy
(the number `HighOrderMutator.mutation_count` reports after the repair). -/
theorem hom_enumeration_restores {ops : List Op} {t : Tree} {gs : List (List Mut)} {h hf : Heap}
    {ys : List (List Mut × Tree)} (ho : homMutate ops t gs h = .ok (ys, hf)) :
    hf = h ∧ ys.length = gs.length := by
  induction gs generalizing h hf ys with
  | nil =>
    simp only [homMutate, Except.ok.injEq, Prod.mk.injEq] at ho
    obtain ⟨rfl, rfl⟩ := ho
    exact ⟨rfl, rfl⟩
  | cons g gs ih =>
    rw [homMutate_eq] at ho
    rw [homMutateF] at ho
    cases hs : startAll ops t g h with
    | error e => rw [hs] at ho; cases ho
    | ok v =>
      obtain ⟨hk, ms, gens⟩ := v
      rw [hs] at ho
      simp only [bind, Except.bind] at ho
      cases hfin : finishAll gens.reverse hk with
      | error e => rw [hfin] at ho; cases ho
      | ok hf' =>
        rw [hfin] at ho
        simp only at ho
        cases hrest : homMutateF ops t gs h with
        | error e => rw [hrest] at ho; cases ho
        | ok ys' =>
          rw [hrest] at ho
          simp only [pure, Except.pure, Except.map, Except.ok.injEq, Prod.mk.injEq] at ho
          obtain ⟨rfl, rfl⟩ := ho
          have h2 : homMutate ops t gs h = .ok (ys', h) := by rw [homMutate_eq, hrest]; rfl
          exact ⟨rfl, by simp [(ih h2).2]⟩

/-! ### non-vacuity: a concrete tree, two operators, all three mutators -/

def exTree : Tree := .node 0 [.node 1 [], .node 2 [.node 3 [], .node 4 []]]
def exOp0 : Op :=
  ⟨fun p _ => if p = [0] then [(0, .node 9 [])] else if p = [1, 1] then [(1, .node 8 []), (2, .node 7 [])] else []⟩
def exOps : List Op := [exOp0, ⟨fun p _ => if p = [1] then [(3, .node 6 [])] else []⟩]

example : (historical exTree exOps 0 Heap.clean).1.length = 4 := by rw [historical_eq]; decide
example : (mutationCount exTree exOps Heap.clean).1 = 4 := by rw [mutationCount_eq]; decide
/-- regenerating one mutation with `only_mutation` yields exactly that mutation -/
example : (yields (mutateEvs exOp0 (some ([1, 1], 2)) Heap.clean exTree)).map (fun i => (i.path, i.name))
    = [([1, 1], 2)] := by decide
/-- hypotheses of `mutant_differs_only_at` / `hom_mutant_read` on a concrete second-order mutant -/
example : (exTree.replaceAt [0] (.node 9 [])).replaceAt [1, 1] (.node 7 []) =
    .node 0 [.node 9 [], .node 2 [.node 3 [], .node 7 []]] := by decide


/-! non-vacuity with placeholders: the shape of `kw_defaults = [None, 1, None, {**base, 'k': 2}]`
(`def f(*, a, b=1, c, d={**base, 'k': 2})`): slots `[hole, node 1, hole, node 2 [hole, node 3]]`; the first
default and the dict value behind the `**` placeholder are rewritten -/
def phTree : Tree := .node 0 [.hole 5, .node 1 [], .hole 5, .node 2 [.hole 6, .node 3 []]]
def phOp : Op := ⟨fun p _ => if p = [1] then [(0, .node 9 [])] else if p = [3, 1] then [(1, .node 8 [])] else []⟩

/-- the mutations are reported at their list positions (placeholders counted) … -/
example : (yields (mutateEvs phOp none Heap.clean phTree)).map (fun i => (i.path, i.name)) = [([1], 0), ([3, 1], 1)] := by
  decide
/-- … the mutants keep every placeholder in place … -/
example : (historicalF phTree [phOp] 0 Heap.clean).map (·.2) =
    [.node 0 [.hole 5, .node 9 [], .hole 5, .node 2 [.hole 6, .node 3 []]],
     .node 0 [.hole 5, .node 1 [], .hole 5, .node 2 [.hole 6, .node 8 []]]] := by decide
/-- … and the hypotheses of `placeholder_kept_in_mutant` hold (placeholder `[2]`, mutated node `[3, 1]`) -/
example : phTree.get? [2] = some (.hole 5) ∧ phTree.nodeAt [3, 1] ∧ ¬ [3, 1] <+: [2] :=
  ⟨by decide, ⟨3, [], by decide⟩, by decide⟩
/-- a regenerated (targeted) mutation behind a placeholder, exhausted: heap restored (`applyOne_spec`) -/
example : (applyOne [phOp] phTree (0, ⟨[3, 1], 1, .node 8 []⟩) Heap.clean).toOption.map (fun y => y.1.2) =
    some (.node 0 [.hole 5, .node 1 [], .hole 5, .node 2 [.hole 6, .node 8 []]]) := by decide

/-! ### abandoned enumerations (`Model/MutantsCtl.lean`) -/

/-- **An abandoned first-order enumeration leaves the tree intact** (historical path): whatever the number of
mutants the consumer took before dropping the generator. -/
theorem histStop_restores (t : Tree) : ∀ (ops : List Op) (o : Nat) (h : Heap) (k : Nat),
    (histStop t ops o h k).2 = h := by
  intro ops
  induction ops with
  | nil => intro o h k; rfl
  | cons op ops ih =>
    intro o h k
    simp only [histStop]
    split
    · exact ih _ _ _
    · split
      · rfl
      · exact abandoned_generator_close_restores h _

/-- … on the sampled / reordered path … -/
theorem selStop_restores (ops : List Op) (t : Tree) : ∀ (ms : List Mut) (h : Heap) (k : Nat)
    (ys : List (Mut × Tree)) (hf : Heap), selStop ops t ms h k = .ok (ys, hf) → hf = h := by
  intro ms
  induction ms with
  | nil =>
    intro h k ys hf ho
    simp only [selStop, Except.ok.injEq, Prod.mk.injEq] at ho
    exact ho.2.symm
  | cons m ms ih =>
    intro h k ys hf ho
    cases k with
    | zero =>
      simp only [selStop, Except.ok.injEq, Prod.mk.injEq] at ho
      exact ho.2.symm
    | succ k =>
      rw [selStop] at ho
      split at ho
      · split at ho
        · cases ho
        · split at ho
          · cases ho
          · rename_i i h1 _ hn
            obtain ⟨e1, _, _⟩ := targeted_step hn
            simp only [Except.ok.injEq, Prod.mk.injEq] at ho
            rw [← ho.2, e1]
            exact abandoned_generator_close_restores h i
      · split at ho
        · cases ho
        · split at ho
          · cases ho
          · rename_i ys' hf' hr
            simp only [Except.ok.injEq, Prod.mk.injEq] at ho
            rw [← ho.2]
            exact ih _ _ _ _ hr

theorem closeAll_cons (c : Heap × Info) (caps : List (Heap × Info)) (hk : Heap) :
    closeAll (c :: caps) hk = applyWrites (closeEvs c.1 c.2) (closeAll caps hk) := by
  simp [closeAll, List.foldl_append]

/-- closing the stacked generators of a higher-order mutant newest first gives back the heap the first one
started on -/
theorem closeAll_startAllH (ops : List Op) (t : Tree) : ∀ (g : List Mut) (h hk : Heap) (ms : List Mut)
    (caps : List (Heap × Info)), startAllH ops t g h = .ok (hk, ms, caps) → closeAll caps hk = h := by
  intro g
  induction g with
  | nil =>
    intro h hk ms caps hs
    simp only [startAllH, Except.ok.injEq, Prod.mk.injEq] at hs
    obtain ⟨rfl, _, rfl⟩ := hs
    simp [closeAll]
  | cons m g ih =>
    intro h hk ms caps hs
    rw [startAllH] at hs
    split at hs
    · cases hs
    · split at hs
      · cases hs
      · rename_i i h1 _ hn
        obtain ⟨e1, _, _⟩ := targeted_step hn
        split at hs
        · cases hs
        · rename_i hk' ms' caps' hrec
          simp only [Except.ok.injEq, Prod.mk.injEq] at hs
          obtain ⟨rfl, _, rfl⟩ := hs
          rw [closeAll_cons, ih _ _ _ _ hrec, e1]
          exact abandoned_generator_close_restores h i

/-- … and of a higher-order enumeration. -/
theorem homStop_restores (ops : List Op) (t : Tree) : ∀ (gs : List (List Mut)) (h : Heap) (k : Nat)
    (ys : List (List Mut × Tree)) (hf : Heap), homStop ops t gs h k = .ok (ys, hf) → hf = h := by
  intro gs
  induction gs with
  | nil =>
    intro h k ys hf ho
    simp only [homStop, Except.ok.injEq, Prod.mk.injEq] at ho
    exact ho.2.symm
  | cons g gs ih =>
    intro h k ys hf ho
    cases k with
    | zero =>
      simp only [homStop, Except.ok.injEq, Prod.mk.injEq] at ho
      exact ho.2.symm
    | succ k =>
      rw [homStop] at ho
      split at ho
      · split at ho
        · cases ho
        · rename_i hk ms caps hs
          simp only [Except.ok.injEq, Prod.mk.injEq] at ho
          rw [← ho.2]
          exact closeAll_startAllH ops t g h hk ms caps hs
      · split at ho
        · cases ho
        · rename_i hk ms gens hs
          split at ho
          · cases ho
          · split at ho
            · cases ho
            · rename_i ys' hf' hr
              simp only [Except.ok.injEq, Prod.mk.injEq] at ho
              rw [← ho.2]
              exact ih _ _ _ _ hr

/-! ### `MutationController`: any history of `create_mutants()` / `mutant_count()` calls -/

theorem enumerate_eq (t : Tree) (m : Mutator) (stop : Option Nat) (h : Heap) :
    m.enumerate t stop h = (m.enumerateF t stop h).map fun n => (n, h) := by
  cases m with
  | hist ops =>
    cases stop with
    | none => simp [Mutator.enumerate, Mutator.enumerateF, historical_eq, Except.map]
    | some k => simp [Mutator.enumerate, Mutator.enumerateF, histStop_restores, Except.map]
  | sel ops prone cap draws =>
    simp only [Mutator.enumerate, Mutator.enumerateF, perOperator_eq]
    cases selectMutations (perOperatorF t ops h) prone cap draws with
    | error e => rfl
    | ok ms =>
      cases stop with
      | none =>
        simp only [selectedMutate_eq]
        cases selectedMutateF ops t ms h <;> rfl
      | some k =>
        simp only
        cases hr : selStop ops t ms h k with
        | error e => rfl
        | ok r =>
          obtain ⟨ys, hf⟩ := r
          have := selStop_restores ops t ms h k ys hf hr
          subst this
          rfl
  | hom ops gs =>
    simp only [Mutator.enumerate, Mutator.enumerateF, perOperator_eq]
    cases stop with
    | none =>
      simp only [homMutate_eq]
      cases homMutateF ops t gs h <;> rfl
    | some k =>
      simp only
      cases hr : homStop ops t gs h k with
      | error e => rfl
      | ok r =>
        obtain ⟨ys, hf⟩ := r
        have := homStop_restores ops t gs h k ys hf hr
        subst this
        rfl

theorem count_eq (t : Tree) (m : Mutator) (h : Heap) :
    m.count t h = (m.countF t h).map fun n => (n, h) := by
  cases m with
  | hist ops => simp [Mutator.count, Mutator.countF, mutationCount_eq, Except.map]
  | sel ops prone cap draws => simp [Mutator.count, Mutator.countF, mutationCount_eq, Except.map]
  | hom ops gs => simp only [Mutator.count, Mutator.countF, enumerate_eq]

theorem ctlStep_eq (m : Mutator) (t : Tree) (c : Call) (h : Heap) :
    ctlStep m t c h = (ctlStepF m t c h).map fun n => (n, h) := by
  cases c with
  | count => exact count_eq t m h
  | create stop => exact enumerate_eq t m stop h

theorem ctlRun_eq (m : Mutator) (t : Tree) : ∀ (cs : List Call) (h : Heap),
    ctlRun m t cs h = (ctlRunF m t cs h).map fun ns => (ns, h) := by
  intro cs
  induction cs with
  | nil => intro h; rfl
  | cons c cs ih =>
    intro h
    rw [ctlRun, ctlRunF, ctlStep_eq]
    cases ctlStepF m t c h with
    | error e => rfl
    | ok n =>
      simp only [Except.map, ih]
      cases ctlRunF m t cs h <;> rfl

/-- **Every controller call gives the syntax tree back**: `mutant_count()`, a `create_mutants()` consumed to
the end and one the consumer abandons after any number of mutants, for every wrapped mutator. -/
theorem controller_call_restores {m : Mutator} {t : Tree} {c : Call} {h h' : Heap} {n : Nat}
    (ho : ctlStep m t c h = .ok (n, h')) : h' = h := by
  rw [ctlStep_eq] at ho
  cases hs : ctlStepF m t c h with
  | error e => rw [hs] at ho; cases ho
  | ok v => rw [hs] at ho; simp only [Except.map, Except.ok.injEq, Prod.mk.injEq] at ho; exact ho.2.symm

theorem ctlRunF_get (m : Mutator) (t : Tree) (h : Heap) : ∀ (cs : List Call) (outs : List Nat),
    ctlRunF m t cs h = .ok outs → ∀ (j : Nat) (c : Call), cs[j]? = some c →
      ∃ n, ctlStepF m t c h = .ok n ∧ outs[j]? = some n := by
  intro cs
  induction cs with
  | nil => intro outs _ j c hc; simp at hc
  | cons c0 cs ih =>
    intro outs ho j c hc
    rw [ctlRunF] at ho
    split at ho
    · cases ho
    · rename_i n hn
      split at ho
      · cases ho
      · rename_i ns hr
        simp only [Except.ok.injEq] at ho
        subst ho
        cases j with
        | zero =>
          simp only [List.getElem?_cons_zero, Option.some.injEq] at hc
          subst hc
          exact ⟨n, hn, rfl⟩
        | succ j =>
          simp only [List.getElem?_cons_succ] at hc
          obtain ⟨n', h1, h2⟩ := ih ns hr j c hc
          exact ⟨n', h1, by simpa using h2⟩

/-- **The result of a controller call does not depend on the calls before it.**  In any history of calls on
one controller, the `j`-th call returns what the same call returns on a fresh controller (and the tree is
intact at the end). -/
theorem controller_call_history_independent {m : Mutator} {t : Tree} {cs : List Call} {h hf : Heap}
    {outs : List Nat} (ho : ctlRun m t cs h = .ok (outs, hf)) :
    hf = h ∧ ∀ (j : Nat) (c : Call), cs[j]? = some c →
      ∃ n, ctlStep m t c h = .ok (n, h) ∧ outs[j]? = some n := by
  rw [ctlRun_eq] at ho
  cases hs : ctlRunF m t cs h with
  | error e => rw [hs] at ho; cases ho
  | ok v =>
    rw [hs] at ho
    simp only [Except.map, Except.ok.injEq, Prod.mk.injEq] at ho
    obtain ⟨rfl, rfl⟩ := ho
    refine ⟨rfl, fun j c hc => ?_⟩
    obtain ⟨n, h1, h2⟩ := ctlRunF_get m t h cs v hs j c hc
    exact ⟨n, by rw [ctlStep_eq, h1]; rfl, h2⟩

/-- **Count (controller).** A successful `mutant_count()` reports the length of the FULL enumeration — all
first-order mutations also when the mutator carries a cap or the reorder flag, all groups of the strategy
for a higher-order mutator. -/
theorem controller_count_eq_full {m : Mutator} {t : Tree} {h h' : Heap} {n : Nat}
    (ho : ctlStep m t .count h = .ok (n, h')) : n = m.fullLength t h := by
  cases m with
  | hist ops =>
    simp only [ctlStep, Mutator.count, Except.ok.injEq] at ho
    rw [Mutator.fullLength, ← (count_eq_full_length t ops 0 h).1, ho]
  | sel ops prone cap draws =>
    simp only [ctlStep, Mutator.count, Except.ok.injEq] at ho
    rw [Mutator.fullLength, ← (count_eq_full_length t ops 0 h).1, ho]
  | hom ops gs =>
    simp only [ctlStep, Mutator.count, Mutator.enumerate, perOperator_eq] at ho
    cases hm : homMutate ops t gs h with
    | error e => rw [hm] at ho; cases ho
    | ok r =>
      rw [hm] at ho
      simp only [Except.ok.injEq, Prod.mk.injEq] at ho
      obtain ⟨ys, hf⟩ := r
      rw [Mutator.fullLength, ← ho.1]
      exact (hom_enumeration_restores hm).2

/-- **The reported count is independent of the call history**: every `mutant_count()` of every history of
`create_mutants()` (complete or abandoned) / `mutant_count()` calls on one controller reports the length of
the full enumeration — in particular not the size of a sample a capped `create_mutants()` run delivered. -/
theorem controller_count_history_independent {m : Mutator} {t : Tree} {cs : List Call} {h hf : Heap}
    {outs : List Nat} (ho : ctlRun m t cs h = .ok (outs, hf)) :
    ∀ j : Nat, cs[j]? = some Call.count → outs[j]? = some (m.fullLength t h) := by
  intro j hc
  obtain ⟨n, h1, h2⟩ := (controller_call_history_independent ho).2 j Call.count hc
  rw [h2, controller_count_eq_full h1]


/-! non-vacuity of the controller theorems: `exTree`/`exOps` have 4 first-order mutations; a complete run delivers
4, an abandoned one what the consumer took, `mutant_count()` reports 4 at every position of the history -/
example : (ctlRunF (.hist exOps) exTree [.create (some 3), .count, .create none, .count] Heap.clean).toOption
    = some [3, 4, 4, 4] := by decide
example : (ctlRunF (.sel exOps [false, false] none []) exTree
    [.count, .create none, .count, .create (some 1), .count] Heap.clean).toOption
    = some [4, 4, 4, 1, 4] := by decide
/-- a second-order mutator: 2 groups from the mutations; the count is the number of groups at every position -/
example : (ctlRunF (.hom exOps [[(0, ⟨[0], 0, .node 9 []⟩), (0, ⟨[1, 1], 2, .node 7 []⟩)],
      [(0, ⟨[1, 1], 1, .node 8 []⟩)]]) exTree
    [.create none, .count, .create (some 1), .count] Heap.clean).toOption = some [2, 2, 1, 2] := by decide

end PynguinModel.Mutants
