import PynguinModel.Lemmas.Literals
/-!
# C23 — Literal values round-trip through generated source

Property theorems only.  The model (`Model/Literals.lean`) mirrors `pynguin.testcase.literalgen`
*with the repair* `proposed_fixes/C23-float-sign-and-nonfinite-parse.diff` (sign of a float taken
from the sign bit; `_parse_float` accepts the `float('inf')` / `float('nan')` call forms).  The
behaviour of the unchanged tree is kept as `floatToCstOld` / `parseFloatOld` with `…_old_cex`
theorems for the two defects.

* rendering then **evaluating** yields the same value: all values (`C23_eval_roundtrip`);
* rendering then **parsing** (`parse_literal`) yields the same value: all scalars incl. `-0.0`, ±inf,
  NaN (`C23_int_…`, `C23_float_…`, `C23_complex_…`) and all collections whose *nested* elements are
  accepted by `ast.literal_eval` (`C23_parse_roundtrip_partial`); a collection that contains a
  non-finite float or a complex number is rendered with a call (`float('inf')`, `complex(…)`) that
  `ast.literal_eval` rejects (`C23_parse_cex`, known finding);
* CPython's int↔str digit limit makes `str(value)` raise beyond 4300 digits
  (`C23_int_limit_iff`, `C23_int_limit_cex`, known finding);
* generated / mutated literals evaluate to a value of the requested type, for every draw list
  (`C23_generated_has_type`, `C23_mutated_has_type`).
-/
namespace PynguinModel.Literals

/-! ## Integers (all of `Int`) -/

/-- `_parse_int(_int_to_cst(z)) == z` for every integer. -/
theorem C23_int_parse_roundtrip (z : Int) : parseInt (intToCst z) = some z := by
  unfold intToCst
  split
  · simp [parseInt, ofDigits_toDigits]; omega
  · simp [parseInt, ofDigits_toDigits]; omega

/-- Evaluating the rendered integer gives the integer back. -/
theorem C23_int_eval_roundtrip (z : Int) : eval (intToCst z) = some (.int z) := eval_intToCst z

/-- The rendered integer is valid: the sign is a unary operator, the token has digits only and no
leading zero. -/
theorem C23_int_valid (z : Int) : (intToCst z).valid = true := by
  unfold intToCst
  split <;> simp [Expr.valid, validDigits_toDigits]

/-- With the digit limit `lim > 0` rendering succeeds exactly for `|z| < 10^lim`. -/
theorem C23_int_limit_iff (lim : Nat) (hl : 0 < lim) (z : Int) :
    intToCstLim lim z = some (intToCst z) ↔ z.natAbs < 10 ^ lim := by
  unfold intToCstLim digitsWithinLimit
  have hne : (lim == 0) = false := by simp; omega
  rw [← toDigits_length_le_iff _ _ hl]
  simp [hne]

/-- Without the limit (`sys.set_int_max_str_digits(0)`) every integer renders. -/
theorem C23_int_unlimited (z : Int) : intToCstLim 0 z = some (intToCst z) := by
  simp [intToCstLim, digitsWithinLimit]

/-- The full-strength statement for the default interpreter configuration. -/
def C23_int_full : Prop := ∀ z : Int, intToCstLim 4300 z = some (intToCst z)

/-- Witness: `10^4300` (4301 digits) cannot be rendered under CPython's default limit. -/
theorem C23_int_limit_cex : ¬ C23_int_full := by
  intro h
  have := (C23_int_limit_iff 4300 (by omega) ((10 : Int) ^ 4300)).1 (h _)
  have e : ((10 : Int) ^ 4300).natAbs = 10 ^ 4300 := by
    rw [Int.natAbs_pow]; rfl
  rw [e] at this
  exact Nat.lt_irrefl _ this

example : intToCstLim 4300 (-123) = some (.neg (.integer [1, 2, 3])) := by
  rw [(C23_int_limit_iff 4300 (by omega) (-123)).2 (by
    show 123 < 10 ^ 4300
    exact Nat.lt_of_lt_of_le (by omega : 123 < 10 ^ 3) (Nat.pow_le_pow_right (by omega) (by omega)))]
  simp [intToCst, toDigits]

/-! ## Floats (sign, zero, inf, NaN) -/

/-- `_parse_float(_float_to_cst(f)) == f` for every float, bit-for-bit in the sign. -/
theorem C23_float_parse_roundtrip (f : PyFloat) : parseFloat (floatToCst f) = some f := by
  cases f with
  | nan s => cases s <;>
      simp [floatToCst, PyFloat.abs, PyFloat.signBit, parseFloat, parseUnsignedFloat, strNan, strInf,
        PyFloat.neg]
  | inf s => cases s <;>
      simp [floatToCst, PyFloat.abs, PyFloat.signBit, parseFloat, parseUnsignedFloat, PyFloat.neg]
  | fin s m => cases s <;>
      simp [floatToCst, PyFloat.abs, PyFloat.signBit, parseFloat, parseUnsignedFloat, PyFloat.neg]

/-- Evaluating the rendered float gives the float back (incl. `-0.0`, `±inf`, NaN). -/
theorem C23_float_eval_roundtrip (f : PyFloat) : eval (floatToCst f) = some (.float f) :=
  eval_floatToCst f

/-- The rendered float is valid: the `Float` token is sign-free, the sign is a unary operator. -/
theorem C23_float_valid (f : PyFloat) : (floatToCst f).valid = true := by
  cases f with
  | nan s => cases s <;> simp [floatToCst, PyFloat.abs, PyFloat.signBit, Expr.valid, validList]
  | inf s => cases s <;> simp [floatToCst, PyFloat.abs, PyFloat.signBit, Expr.valid, validList]
  | fin s m => cases s <;> simp [floatToCst, PyFloat.abs, PyFloat.signBit, Expr.valid]

/-- Unchanged tree, defect 1: `_float_to_cst(-0.0)` evaluates to `+0.0` (the sign is lost because
`-0.0 < 0` is false). -/
theorem C23_float_old_cex_negzero :
    eval (floatToCstOld (.fin true 0)) = some (.float (.fin false 0)) ∧
    parseFloatOld (floatToCstOld (.fin true 0)) = some (.fin false 0) := by
  simp [floatToCstOld, PyFloat.abs, PyFloat.ltZero, eval, parseFloatOld]

/-- Unchanged tree, defect 2: `_parse_float` rejects what `_float_to_cst` renders for `inf`/`nan`. -/
theorem C23_float_old_cex_nonfinite :
    parseFloatOld (floatToCstOld (.inf false)) = none ∧
    parseFloatOld (floatToCstOld (.nan false)) = none := by
  simp [floatToCstOld, PyFloat.abs, PyFloat.ltZero, parseFloatOld]

/-- Unchanged tree: what does hold — finite floats other than `-0.0` round-trip. -/
theorem C23_float_old_partial (s : Bool) (m : Nat) (h : ¬ (s = true ∧ m = 0)) :
    parseFloatOld (floatToCstOld (.fin s m)) = some (.fin s m) := by
  cases s
  · simp [floatToCstOld, PyFloat.abs, PyFloat.ltZero, parseFloatOld]
  · have : m ≠ 0 := by simpa using h
    simp [floatToCstOld, PyFloat.abs, PyFloat.ltZero, parseFloatOld, this]

example : ¬ ((true : Bool) = true ∧ (4607182418800017408 : Nat) = 0) := by decide

/-! ## Complex -/

theorem parseComponent_floatToCst (rd : Int → Option PyFloat) (f : PyFloat) :
    parseComponent rd (floatToCst f) = some f := by
  simp [parseComponent, C23_float_parse_roundtrip]

/-- `_parse_complex(_complex_to_cst(c)) == c`, whatever `float(int)` does. -/
theorem C23_complex_parse_roundtrip (rd : Int → Option PyFloat) (re im : PyFloat) :
    parseComplex rd (complexToCst re im) = some (re, im) := by
  simp [complexToCst, parseComplex, parseComponent_floatToCst]

theorem C23_complex_eval_roundtrip (re im : PyFloat) :
    eval (complexToCst re im) = some (.complex re im) := eval_complexToCst re im

/-! ## Collections (structural induction over nested values) -/

mutual
/-- Rendering any value (nested lists/tuples/sets/dicts of scalars) and evaluating the printed
expression yields the value. -/
theorem C23_eval_roundtrip : ∀ v : LitVal, eval (litToCst v) = some v
  | .none => by simp [litToCst, eval]
  | .bool b => by cases b <;> simp [litToCst, eval]
  | .int z => by simpa [litToCst] using eval_intToCst z
  | .float f => by simpa [litToCst] using eval_floatToCst f
  | .complex re im => by simpa [litToCst] using eval_complexToCst re im
  | .str s => by simp [litToCst, eval]
  | .bytes b => by simp [litToCst, eval]
  | .list xs => by simp [litToCst, eval, evalList_roundtrip xs]
  | .tuple xs => by simp [litToCst, eval, evalList_roundtrip xs]
  | .set xs => by
      cases xs with
      | nil => simp [litToCst, eval, evalList]
      | cons x xs =>
        have h := evalList_roundtrip (x :: xs)
        simp only [litToCst, List.isEmpty_cons, Bool.false_eq_true, if_false, eval]
        simp only [litsToCst] at h ⊢
        simp [h]
  | .dict kvs => by simp [litToCst, eval, evalPairs_roundtrip kvs]
theorem evalList_roundtrip : ∀ xs : List LitVal, evalList (litsToCst xs) = some xs
  | [] => by simp [litsToCst, evalList]
  | x :: xs => by simp [litsToCst, evalList, C23_eval_roundtrip x, evalList_roundtrip xs]
theorem evalPairs_roundtrip : ∀ kvs : List (LitVal × LitVal), evalPairs (pairsToCst kvs) = some kvs
  | [] => by simp [pairsToCst, evalPairs]
  | (k, v) :: kvs => by
      simp [pairsToCst, evalPairs, C23_eval_roundtrip k, C23_eval_roundtrip v, evalPairs_roundtrip kvs]
end

mutual
/-- Every rendered literal is a valid libcst tree / Python expression: no sign inside a number
token, no empty set display. -/
theorem C23_valid : ∀ v : LitVal, (litToCst v).valid = true
  | .none => by simp [litToCst, Expr.valid]
  | .bool b => by cases b <;> simp [litToCst, Expr.valid]
  | .int z => by simpa [litToCst] using C23_int_valid z
  | .float f => by simpa [litToCst] using C23_float_valid f
  | .complex re im => by
      simp [litToCst, complexToCst, Expr.valid, validList, C23_float_valid]
  | .str s => by simp [litToCst, Expr.valid]
  | .bytes b => by simp [litToCst, Expr.valid]
  | .list xs => by simp [litToCst, Expr.valid, validList_lits xs]
  | .tuple xs => by simp [litToCst, Expr.valid, validList_lits xs]
  | .set xs => by
      cases xs with
      | nil => simp [litToCst, Expr.valid, validList]
      | cons x xs =>
        have h := validList_lits (x :: xs)
        simp only [litToCst, List.isEmpty_cons, Bool.false_eq_true, if_false, Expr.valid]
        simp only [litsToCst] at h ⊢
        simp [h]
  | .dict kvs => by simp [litToCst, Expr.valid, validPairs_lits kvs]
theorem validList_lits : ∀ xs : List LitVal, validList (litsToCst xs) = true
  | [] => by simp [litsToCst, validList]
  | x :: xs => by simp [litsToCst, validList, C23_valid x, validList_lits xs]
theorem validPairs_lits : ∀ kvs : List (LitVal × LitVal), validPairs (pairsToCst kvs) = true
  | [] => by simp [pairsToCst, validPairs]
  | (k, v) :: kvs => by
      simp [pairsToCst, validPairs, C23_valid k, C23_valid v, validPairs_lits kvs]
end

/-! ### `parse_literal` on collections goes through `ast.literal_eval` -/

mutual
/-- The value contains no complex number and no non-finite float (the two scalar kinds rendered
as calls, which `ast.literal_eval` rejects). -/
def LitVal.literalEvalable : LitVal → Bool
  | .float f => f.isFinite
  | .complex _ _ => false
  | .list xs | .tuple xs | .set xs => literalEvalableList xs
  | .dict kvs => literalEvalablePairs kvs
  | _ => true
def literalEvalableList : List LitVal → Bool
  | [] => true
  | x :: xs => x.literalEvalable && literalEvalableList xs
def literalEvalablePairs : List (LitVal × LitVal) → Bool
  | [] => true
  | (k, v) :: kvs => k.literalEvalable && v.literalEvalable && literalEvalablePairs kvs
end

/-- Top-level scalars have their own parsers; only the *elements* of a collection go through
`ast.literal_eval`. -/
def LitVal.parseable : LitVal → Bool
  | .float _ => true
  | .complex _ _ => true
  | v => v.literalEvalable

theorem literalEval_intToCst (z : Int) : literalEval (intToCst z) = some (.int z) := by
  unfold intToCst
  split
  · simp [literalEval, ofDigits_toDigits]; omega
  · simp [literalEval, ofDigits_toDigits]; omega

theorem literalEval_floatToCst_fin (s : Bool) (m : Nat) :
    literalEval (floatToCst (.fin s m)) = some (.float (.fin s m)) := by
  cases s <;> simp [floatToCst, PyFloat.abs, PyFloat.signBit, literalEval]

mutual
theorem literalEval_roundtrip : ∀ v : LitVal, v.literalEvalable = true →
    literalEval (litToCst v) = some v
  | .none, _ => by simp [litToCst, literalEval]
  | .bool b, _ => by cases b <;> simp [litToCst, literalEval]
  | .int z, _ => by simpa [litToCst] using literalEval_intToCst z
  | .float f, h => by
      cases f with
      | fin s m => simpa [litToCst] using literalEval_floatToCst_fin s m
      | nan s => simp [LitVal.literalEvalable, PyFloat.isFinite] at h
      | inf s => simp [LitVal.literalEvalable, PyFloat.isFinite] at h
  | .complex re im, h => by simp [LitVal.literalEvalable] at h
  | .str s, _ => by simp [litToCst, literalEval]
  | .bytes b, _ => by simp [litToCst, literalEval]
  | .list xs, h => by
      simp only [LitVal.literalEvalable] at h
      simp [litToCst, literalEval, (literalEvalList_roundtrip xs h).1]
  | .tuple xs, h => by
      simp only [LitVal.literalEvalable] at h
      simp [litToCst, literalEval, (literalEvalList_roundtrip xs h).1]
  | .set xs, h => by
      simp only [LitVal.literalEvalable] at h
      cases xs with
      | nil => simp [litToCst, literalEval]
      | cons x xs =>
        have h1 := (literalEvalList_roundtrip (x :: xs) h).1
        simp only [litToCst, List.isEmpty_cons, Bool.false_eq_true, if_false, literalEval]
        simp only [litsToCst] at h1 ⊢
        simp [h1]
  | .dict kvs, h => by
      simp only [LitVal.literalEvalable] at h
      simp [litToCst, literalEval, literalEvalPairs_roundtrip kvs h]
theorem literalEvalList_roundtrip : ∀ xs : List LitVal, literalEvalableList xs = true →
    literalEvalList (litsToCst xs) = some xs ∧ (litsToCst xs).length = xs.length
  | [], _ => by simp [litsToCst, literalEvalList]
  | x :: xs, h => by
      simp only [literalEvalableList, Bool.and_eq_true] at h
      have ⟨h1, h2⟩ := literalEvalList_roundtrip xs h.2
      simp [litsToCst, literalEvalList, literalEval_roundtrip x h.1, h1, h2]
theorem literalEvalPairs_roundtrip : ∀ kvs : List (LitVal × LitVal),
    literalEvalablePairs kvs = true → literalEvalPairs (pairsToCst kvs) = some kvs
  | [], _ => by simp [pairsToCst, literalEvalPairs]
  | (k, v) :: kvs, h => by
      simp only [literalEvalablePairs, Bool.and_eq_true] at h
      simp [pairsToCst, literalEvalPairs, literalEval_roundtrip k h.1.1, literalEval_roundtrip v h.1.2,
        literalEvalPairs_roundtrip kvs h.2]
end

/-- `parse_literal(literal_to_cst(v), type(v)) == v`: every scalar (incl. `-0.0`, ±inf, NaN,
complex), and every collection whose nested elements `ast.literal_eval` accepts. -/
theorem C23_parse_roundtrip_partial (rd : Int → Option PyFloat) (v : LitVal)
    (h : v.parseable = true) : parseLiteral rd v.typeOf (litToCst v) = some v := by
  cases v with
  | none => simp [LitVal.typeOf, parseLiteral, litToCst, literalEval]
  | bool b => cases b <;> simp [LitVal.typeOf, parseLiteral, parsePrimitive, litToCst]
  | int z => simp [LitVal.typeOf, parseLiteral, parsePrimitive, litToCst, C23_int_parse_roundtrip]
  | float f =>
    simp [LitVal.typeOf, parseLiteral, parsePrimitive, litToCst, C23_float_parse_roundtrip]
  | complex re im =>
    simp [LitVal.typeOf, parseLiteral, litToCst, C23_complex_parse_roundtrip]
  | str s => simp [LitVal.typeOf, parseLiteral, parsePrimitive, litToCst]
  | bytes b => simp [LitVal.typeOf, parseLiteral, parsePrimitive, litToCst]
  | list xs =>
    simp [LitVal.typeOf, parseLiteral, literalEval_roundtrip (.list xs) h, LitVal.isInstance]
  | tuple xs =>
    simp [LitVal.typeOf, parseLiteral, literalEval_roundtrip (.tuple xs) h, LitVal.isInstance]
  | set xs =>
    simp [LitVal.typeOf, parseLiteral, literalEval_roundtrip (.set xs) h, LitVal.isInstance]
  | dict kvs =>
    simp [LitVal.typeOf, parseLiteral, literalEval_roundtrip (.dict kvs) h, LitVal.isInstance]

/-- The full-strength parse statement. -/
def C23_parse_full : Prop :=
  ∀ (rd : Int → Option PyFloat) (v : LitVal), parseLiteral rd v.typeOf (litToCst v) = some v

/-- Witness: `[inf]` renders to `[float('inf')]`, which `ast.literal_eval` (hence `parse_literal`)
rejects, although evaluating it gives `[inf]` back. -/
theorem C23_parse_cex : ¬ C23_parse_full := by
  intro h
  have := h (fun _ => none) (.list [.float (.inf false)])
  simp [LitVal.typeOf, parseLiteral, litToCst, litsToCst, floatToCst, PyFloat.abs, PyFloat.signBit,
    literalEval, literalEvalList] at this

example : (LitVal.dict [(.tuple [.int (-3), .str [97]], .set [.float (.fin true 0), .bool true])]).parseable
    = true := by decide
example : (LitVal.complex (.nan false) (.inf true)).parseable = true := by decide

/-! ## Generation and mutation: the requested type, for every draw list -/

/-- Whatever the RNG and the constant provider return, a literal produced by
`generate_literal(raw, …)` (no element pool) evaluates to a value of type `raw`. -/
theorem C23_generated_has_type (cfg : Config) (raw : RawType) (draws rest : List Draw) (e : Expr)
    (h : genLiteral cfg [] raw draws = some (e, rest)) :
    ∃ v, eval e = some v ∧ v.typeOf = raw :=
  (genLiteral_post cfg raw).out draws e rest h

/-- Whatever the draws, `mutate_literal` applied to an expression that evaluates returns a literal
that evaluates to a value of type `raw`. -/
theorem C23_mutated_has_type (rd : Int → Option PyFloat) (cfg : Config) (raw : RawType) (e0 : Expr)
    (he : ∃ v, eval e0 = some v) (draws rest : List Draw) (e : Expr)
    (h : mutateLiteral rd cfg [] raw e0 draws = some (e, rest)) :
    ∃ v, eval e = some v ∧ v.typeOf = raw := by
  have hp : Post (mutateLiteral rd cfg [] raw e0) (IsLit raw) := by
    unfold mutateLiteral
    apply Post.bind'; intro p
    apply Post.ite
    · exact genLiteral_post cfg raw
    · exact dispatchMutate_post rd cfg raw e0 he
  exact hp.out draws e rest h

/-- Generated and mutated literals are also valid trees (every branch builds its numbers with
`intToCst` / `floatToCst`): shown here for the scalar generators. -/
theorem C23_generated_scalar_valid (cfg : Config) (draws rest : List Draw) (e : Expr) :
    (genInt cfg draws = some (e, rest) → e.valid = true) ∧
    (genFloat cfg draws = some (e, rest) → e.valid = true) := by
  constructor
  · intro h
    have hp : Post (genInt cfg) (fun e => e.valid = true) := by
      unfold genInt
      apply Post.bind'; intro p
      apply Post.bind'; intro seeded
      split
      · exact Post.pure (C23_int_valid _)
      · apply Post.bind'; intro q
        apply Post.ite
        · apply Post.bind'; intro i
          exact Post.pure (C23_int_valid _)
        · apply Post.bind'; intro _
          apply Post.bind'; intro z
          exact Post.pure (C23_int_valid _)
    exact hp.out _ _ _ h
  · intro h
    have hp : Post (genFloat cfg) (fun e => e.valid = true) := by
      unfold genFloat
      apply Post.bind'; intro p
      apply Post.bind'; intro seeded
      split
      · exact Post.pure (C23_float_valid _)
      · apply Post.bind'; intro _
        apply Post.bind'; intro f
        exact Post.pure (C23_float_valid _)
    exact hp.out _ _ _ h

/-- Non-vacuity: a concrete draw list drives `generate_literal(list, …)` to `[True, -1]`. -/
example :
    genLiteral ⟨⟨0, 1⟩, ⟨0, 1⟩, ⟨0, 1⟩, ⟨0, 1⟩, 10, 10, 5, 3⟩ [] .list
      [.bool false, .int 1 4 2, .choice 4 2, .bool true, .choice 4 0, .flt 1 2, .flt 0 1, .choice 5 0]
    = some (.list [.name "True", .neg (.integer [1])], []) := by
  simp [genLiteral, genList, collectionCount, elementValues, elementValue, randomPrimitiveElement,
    genInt, nextBool, nextNat, nextInt, choiceIdx, nextFloat, andG, whenG, Frac.lt, frac02, boolName,
    specialInts, intToCst, toDigits, bind, pure, Gen.bind, Gen.pure]

end PynguinModel.Literals
