import PynguinModel.Lemmas.LineInstr
import PynguinModel.Lemmas.LineTracer
import PynguinModel.Generated.C02Opcodes
/-!
# C02 — reported line coverage equals the lines the interpreter actually executed

Property-level theorems about the model of `LineCoverageInstrumentation.visit_node`,
`SubjectProperties.register_line / lineids_to_linenos`, `track_line_visit` and `compute_line_coverage`
(`Model/LineInstr.lean`).  All statements quantify over arbitrary blocks (pseudo-instructions, artificial
instructions of other adapters, instructions without line number, excluded lines, skipped opcodes),
arbitrary programs (lists of code objects sharing one registry) and arbitrary execution histories
(any sequence of block visits, each leaving the block after any number of original instructions —
normal exit, jump or exception).  What the interpreter does *between* blocks is not modelled: the theorems
hold for every visit sequence, the end-to-end runs of `harness/c02.py` compare with `sys.monitoring`.
-/
namespace PynguinModel.LineInstr
open PynguinModel.Generated.C02

/-- **tracked_prefix** (block level, both directions, every prefix). After the first `k` original
instructions of a block have run (whatever made control leave the block), the ids handed to
`track_line_visit` denote — in every later state `r2` of the registry — exactly the coverable lines
carried by those `k` instructions, and all of them are lines of the instrumented file. -/
theorem tracked_prefix (p : Pass) (r0 : Registry) (b : List Entry) (k : Nat) (r2 : Registry)
    (hext : Ext (visitNode p none r0 b).1 r2) :
    (∀ id ∈ runPrefix k (visitNode p none r0 b).2,
        ∃ l ∈ execLines p b k, r2[id]? = some ⟨p.file, l⟩) ∧
    (∀ l ∈ execLines p b k,
        ∃ id ∈ runPrefix k (visitNode p none r0 b).2, r2[id]? = some ⟨p.file, l⟩) := by
  constructor
  · intro id hid
    obtain ⟨l, h1, h2⟩ := visitNode_sound p b none r0 k r2 hext id hid
    exact ⟨l, h2, h1⟩
  · intro l hl
    rcases visitNode_complete p b none r0 k r2 hext l hl with h | h
    · cases h
    · exact h

/-- The adapter only inserts trackers: original instructions, pseudo-instructions and the artificial
instructions of other adapters stay where they are, in order. -/
theorem instrumentation_keeps_block (p : Pass) (last : Option Nat) (r : Registry) (b : List Entry) :
    erase (visitNode p last r b).2 = b :=
  visitNode_erase p b last r

/-- **reported_eq_executed** (program level, every history). For every program and every execution
history, translating the covered line ids back through the final registry never fails (`KeyError`
impossible) and yields exactly the (file, line) pairs of the coverable lines the interpreter executed. -/
theorem reported_eq_executed (cs : List CodeObj) (vs : List Visit) :
    ∃ ms, lineidsToMetas (instrumentProgram [] cs).1
            (covered (runHistory (instrumentProgram [] cs).2 vs)) = some ms ∧
      ∀ m, m ∈ ms ↔ m ∈ execHistory cs vs := by
  have hlt : ∀ i ∈ covered (runHistory (instrumentProgram [] cs).2 vs),
      i < (instrumentProgram [] cs).1.length := by
    intro i hi
    rw [mem_covered] at hi
    simp only [runHistory, List.mem_flatMap] at hi
    obtain ⟨v, _, hv⟩ := hi
    obtain ⟨m, _, hm⟩ := visit_sound cs [] v i hv
    rcases Nat.lt_or_ge i (instrumentProgram [] cs).1.length with h | h
    · exact h
    · simp [List.getElem?_eq_none h] at hm
  obtain ⟨ms, h1, h2⟩ := lineidsToMetas_some _ _ hlt
  refine ⟨ms, h1, ?_⟩
  intro m
  rw [h2]
  constructor
  · rintro ⟨i, hi, hm⟩
    rw [mem_covered] at hi
    simp only [runHistory, List.mem_flatMap] at hi
    obtain ⟨v, hv, hiv⟩ := hi
    obtain ⟨m', hm', hget⟩ := visit_sound cs [] v i hiv
    rw [hget] at hm
    cases hm
    exact List.mem_flatMap.2 ⟨v, hv, hm'⟩
  · intro hm
    obtain ⟨v, hv, hmv⟩ := List.mem_flatMap.1 hm
    obtain ⟨id, hid, hget⟩ := visit_complete cs [] v m hmv
    exact ⟨id, (mem_covered _ _).2 (List.mem_flatMap.2 ⟨v, hv, hid⟩), hget⟩

/-- `lineids_to_linenos` of the covered ids: exactly the line numbers of the executed coverable lines. -/
theorem reported_linenos_eq_executed (cs : List CodeObj) (vs : List Visit) :
    ∃ ls, lineidsToLinenos (instrumentProgram [] cs).1
            (covered (runHistory (instrumentProgram [] cs).2 vs)) = some ls ∧
      ∀ l, l ∈ ls ↔ ∃ m ∈ execHistory cs vs, m.line = l := by
  obtain ⟨ms, h1, h2⟩ := reported_eq_executed cs vs
  refine ⟨(ms.map (·.line)).foldl addId [], by simp [lineidsToLinenos, h1], ?_⟩
  intro l
  rw [mem_foldl_addId]
  simp only [List.not_mem_nil, false_or, List.mem_map]
  constructor
  · rintro ⟨m, hm, rfl⟩; exact ⟨m, (h2 m).1 hm, rfl⟩
  · rintro ⟨m, hm, rfl⟩; exact ⟨m, (h2 m).2 hm, rfl⟩

/-- Every reported line belongs to the module under test: it is a coverable line of one of the
instrumented code objects (in particular its file is the file of that code object). -/
theorem reported_lines_belong_to_module (cs : List CodeObj) (vs : List Visit) :
    ∀ m ∈ execHistory cs vs, m ∈ coverableLines cs ∧ ∃ c ∈ cs, m.file = c.pass.file := by
  intro m hm
  obtain ⟨v, _, hmv⟩ := List.mem_flatMap.1 hm
  have hc := execVisit_coverable cs v m hmv
  refine ⟨hc, ?_⟩
  simp only [coverableLines, List.mem_flatMap, List.mem_map] at hc
  obtain ⟨c, hc, _, _, _, _, rfl⟩ := hc
  exact ⟨c, hc, rfl⟩

/-- **registry_bijective**: ids ↔ (file, line) is a bijection, and the registered lines are exactly the
coverable lines of the program (nothing else gets a line goal, no coverable line is forgotten). -/
theorem registry_bijective (cs : List CodeObj) :
    (instrumentProgram [] cs).1.Nodup ∧
    (∀ (i j : Nat) (m : LineMeta), (instrumentProgram [] cs).1[i]? = some m → (instrumentProgram [] cs).1[j]? = some m → i = j) ∧
    (∀ m, m ∈ (instrumentProgram [] cs).1 ↔ m ∈ coverableLines cs) := by
  have hn : (instrumentProgram [] cs).1.Nodup := instrumentProgram_nodup cs [] (by simp)
  refine ⟨hn, ?_, ?_⟩
  · intro i j m hi hj
    have hlt : i < (instrumentProgram [] cs).1.length := by
      rcases Nat.lt_or_ge i (instrumentProgram [] cs).1.length with h | h
      · exact h
      · simp [List.getElem?_eq_none h] at hi
    exact (List.getElem?_inj hlt hn).1 (hi.trans hj.symm)
  · intro m
    constructor
    · intro hm
      rcases instrumentProgram_registry cs [] m hm with h | h
      · cases h
      · exact h
    · exact instrumentProgram_registers cs [] m

/-- `register_line` is idempotent and hands out the id under which the meta is stored. -/
theorem register_line_spec (r : Registry) (m : LineMeta) (hr : r.Nodup) :
    (register r m).1.Nodup ∧ (register r m).1[(register r m).2]? = some m ∧
    register (register r m).1 m = register r m ∧ Ext r (register r m).1 :=
  ⟨register_nodup r m hr, register_get r m, register_idem r m, register_ext r m⟩

/-- **line_coverage_bounds**: `compute_line_coverage` is a fraction in `[0, 1]` for every history
(its assertion never fires), it is `1` when nothing exists, and "all lines covered" holds exactly when
the fraction is `1`. -/
theorem line_coverage_bounds (cs : List CodeObj) (vs : List Visit) :
    let r := (instrumentProgram [] cs).1
    let cov := covered (runHistory (instrumentProgram [] cs).2 vs)
    (lineCoverage r cov).1 ≤ (lineCoverage r cov).2 ∧ 0 < (lineCoverage r cov).2 ∧
    (r = [] → lineCoverage r cov = (1, 1)) ∧
    (allLinesCovered r cov = true ↔ (lineCoverage r cov).1 = (lineCoverage r cov).2) := by
  intro r cov
  have hsub : cov ⊆ List.range r.length := by
    intro i hi
    rw [mem_covered] at hi
    simp only [runHistory, List.mem_flatMap] at hi
    obtain ⟨v, _, hv⟩ := hi
    obtain ⟨m, _, hm⟩ := visit_sound cs [] v i hv
    rcases Nat.lt_or_ge i r.length with h | h
    · simpa using h
    · simp [r, List.getElem?_eq_none h] at hm
  have hle : cov.length ≤ r.length := by
    simpa using (covered_nodup _).length_le_of_subset hsub
  unfold lineCoverage allLinesCovered
  by_cases h0 : r.length = 0
  · have hc0 : cov.length = 0 := by omega
    simp [h0, hc0]
  · refine ⟨by simp [h0, hle], by simp [h0]; omega, ?_, by simp [h0]⟩
    intro hr; simp [hr] at h0

/-! ## The opcode table read from the live adapter (`Generated/C02Opcodes.lean`) -/

/-- opcodes of CPython 3.12 that never start a line event of their own: the frame set-up of a call
(`RESUME`, `RETURN_GENERATOR`, cell set-up), the `END_FOR` a finished `FOR_ITER` jumps over, and the
non-instructions `CACHE` / `EXTENDED_ARG`.  Trusted (CPython semantics), exercised end-to-end. -/
def noLineEventOpnames : List String :=
  ["RESUME", "RETURN_GENERATOR", "END_FOR", "CACHE", "EXTENDED_ARG", "MAKE_CELL", "COPY_FREE_VARS"]

/-- the live `should_instrument_line` skips no opcode that produces line events … -/
theorem skip_table_sound : ∀ n ∈ skippedOpnames, n ∈ noLineEventOpnames := by decide

/-- … and skips the three that carry a line number without executing the line. -/
theorem skip_table_complete : ∀ n ∈ ["RESUME", "RETURN_GENERATOR", "END_FOR"], n ∈ skippedOpnames := by
  decide

/-! ## The unrepaired adapter (D23): a line goal `None` is registered and reported covered -/

/-- generator prologue `RETURN_GENERATOR (line 2); POP_TOP (no line); RESUME (line 2)`, all lines coverable -/
def cexPass : Pass := ⟨"m.py", fun _ => true, fun n => n == "RESUME"⟩
def cexBlock : List Entry :=
  [.orig ⟨"RETURN_GENERATOR", some 2⟩, .orig ⟨"POP_TOP", none⟩, .orig ⟨"RESUME", some 2⟩]

theorem C02_cex_none_line :
    (⟨"m.py", none⟩ : LineMetaOld) ∈ runPrefixOld 3 (visitNodeOld cexPass none cexBlock) := by decide

/-- the repaired rule on the same block reports line 2 only -/
example : runPrefix 3 (visitNode cexPass none [] cexBlock).2 = [0] ∧
    (visitNode cexPass none [] cexBlock).1 = [⟨"m.py", 2⟩] := by decide

/-! ## Non-vacuity -/

/-- the skip table of the repaired 3.12 adapter, written out (examples do not depend on the generated file) -/
def exSkip (n : String) : Bool := ["END_FOR", "RESUME", "RETURN_GENERATOR"].contains n

def exPass : Pass := ⟨"m.py", fun l => l != 7, exSkip⟩
/-- `TryEnd; RESUME@1; LOAD@2; <branch snippet>; COMPARE@2; LOAD@3; LOAD@7 (excluded); LOAD@2; END_FOR@4; POP@None` -/
def exBlock : List Entry :=
  [.pseudo, .orig ⟨"RESUME", some 1⟩, .orig ⟨"LOAD_FAST", some 2⟩, .art, .orig ⟨"COMPARE_OP", some 2⟩,
   .orig ⟨"LOAD_FAST", some 3⟩, .orig ⟨"LOAD_FAST", some 7⟩, .orig ⟨"LOAD_FAST", some 2⟩,
   .orig ⟨"END_FOR", some 4⟩, .orig ⟨"POP_TOP", none⟩]

example : (visitNode exPass none [] exBlock).2 =
    [.keep .pseudo, .keep (.orig ⟨"RESUME", some 1⟩), .tracker 0, .keep (.orig ⟨"LOAD_FAST", some 2⟩),
     .keep .art, .keep (.orig ⟨"COMPARE_OP", some 2⟩), .tracker 1, .keep (.orig ⟨"LOAD_FAST", some 3⟩),
     .keep (.orig ⟨"LOAD_FAST", some 7⟩), .tracker 0, .keep (.orig ⟨"LOAD_FAST", some 2⟩),
     .keep (.orig ⟨"END_FOR", some 4⟩), .keep (.orig ⟨"POP_TOP", none⟩)] := by decide

/-- an exception in the third original instruction: only line 2 is reported, line 3 is not -/
example : runPrefix 3 (visitNode exPass none [] exBlock).2 = [0] ∧ execLines exPass exBlock 3 = [2, 2] := by
  decide

example : execLines exPass exBlock 8 = [2, 2, 3, 2] ∧
    covered (runPrefix 8 (visitNode exPass none [] exBlock).2) = [0, 1] := by decide

/-- a two-code-object program with a shared line: the registry stays duplicate-free, the history
`[block (0,0) completely, block (1,0) up to its first instruction]` reports lines 2, 3 of `a.py` and 2 of `b.py` -/
def exProg : List CodeObj :=
  [⟨⟨"a.py", fun _ => true, exSkip⟩,
    [[.orig ⟨"LOAD_FAST", some 2⟩, .orig ⟨"RETURN_VALUE", some 3⟩], [.orig ⟨"LOAD_FAST", some 2⟩]]⟩,
   ⟨⟨"b.py", fun _ => true, exSkip⟩,
    [[.orig ⟨"LOAD_FAST", some 2⟩, .orig ⟨"LOAD_FAST", some 9⟩]]⟩]

example : (instrumentProgram [] exProg).1 = [⟨"a.py", 2⟩, ⟨"a.py", 3⟩, ⟨"b.py", 2⟩, ⟨"b.py", 9⟩] ∧
    covered (runHistory (instrumentProgram [] exProg).2 [⟨0, 0, 2⟩, ⟨1, 0, 1⟩, ⟨0, 1, 1⟩]) = [0, 1, 2] ∧
    execHistory exProg [⟨0, 0, 2⟩, ⟨1, 0, 1⟩, ⟨0, 1, 1⟩] =
      [⟨"a.py", 2⟩, ⟨"a.py", 3⟩, ⟨"b.py", 2⟩, ⟨"a.py", 2⟩] ∧
    lineidsToLinenos (instrumentProgram [] exProg).1 [0, 1, 2] = some [2, 3] ∧
    lineCoverage (instrumentProgram [] exProg).1 [0, 1, 2] = (3, 4) := by decide

end PynguinModel.LineInstr

/-! ## The tracer side: proxy → delegate → trace, enabled flag, `with tracer:`, new traces

`Model/LineTracer.lean`: `InstrumentationExecutionTracer.track_line_visit` → `ExecutionTracer.track_line_visit`
(`_early_return`: dropped while disabled, aborted outside `with tracer:`) → `covered_line_ids`; `enable / disable /
temporarily_disable / temporarily_enable`; `init_trace / store_import_trace / reset`, swapping the delegate; the
tracer's own evaluation of a predicate (which runs `__eq__`, `__lt__`, `__contains__`, `__bool__` … of the module
under test with tracing disabled).  An execution is any interleaving of block visits and tracer operations. -/
namespace PynguinModel.LineTracer
open PynguinModel.LineInstr

/-- **visit_while_recording_lands**: whatever happened before (`pre`: earlier executions on the same tracer,
disabled phases, predicate evaluations, other visits of the same line …), a `track_line_visit(id)` made while
the tracer is enabled and entered is in the trace as long as no new trace is installed. -/
theorem visit_while_recording_lands (s : Run) (pre post : List Op) (id : Nat)
    (hrec : (s.run pre).recording = true) (hpost : noStart post) :
    id ∈ (s.run (pre ++ .visit id :: post)).trace := by
  rw [run_append]
  have h1 : ((s.run pre).run (.visit id :: post)) = ((s.run pre).step (.visit id)).run post := rfl
  rw [h1, run_trace post _ hpost, mem_foldl_addId]
  left
  rw [step_trace_visit]
  have hr : (s.run pre).ctl.recording = true := hrec
  simp only [hr, if_true]
  unfold addId
  split
  · assumption
  · simp

/-- **trace_only_recorded_visits**: within one trace nothing else gets in — an id of the trace was there when the
trace was installed or was reported by a visit made while the tracer was enabled and entered. -/
theorem trace_only_recorded_visits (s : Run) (ops : List Op) (h : noStart ops) (id : Nat)
    (hid : id ∈ (s.run ops).trace) :
    id ∈ s.trace ∨ ∃ pre post, ops = pre ++ .visit id :: post ∧ (s.run pre).recording = true := by
  rw [run_trace ops s h, mem_foldl_addId] at hid
  rcases hid with h0 | h1
  · exact Or.inl h0
  · obtain ⟨pre, post, e, hr⟩ := mem_recordedIds ops s.ctl id h1
    refine Or.inr ⟨pre, post, e, ?_⟩
    have : (s.run pre).ctl.recording = true := by rw [run_ctl]; exact hr
    exact this

/-- **new_trace_spec**: `reset` and a fresh delegate start from nothing, `init_trace` from the import trace,
`store_import_trace` keeps what the import reported and makes it the import trace. -/
theorem new_trace_spec (s : Run) :
    (s.step .reset).trace = [] ∧ (s.step .setFresh).trace = [] ∧
    (∀ i, i ∈ (s.step .initTrace).trace ↔ i ∈ s.proxy.tracer.importTrace) ∧
    (∀ i, i ∈ (s.step .storeImportTrace).trace ↔ i ∈ s.trace) ∧
    (s.step .storeImportTrace).proxy.tracer.importTrace = s.trace ∧
    (s.step .initTrace).proxy.tracer.importTrace = s.proxy.tracer.importTrace := by
  obtain ⟨⟨⟨en, ent, imp, tr⟩⟩, st, ab⟩ := s
  refine ⟨rfl, rfl, ?_, ?_, rfl, rfl⟩
  · intro i
    simp [Run.step, Proxy.initTrace, Tracer.initTrace, Run.trace, mem_mergeIds]
  · intro i
    simp [Run.step, Proxy.storeImportTrace, Tracer.storeImportTrace, Tracer.initTrace, Run.trace, mem_mergeIds]

/-- **predicate_evaluation_neutral**: when the branch tracer evaluates a comparison / truth value / membership
itself, the lines of the module's dunder methods it runs are not reported, and the tracer is as enabled afterwards
as before. -/
theorem predicate_evaluation_neutral (s : Run) (ids : List Nat) :
    (s.step (.predicate ids)).trace = s.trace ∧ (s.step (.predicate ids)).ctl = s.ctl :=
  step_predicate s ids

/-- **reported_eq_executed_recording** (program level, tracer included). For every program, every tracer state
`s` (left behind by earlier executions) and every execution without a new trace — block visits interleaved with
enable / disable / temporarily_disable / temporarily_enable / `with tracer:` / predicate evaluations —, the
covered line ids translate without `KeyError` to exactly: what the trace held at its start, plus the
(file, line) pairs executed by the block visits made while the tracer was enabled and entered. -/
theorem reported_eq_executed_recording (cs : List CodeObj) (s : Run) (evs : List Ev) (hp : plainEvs evs)
    (hbase : ∀ i ∈ s.trace, i < (instrumentProgram [] cs).1.length) :
    ∃ ms, lineidsToMetas (instrumentProgram [] cs).1
            (s.run (flatten (instrumentProgram [] cs).2 evs)).trace = some ms ∧
      ∀ m, m ∈ ms ↔ (∃ i ∈ s.trace, (instrumentProgram [] cs).1[i]? = some m) ∨
                    m ∈ execHistory cs (recordedVisits s.ctl evs) := by
  rw [run_flatten_trace _ s evs hp]
  have hlt : ∀ i ∈ (runHistory (instrumentProgram [] cs).2 (recordedVisits s.ctl evs)).foldl addId s.trace,
      i < (instrumentProgram [] cs).1.length := by
    intro i hi
    rw [mem_foldl_addId] at hi
    rcases hi with hi | hi
    · exact hbase i hi
    · simp only [runHistory, List.mem_flatMap] at hi
      obtain ⟨v, _, hv⟩ := hi
      obtain ⟨m, _, hm⟩ := visit_sound cs [] v i hv
      rcases Nat.lt_or_ge i (instrumentProgram [] cs).1.length with h | h
      · exact h
      · simp [List.getElem?_eq_none h] at hm
  obtain ⟨ms, h1, h2⟩ := lineidsToMetas_some _ _ hlt
  refine ⟨ms, h1, ?_⟩
  intro m
  rw [h2]
  constructor
  · rintro ⟨i, hi, hm⟩
    rw [mem_foldl_addId] at hi
    rcases hi with hi | hi
    · exact Or.inl ⟨i, hi, hm⟩
    · right
      simp only [runHistory, List.mem_flatMap] at hi
      obtain ⟨v, hv, hiv⟩ := hi
      obtain ⟨m', hm', hget⟩ := visit_sound cs [] v i hiv
      rw [hget] at hm
      cases hm
      exact List.mem_flatMap.2 ⟨v, hv, hm'⟩
  · rintro (⟨i, hi, hm⟩ | hm)
    · exact ⟨i, (mem_foldl_addId _ _ _).2 (Or.inl hi), hm⟩
    · obtain ⟨v, hv, hmv⟩ := List.mem_flatMap.1 hm
      obtain ⟨id, hid, hget⟩ := visit_complete cs [] v m hmv
      exact ⟨id, (mem_foldl_addId _ _ _).2 (Or.inr (List.mem_flatMap.2 ⟨v, hv, hid⟩)), hget⟩

/-- **reported_after_reset**: an execution that starts with `reset()` — after any earlier use of the tracer —
reports exactly the lines executed while the tracer was recording. -/
theorem reported_after_reset (cs : List CodeObj) (s : Run) (evs : List Ev) (hp : plainEvs evs) :
    ∃ ms, lineidsToMetas (instrumentProgram [] cs).1
            (s.run (.reset :: flatten (instrumentProgram [] cs).2 evs)).trace = some ms ∧
      ∀ m, m ∈ ms ↔ m ∈ execHistory cs (recordedVisits s.ctl evs) := by
  have h0 := (new_trace_spec s).1
  obtain ⟨ms, h1, h2⟩ := reported_eq_executed_recording cs (s.step .reset) evs hp (by rw [h0]; simp)
  refine ⟨ms, h1, ?_⟩
  intro m
  rw [h2, h0, step_ctl]
  have hc : s.ctl.step .reset = s.ctl := rfl
  simp [hc]

/-- **reported_after_init_trace**: an execution that starts with `init_trace()` reports the lines of the import
trace plus exactly the lines executed while the tracer was recording. -/
theorem reported_after_init_trace (cs : List CodeObj) (s : Run) (evs : List Ev) (hp : plainEvs evs)
    (himp : ∀ i ∈ s.proxy.tracer.importTrace, i < (instrumentProgram [] cs).1.length) :
    ∃ ms, lineidsToMetas (instrumentProgram [] cs).1
            (s.run (.initTrace :: flatten (instrumentProgram [] cs).2 evs)).trace = some ms ∧
      ∀ m, m ∈ ms ↔ (∃ i ∈ s.proxy.tracer.importTrace, (instrumentProgram [] cs).1[i]? = some m) ∨
                    m ∈ execHistory cs (recordedVisits s.ctl evs) := by
  have h0 := (new_trace_spec s).2.2.1
  obtain ⟨ms, h1, h2⟩ := reported_eq_executed_recording cs (s.step .initTrace) evs hp
    (fun i hi => himp i ((h0 i).1 hi))
  refine ⟨ms, h1, ?_⟩
  intro m
  rw [h2, step_ctl]
  have hc : s.ctl.step .initTrace = s.ctl := rfl
  simp only [hc, h0]

/-! ### Non-vacuity (the shapes of the two scenarios of a "same line as last time" short-cut) -/

/-- BRANCH+LINE: the tracer evaluates `a == b` itself (the one-line `__eq__` body reports id 3, dropped), then
the program evaluates it (reported) -/
example : (Run.init.run [.enter, .visit 0, .predicate [3], .visit 3, .exit]).trace = [0, 3] := by decide

/-- two executions on one tracer, the second starts on the line the first ended on -/
example : (Run.init.run [.enter, .visit 5, .exit, .initTrace, .enter, .visit 5]).trace = [5] ∧
    (Run.init.run [.enter, .visit 5, .exit, .reset, .enter, .visit 5, .exit, .visit 6]).trace = [5] ∧
    (Run.init.run [.enter, .visit 5, .exit, .reset, .enter, .visit 5, .exit, .visit 6]).aborted = 1 := by decide

/-- disabled phases, nested context managers, import trace -/
example : (Run.init.run [.enter, .visit 1, .storeImportTrace, .tdEnter, .visit 2, .teEnter, .visit 3, .tdEnter,
      .visit 4, .cmExit, .cmExit, .visit 2, .cmExit, .visit 2, .initTrace, .disable, .visit 7, .enable, .visit 7]).trace
    = [1, 7] ∧
    snapshots (instrumentProgram [] exProg).2 Run.init
      [.op .enter, .blk ⟨0, 0, 2⟩, .op .storeImportTrace, .op .tdEnter, .blk ⟨1, 0, 2⟩, .op .cmExit, .blk ⟨1, 0, 1⟩,
       .op .reset, .blk ⟨0, 1, 1⟩] = [[0, 1], [0, 1, 2], [0]] := by decide

example : plainEvs [.op .enter, .blk ⟨0, 0, 2⟩, .op .tdEnter, .blk ⟨1, 0, 2⟩, .op .cmExit, .op (.predicate [1])] ∧
    recordedVisits Run.init.ctl
      [.op .enter, .blk ⟨0, 0, 2⟩, .op .tdEnter, .blk ⟨1, 0, 2⟩, .op .cmExit, .op (.predicate [1]), .blk ⟨1, 0, 1⟩]
      = [⟨0, 0, 2⟩, ⟨1, 0, 1⟩] := by
  constructor
  · intro e he
    simp only [List.mem_cons, List.not_mem_nil, or_false] at he
    rcases he with rfl | rfl | rfl | rfl | rfl | rfl <;> rfl
  · decide

end PynguinModel.LineTracer
