/-
C19 — Generated regression assertions are kept in the exported file.

"Every assertion attached to a test case after assertion generation and assertion minimization appears, for
the same statement, in the exported test function; post-processing and export may remove unused bindings but
never silently drop an oracle."

Model: `Model/TestCaseAssert.lean` (the code WITH `proposed_fixes/C19-remove-unused-keeps-assertions.diff`).
All theorems hold for arbitrary statement lists (no well-formedness needed unless stated), arbitrary
post-processing histories, arbitrary re-execution outcomes.  The exported body is read back with `groups`
(an observer that does not share code with the export loop): one `(statement id, assertion lines below it)`
group per emitted statement.
-/
import PynguinModel.Lemmas.TestCaseAssert

namespace PynguinModel.TestCaseAssert
open PynguinModel.TestCase (Name Stmt ruGo)

/-! ### `remove_unused_variables` (run by `UnusedStatementsTestCaseVisitor` and again by `write`) -/

/-- The pass never deletes a statement and never touches an assertion list: same statements, same order, each
with its complete list of assertion objects (exception assertions included). -/
theorem remove_unused_keeps_assertions (l : List AStmt) :
    (ruFix l).2.map AStmt.key = l.map AStmt.key := ruFix_key l

/-- "may remove unused bindings": pointwise the output statement is the input statement, or the input was a
simple assignment whose variable is read by nothing afterwards — no later statement, no assertion of this or
a later statement — and only the binding is gone (assertions, accessible, reads unchanged). -/
theorem remove_unused_only_unbinds_dead (l : List AStmt) : OnlyDeadUnbound l (ruFix l).2 := ruFix_onlyDead l

/-- the `alive_vars` set of the code is exactly semantic liveness, assertion reads included -/
theorem remove_unused_alive_is_liveness (v : Name) (l : List AStmt) : v ∈ (ruFix l).1 ↔ Live v l :=
  mem_ruFix_alive v l

/-- the pass never takes away a binding that a statement or an assertion still reads -/
theorem remove_unused_keeps_reads_bound {l : List AStmt} {bs : List Name} (h : ReadsOK bs l) :
    ReadsOK bs (ruFix l).2 := h.ruFix

/-! ### `UnusedStatementsTestCaseVisitor` -/

/-- The visitor IS the pass: its `deleted_statement_indexes` stays empty, the test case it leaves behind is the
result of `remove_unused_variables()`, i.e. the same statements in the same order, each with its complete
assertion list — whatever kind of statement (also an unused literal reduced to a bare `5`) and whatever the
sources of its assertions (own variable, another variable, a module or class attribute). -/
theorem visitor_deletes_nothing (l : List AStmt) :
    (visitUnused l).2 = [] ∧ (visitUnused l).1 = (ruFix l).2 ∧
    (visitUnused l).1.map AStmt.key = l.map AStmt.key := ⟨rfl, rfl, ruFix_key l⟩

/-- the code's visitor is the member of the `visitWith` family that deletes nothing, and it spares assertions -/
theorem visitor_is_sparing_member (l : List AStmt) (ops : List Op) :
    visitUnused l = visitWith visitorDeleted l ∧ history l ops = historyWith visitorDeleted l ops ∧
    SparesAssertions visitorDeleted :=
  ⟨visitUnused_eq_visitWith l, history_eq_historyWith l ops, visitorDeleted_spares⟩

/-- **What an unused-statements visitor may delete.**  Replace the visitor by ANY visitor that, after the pass,
deletes a set of statements chosen as any function of the test case, as long as no chosen statement carries an
assertion.  Then after any history of passes, such visitors and clones, followed by `write`, every statement
that carries an assertion is exported, in order, followed by exactly its renderable assertions, and everything
exported is an original statement with exactly its assertions.  (`bareLeftovers_drops_oracle_cex`: the hypothesis
cannot be weakened to "the statement is a bare leftover literal".) -/
theorem C19_any_visitor_sparing_assertions (del : List AStmt → List Nat) (hd : SparesAssertions del)
    (l : List AStmt) (ops : List Op) (hops : ∀ op ∈ ops, op.isRemoveUnused = true)
    (noXfail importOk : Bool) (outs : List Outcome) :
    let r := writeOne noXfail importOk (historyWith del l ops) outs
    ((l.filter (fun s => !s.asserts.isEmpty)).map AStmt.oracle).Sublist (groups r.2.body) ∧
    (groups r.2.body).Sublist (l.map AStmt.oracle) := by
  intro r
  have hg : groups r.2.body = ((historyWith del l ops).map AStmt.key).map oracleOfKey := by
    show groups (buildFn noXfail _ (perStmtExc importOk _ outs)).body = _
    rw [groups_buildFn _ _ _ (by rw [perStmtExc_length]; exact Nat.le_refl _), map_oracle_eq, ruFix_key]
  refine ⟨?_, ?_⟩
  · rw [hg]
    have := (carrying_sublist_historyWith hd l ops hops).map oracleOfKey
    rw [carrying_eq_filter_map, List.map_map] at this
    exact this
  · rw [hg, map_oracle_eq]
    exact (historyWith_keys del l ops).map oracleOfKey

/-- member form: under such a visitor no oracle is dropped -/
theorem C19_sparing_visitor_exports_every_assertion (del : List AStmt → List Nat) (hd : SparesAssertions del)
    (l : List AStmt) (ops : List Op) (hops : ∀ op ∈ ops, op.isRemoveUnused = true)
    (noXfail importOk : Bool) (outs : List Outcome) :
    ∀ s ∈ l, ∀ a ∈ s.asserts, a.renders = true →
      ∃ g ∈ groups (writeOne noXfail importOk (historyWith del l ops) outs).2.body, g.1 = s.sid ∧ a ∈ g.2 := by
  intro s hs a ha hr
  refine ⟨s.oracle, ?_, rfl, List.mem_filter.mpr ⟨ha, hr⟩⟩
  apply (C19_any_visitor_sparing_assertions del hd l ops hops noXfail importOk outs).1.subset
  refine List.mem_map.mpr ⟨s, List.mem_filter.mpr ⟨hs, ?_⟩, rfl⟩
  cases hsa : s.asserts with
  | nil => rw [hsa] at ha; cases ha
  | cons _ _ => rfl

/-- `var_0 = 7` {`assert module_0.LIMIT == 10`} (unused literal whose only oracle reads a module attribute);
`var_1 = module_0.Counter()` {`assert var_1.count == 0`} -/
def litCarrier : List AStmt :=
  [⟨0, some (.var 0), some 0, [], [.ref 1 (.ext "module_0")], true, []⟩,
   ⟨1, some (.var 1), none, [.ext "module_0"], [.ref 2 (.var 1)], true, []⟩]

/-- A visitor that deletes the bare literals the pass leaves behind ("a value nobody looks at") does not spare
assertions, and it drops an oracle: the first observation of the module state hangs on the unused literal. -/
theorem bareLeftovers_drops_oracle_cex :
    ¬ SparesAssertions bareLeftovers ∧
    groups (writeOne false true (historyWith bareLeftovers litCarrier [.visitUnused])
      [⟨true, none⟩, ⟨true, none⟩]).2.body = [(1, [.ref 2 (.var 1)])] ∧
    litCarrier.map AStmt.oracle = [(0, [.ref 1 (.ext "module_0")]), (1, [.ref 2 (.var 1)])] := by
  refine ⟨fun h => ?_, by decide, by decide⟩
  have := h (ruFix litCarrier).2 0 _ (by decide) rfl
  exact absurd this (by decide)

/-! ### post-processing histories -/

/-- After ANY sequence of post-processing steps (unused-variable passes, accepted minimiser removals with their
forward dependencies, exception truncation, clones) the surviving statements are a subsequence of the original
ones and every survivor still carries its complete original assertion list. -/
theorem postprocessing_keeps_assertions_of_survivors (l : List AStmt) (ops : List Op) :
    ((history l ops).map AStmt.key).Sublist (l.map AStmt.key) := history_keys l ops

/-! ### export -/

/-- `_per_statement_exceptions` returns one entry per statement whatever the re-execution does (exceptions,
watchdog timeouts, failing import), so the `zip(..., strict=False)` of `_build_test_function` drops nothing -/
theorem per_statement_exceptions_total (importOk : Bool) (l : List AStmt) (outs : List Outcome) :
    (perStmtExc importOk l outs).length = l.length := perStmtExc_length importOk l outs

/-- `_build_test_function` emits every statement once, in order, and directly below it exactly its renderable
assertions in order — whether the statement is emitted bare, wrapped in `pytest.raises`, or the function is
marked xfail. -/
theorem export_emits_every_assertion (noXfail : Bool) (l : List AStmt) (excs : List (Option Nat))
    (h : l.length ≤ excs.length) : groups (buildFn noXfail l excs).body = l.map AStmt.oracle :=
  groups_buildFn noXfail l excs h

/-- a well-scoped test case is exported as a well-scoped function: every exported assertion reads a variable
that is bound above it -/
theorem export_keeps_reads_bound (noXfail : Bool) (l : List AStmt) (excs : List (Option Nat))
    (h : ReadsOK [] l) : ItemsOK [] (buildFn noXfail l excs).body := itemsOK_buildFn noXfail l excs [] h

/-! ### the property -/

/-- **C19, full strength.**  Take any test case as it is after assertion generation/minimisation, run any
number of unused-variable passes, `UnusedStatementsTestCaseVisitor` visits and clones over it, then
`TestSuiteWriter.write` (which runs the pass again,
re-executes the statements with arbitrary outcomes and builds the function).  Then the exported function shows
every original statement, in order, each followed by exactly its renderable assertions; the test case left
behind has the same statements with the same complete assertion lists; and if the original reads were bound,
every exported statement and assertion still reads bound variables. -/
theorem C19_full (l : List AStmt) (ops : List Op) (hops : ∀ op ∈ ops, op.isRemoveUnused = true)
    (noXfail importOk : Bool) (outs : List Outcome) :
    let r := writeOne noXfail importOk (history l ops) outs
    groups r.2.body = l.map AStmt.oracle ∧
    r.1.map AStmt.key = l.map AStmt.key ∧
    (ReadsOK [] l → ItemsOK [] r.2.body) := by
  intro r
  have hk : r.1.map AStmt.key = l.map AStmt.key := by
    show (ruFix (history l ops)).2.map AStmt.key = _
    rw [ruFix_key, history_keys_eq l ops hops]
  refine ⟨?_, hk, ?_⟩
  · show groups (buildFn noXfail _ (perStmtExc importOk _ outs)).body = _
    rw [groups_buildFn _ _ _ (by rw [perStmtExc_length]; exact Nat.le_refl _)]
    exact key_oracle hk
  · intro hr
    exact itemsOK_buildFn _ _ _ [] (history_readsOK hr ops hops).ruFix

/-- **C19 with statement-level minimisation in between.**  For arbitrary histories (also removals by the
minimisers and truncation): the exported groups are exactly the surviving statements with their renderable
assertions, and they form a subsequence of the original `(statement, assertions)` pairs — a statement that
survives is exported with all of its assertions. -/
theorem C19_survivors (l : List AStmt) (ops : List Op) (noXfail importOk : Bool) (outs : List Outcome) :
    let r := writeOne noXfail importOk (history l ops) outs
    groups r.2.body = r.1.map AStmt.oracle ∧
    (groups r.2.body).Sublist (l.map AStmt.oracle) := by
  intro r
  have h1 : groups r.2.body = r.1.map AStmt.oracle := by
    show groups (buildFn noXfail _ (perStmtExc importOk _ outs)).body = _
    exact groups_buildFn _ _ _ (by rw [perStmtExc_length]; exact Nat.le_refl _)
  refine ⟨h1, ?_⟩
  rw [h1]
  apply keys_sublist_oracle
  show ((ruFix (history l ops)).2.map AStmt.key).Sublist _
  rw [ruFix_key]
  exact history_keys l ops

/-- member form: every exported group belongs to an original statement and shows exactly that statement's
renderable assertions -/
theorem C19_exported_group_is_original (l : List AStmt) (ops : List Op) (noXfail importOk : Bool)
    (outs : List Outcome) :
    ∀ g ∈ groups (writeOne noXfail importOk (history l ops) outs).2.body,
      ∃ s ∈ l, g = (s.sid, s.asserts.filter Assertion.renders) := by
  intro g hg
  have := (C19_survivors l ops noXfail importOk outs).2.subset hg
  obtain ⟨s, hs, rfl⟩ := List.mem_map.mp this
  exact ⟨s, hs, rfl⟩

/-- member form of `C19_full`: no oracle is dropped -/
theorem C19_every_assertion_exported (l : List AStmt) (ops : List Op)
    (hops : ∀ op ∈ ops, op.isRemoveUnused = true) (noXfail importOk : Bool) (outs : List Outcome) :
    ∀ s ∈ l, ∀ a ∈ s.asserts, a.renders = true →
      ∃ g ∈ groups (writeOne noXfail importOk (history l ops) outs).2.body, g.1 = s.sid ∧ a ∈ g.2 := by
  intro s hs a ha hr
  refine ⟨s.oracle, ?_, rfl, List.mem_filter.mpr ⟨ha, hr⟩⟩
  rw [(C19_full l ops hops noXfail importOk outs).1]
  exact List.mem_map.mpr ⟨s, hs, rfl⟩

/-! ### the unrepaired tree (D9) -/

/-- the statement for the snapshot's code: the pass keeps every assertion list -/
def C19_unrepaired : Prop := ∀ l : List AStmt, (oldRu l).2.map AStmt.key = l.map AStmt.key

/-- `var_0 = 5` with `assert var_0 == 5`: the snapshot's pass rebuilds the statement as `5` without assertions -/
def d9 : List AStmt := [⟨0, some (.var 0), some 0, [], [.ref 7 (.var 0)], true, []⟩]

theorem C19_unrepaired_cex : ¬ C19_unrepaired := by
  intro h
  exact absurd (h d9) (by decide)

/-- the same on C15's model of the snapshot's pass -/
theorem C15_model_drops_assertions_cex :
    ¬ ∀ l : List Stmt, (ruGo l).2.map (·.asserts) = l.map (·.asserts) := by
  intro h
  exact absurd (h [⟨some (.var 0), some 0, [], [.var 0], true⟩]) (by decide)

/-- exported with the snapshot's pass, the function is `5` with no assertion line -/
theorem unrepaired_export_cex :
    groups (buildFn false (oldRu d9).2 (perStmtExc true (oldRu d9).2 [⟨true, none⟩])).body = [(0, [])] ∧
    d9.map AStmt.oracle = [(0, [.ref 7 (.var 0)])] := by decide

/-- on test cases without assertions the repaired pass is the pass C15 modelled (C15's theorems keep
describing the repaired code there) -/
theorem repaired_pass_agrees_with_C15_without_assertions (l : List AStmt) (h : ∀ s ∈ l, s.asserts = []) :
    (ruFix l).2.map AStmt.forget = (ruGo (l.map AStmt.forget)).2 := (ruFix_forget_of_no_asserts l h).2

/-! ### the driver's executable checks decide the propositions -/

theorem readsOKb_decides (bs : List Name) (l : List AStmt) : readsOKb bs l = true ↔ ReadsOK bs l :=
  readsOKb_iff bs l

theorem itemsOKb_decides (bs : List Name) (l : List Item) : itemsOKb bs l = true ↔ ItemsOK bs l :=
  itemsOKb_iff bs l

/-! ### non-vacuity -/

/-- `var_0 = f()` {assert var_0 == .., assert var_0.x == ..}; `var_1 = g(var_0)` {exception assertion,
assert len(var_0) == ..} (var_1 unused); `var_2 = 3` (dead); `h(var_1 ...)`-free tail statement with a
declared exception -/
def ex1 : List AStmt :=
  [⟨0, some (.var 0), some 0, [.ext "mod_0"], [.ref 1 (.var 0), .ref 2 (.var 0)], true, []⟩,
   ⟨1, some (.var 1), some 1, [.ext "mod_0", .var 0], [.exc 3, .ref 4 (.var 0)], true, [5]⟩,
   ⟨2, some (.var 2), some 0, [], [], true, []⟩,
   ⟨3, none, none, [.ext "mod_0", .var 0], [.ref 5 (.ext "mod_0")], false, []⟩]

example : ReadsOK [] ex1 := (readsOKb_iff _ _).mp (by decide)
example : ∀ op ∈ [Op.removeUnused, Op.clone, Op.visitUnused, Op.removeUnused], op.isRemoveUnused = true := by
  decide
/-- the visitor on the literal carrier: `var_0 = 7` loses its binding, keeps its module-attribute assertion -/
example : (visitUnused litCarrier).1.map (·.bound) = [none, some (.var 1)] ∧ (visitUnused litCarrier).2 = [] ∧
    groups (writeOne false true (history litCarrier [.visitUnused]) [⟨true, none⟩, ⟨true, none⟩]).2.body =
      litCarrier.map AStmt.oracle := by decide
/-- a non-trivial sparing policy: delete the bare leftovers that carry no assertion -/
def assertionFreeLeftovers (l : List AStmt) : List Nat :=
  (bareLeftovers l).filter (fun i => match l[i]? with
    | some s => s.asserts.isEmpty
    | none => false)
example : SparesAssertions assertionFreeLeftovers := by
  intro l i s hi hs
  have := (List.mem_filter.mp hi).2
  rw [hs] at this
  exact List.isEmpty_iff.mp this
/-- it really deletes (statement 2 of `ex1`, the dead `var_2 = 3`) and keeps the three carrying statements -/
example : (visitWith assertionFreeLeftovers ex1).2 = [2] ∧
    (visitWith assertionFreeLeftovers ex1).1.map AStmt.key = [ex1[0].key, ex1[1].key, ex1[3].key] := by decide
/-- the pass unbinds `var_1` (only an exception assertion and an assertion on `var_0` hang on it) and `var_2`,
keeps `var_0` -/
example : (ruFix ex1).2.map (·.bound) = [some (.var 0), none, none, none] := by decide
example : (ruFix ex1).2.map (·.asserts) = ex1.map (·.asserts) := by decide
/-- statement 1 raises its declared exception 5: wrapped, assertions still emitted; no xfail -/
example : (writeOne false true ex1 [⟨true, none⟩, ⟨true, some 5⟩, ⟨true, none⟩, ⟨true, none⟩]).2 =
    ⟨[.stmt 0 (some (.var 0)) [.ext "mod_0"], .assertion (.ref 1 (.var 0)), .assertion (.ref 2 (.var 0)),
      .raises 1 none [.ext "mod_0", .var 0] 5, .assertion (.ref 4 (.var 0)),
      .stmt 2 none [], .stmt 3 none [.ext "mod_0", .var 0], .assertion (.ref 5 (.ext "mod_0"))], false⟩ := by
  decide
/-- a history with a minimiser removal: statement 2 goes, the others keep their assertions -/
example : (history ex1 [.removeUnused, .removeFwd 2, .chop 5]).map AStmt.key =
    [ex1[0].key, ex1[1].key, ex1[3].key] := by decide

end PynguinModel.TestCaseAssert
