import PynguinModel.Lemmas.FitnessMerge
/-!
# C11 — Adding tests never lowers coverage or raises fitness; merging traces is order-independent

Property theorems only, about `merge` / `analyze` of `Model/Fitness.lean` (`ExecutionTrace.merge`,
`_merge_min`, `analyze_results`) and the suite-level fitness and coverage functions.  For all traces
satisfying `Shape` (unique dict keys / set elements, the three predicate dicts on one key set,
non-negative distances), all registries, all exclusion sets; no size bounds.

`Equiv` is equality of the coverage-relevant projection: the three `OrderedSet`s as sets, the three
dicts as finite maps (insertion order is *not* part of it — that is what differs between merge
orders).  `executed_instructions` / `executed_assertions` are order-dependent by design and are not
part of any modelled fitness or coverage function.
-/
namespace PynguinModel.Fitness

/-! ### Merging is commutative, associative and idempotent on the coverage-relevant projection -/

theorem merge_comm {t u : Trace} (ht : Shape t) (hu : Shape u) : Equiv (merge t u) (merge u t) := by
  unfold merge mergeMin
  refine ⟨?_, ?_, ?_, ?_, ?_, ?_⟩
  · intro x; simp only [mem_osUpdate]; exact Or.comm
  · intro k; rw [dget_mergeWith' _ _ _ hu.cnt_nodup, dget_mergeWith' _ _ _ ht.cnt_nodup, mergeOpt_addCnt_comm]
  · intro k; rw [dget_mergeWith' _ _ _ hu.dT_nodup, dget_mergeWith' _ _ _ ht.dT_nodup, mergeOpt_minDist_comm]
  · intro k; rw [dget_mergeWith' _ _ _ hu.dF_nodup, dget_mergeWith' _ _ _ ht.dF_nodup, mergeOpt_minDist_comm]
  · intro x; simp only [mem_osUpdate]; exact Or.comm
  · intro x; simp only [mem_osUpdate]; exact Or.comm

theorem merge_assoc (t : Trace) {u w : Trace} (hu : Shape u) (hw : Shape w) :
    Equiv (merge (merge t u) w) (merge t (merge u w)) := by
  unfold merge mergeMin
  refine ⟨?_, ?_, ?_, ?_, ?_, ?_⟩
  · intro x; simp only [mem_osUpdate]; exact or_assoc
  · intro k
    rw [dget_mergeWith' _ _ _ hw.cnt_nodup, dget_mergeWith' _ _ _ hu.cnt_nodup,
      dget_mergeWith' _ _ _ (keys_mergeWith_nodup _ _ _ hu.cnt_nodup), dget_mergeWith' _ _ _ hw.cnt_nodup,
      mergeOpt_addCnt_assoc]
  · intro k
    rw [dget_mergeWith' _ _ _ hw.dT_nodup, dget_mergeWith' _ _ _ hu.dT_nodup,
      dget_mergeWith' _ _ _ (keys_mergeWith_nodup _ _ _ hu.dT_nodup), dget_mergeWith' _ _ _ hw.dT_nodup,
      mergeOpt_minDist_assoc]
  · intro k
    rw [dget_mergeWith' _ _ _ hw.dF_nodup, dget_mergeWith' _ _ _ hu.dF_nodup,
      dget_mergeWith' _ _ _ (keys_mergeWith_nodup _ _ _ hu.dF_nodup), dget_mergeWith' _ _ _ hw.dF_nodup,
      mergeOpt_minDist_assoc]
  · intro x; simp only [mem_osUpdate]; exact or_assoc
  · intro x; simp only [mem_osUpdate]; exact or_assoc

/-- Merging a trace into itself changes nothing but the execution counts, which double. -/
theorem merge_idem {t : Trace} (ht : Shape t) :
    Equiv (merge t t) { t with cnt := mergeWith addCnt t.cnt t.cnt } ∧
    ∀ k, dget (mergeWith addCnt t.cnt t.cnt) k = (dget t.cnt k).map (fun c => c + c) := by
  constructor
  · unfold merge mergeMin
    refine ⟨?_, fun _ => rfl, ?_, ?_, ?_, ?_⟩
    · intro x; simp only [mem_osUpdate, or_self]
    · intro k; rw [dget_mergeWith' _ _ _ ht.dT_nodup, mergeOpt_minDist_self]
    · intro k; rw [dget_mergeWith' _ _ _ ht.dF_nodup, mergeOpt_minDist_self]
    · intro x; simp only [mem_osUpdate, or_self]
    · intro x; simp only [mem_osUpdate, or_self]
  · intro k; rw [dget_mergeWith' _ _ _ ht.cnt_nodup]
    cases dget t.cnt k <;> simp [mergeOpt, addCnt]

/-- The empty trace is a left unit (`analyze_results` starts from `ExecutionTrace()`). -/
theorem merge_empty {t : Trace} (ht : Shape t) : Equiv (merge Trace.empty t) t := merge_empty_left ht

/-! ### `Shape` is an invariant of the merge API -/

theorem merge_preserves_shape {t u : Trace} (ht : Shape t) (hu : Shape u) : Shape (merge t u) :=
  shape_merge ht hu

theorem analyze_preserves_shape {ts : List Trace} (h : ∀ t ∈ ts, Shape t) : Shape (analyze ts) :=
  shape_analyze h

theorem analyze_preserves_valid {r : Registry} {ts : List Trace} (h : ∀ t ∈ ts, Shape t)
    (hv : ∀ t ∈ ts, Valid r t) : Valid r (analyze ts) := valid_analyze h hv

/-! ### Every suite-level value depends only on the projection -/

theorem equiv_observables {t u : Trace} (ht : Shape t) (hu : Shape u) (h : Equiv t u) (r : Registry)
    (exCode exT exF : List Nat) :
    branchFitness t r exCode exT exF = branchFitness u r exCode exT exF ∧
    branchIsCovered t r exCode exT exF = branchIsCovered u r exCode exT exF ∧
    branchCoverage t r = branchCoverage u r ∧
    lineCoverage t r = lineCoverage u r ∧ checkedCoverage t r = checkedCoverage u r ∧
    lineSuiteFitness t r = lineSuiteFitness u r ∧ checkedSuiteFitness t r = checkedSuiteFitness u r ∧
    lineIsCovered t r = lineIsCovered u r ∧ checkedIsCovered t r = checkedIsCovered u r := by
  obtain ⟨hl, hc⟩ := lines_length_congr ht hu h
  refine ⟨branchFitness_congr h r exCode exT exF, branchIsCovered_congr h r exCode exT exF, ?_, ?_, ?_, ?_, ?_, ?_, ?_⟩
  · unfold branchCoverage; rw [branchCovered_congr ht hu h]
  · unfold lineCoverage; rw [hl]
  · unfold checkedCoverage; rw [hc]
  · unfold lineSuiteFitness; rw [hl]
  · unfold checkedSuiteFitness; rw [hc]
  · unfold lineIsCovered; rw [hl]
  · unfold checkedIsCovered; rw [hc]

/-! ### Order independence of `analyze_results` -/

private theorem foldl_merge_congr {l : List Trace} (hl : ∀ t ∈ l, Shape t) {a a' : Trace} (ha : Shape a)
    (ha' : Shape a') (h : Equiv a a') : Equiv (l.foldl merge a) (l.foldl merge a') := by
  induction l generalizing a a' with
  | nil => exact h
  | cons x l ih =>
    have hx := hl x (by simp)
    simp only [List.foldl_cons]
    exact ih (fun t ht => hl t (by simp [ht])) (shape_merge ha hx) (shape_merge ha' hx)
      (merge_congr hx hx h (Equiv.refl x))

private theorem foldl_merge_perm {l l' : List Trace} (hp : l.Perm l') (hl : ∀ t ∈ l, Shape t)
    {a a' : Trace} (ha : Shape a) (ha' : Shape a') (h : Equiv a a') :
    Equiv (l.foldl merge a) (l'.foldl merge a') := by
  induction hp generalizing a a' with
  | nil => exact h
  | cons x _ ih =>
    have hx := hl x (by simp)
    simp only [List.foldl_cons]
    exact ih (fun t ht => hl t (by simp [ht])) (shape_merge ha hx) (shape_merge ha' hx)
      (merge_congr hx hx h (Equiv.refl x))
  | swap x y l =>
    have hx := hl x (by simp)
    have hy := hl y (by simp)
    have hrest : ∀ t ∈ l, Shape t := fun t ht => hl t (by simp [ht])
    simp only [List.foldl_cons]
    have e : Equiv (merge (merge a y) x) (merge (merge a' x) y) :=
      (merge_assoc a hy hx).trans
        ((merge_congr (shape_merge hy hx) (shape_merge hx hy) h (merge_comm hy hx)).trans
          (merge_assoc a' hx hy).symm)
    exact foldl_merge_congr hrest (shape_merge (shape_merge ha hy) hx) (shape_merge (shape_merge ha' hx) hy) e
  | trans hp₁ _ ih₁ ih₂ =>
    have hl₂ : ∀ t ∈ _, Shape t := fun t ht => hl t (hp₁.mem_iff.2 ht)
    exact (ih₁ hl ha ha' h).trans (ih₂ hl₂ ha' ha' (Equiv.refl _))

/-- **C11, order independence**: merging the traces of a suite in any order gives the same
coverage-relevant projection. -/
theorem analyze_perm {ts ts' : List Trace} (hp : ts.Perm ts') (h : ∀ t ∈ ts, Shape t) :
    Equiv (analyze ts) (analyze ts') :=
  foldl_merge_perm hp h shape_empty shape_empty (Equiv.refl _)

/-- Grouping does not matter either: merging two sub-suites' merged traces equals merging all. -/
theorem analyze_append {ts us : List Trace} (h : ∀ t ∈ ts, Shape t) (hu : ∀ t ∈ us, Shape t) :
    Equiv (merge (analyze ts) (analyze us)) (analyze (ts ++ us)) := by
  have key : ∀ (us : List Trace), (∀ t ∈ us, Shape t) → ∀ (a b : Trace), Shape a → Shape b →
      Equiv (merge a (us.foldl merge b)) (us.foldl merge (merge a b)) := by
    intro us
    induction us with
    | nil => intro _ a b _ _; exact Equiv.refl _
    | cons x us ih =>
      intro hus a b ha hb
      have hx := hus x (by simp)
      have hrest : ∀ t ∈ us, Shape t := fun t ht => hus t (by simp [ht])
      simp only [List.foldl_cons]
      exact (ih hrest a (merge b x) ha (shape_merge hb hx)).trans
        (foldl_merge_congr hrest (shape_merge ha (shape_merge hb hx)) (shape_merge (shape_merge ha hb) hx)
          (merge_assoc a hb hx).symm)
  have hs := shape_analyze h
  have e : analyze (ts ++ us) = us.foldl merge (analyze ts) := by simp [analyze, List.foldl_append]
  rw [e]
  exact (key us hu (analyze ts) Trace.empty hs shape_empty).trans
    (foldl_merge_congr hu (shape_merge hs shape_empty) hs
      ((merge_comm hs shape_empty).trans (merge_empty_left hs)))

/-- … hence every suite-level fitness, coverage and verdict is independent of the merge order. -/
theorem order_independent {ts ts' : List Trace} (hp : ts.Perm ts') (h : ∀ t ∈ ts, Shape t) (r : Registry)
    (exCode exT exF : List Nat) :
    branchFitness (analyze ts) r exCode exT exF = branchFitness (analyze ts') r exCode exT exF ∧
    branchIsCovered (analyze ts) r exCode exT exF = branchIsCovered (analyze ts') r exCode exT exF ∧
    branchCoverage (analyze ts) r = branchCoverage (analyze ts') r ∧
    lineCoverage (analyze ts) r = lineCoverage (analyze ts') r ∧
    checkedCoverage (analyze ts) r = checkedCoverage (analyze ts') r ∧
    lineSuiteFitness (analyze ts) r = lineSuiteFitness (analyze ts') r ∧
    checkedSuiteFitness (analyze ts) r = checkedSuiteFitness (analyze ts') r ∧
    lineIsCovered (analyze ts) r = lineIsCovered (analyze ts') r ∧
    checkedIsCovered (analyze ts) r = checkedIsCovered (analyze ts') r :=
  equiv_observables (shape_analyze h) (shape_analyze (fun t ht => h t (hp.mem_iff.2 ht)))
    (analyze_perm hp h) r exCode exT exF

/-! ### Fitness is antitone and coverage monotone under merge -/

theorem merge_covers_both {t u : Trace} (hu : Shape u) : Below (merge t u) t ∧ Below (merge t u) u :=
  ⟨below_merge_left hu, below_merge_right hu⟩

/-- **C11, branch fitness**: the merged trace's fitness is at most the fitness of either part, for
all exclusion sets; none of the three computations raises. -/
theorem merge_fitness_antitone {t u : Trace} (ht : Shape t) (hu : Shape u) (r : Registry)
    (exCode exT exF : List Nat) :
    ∃ v v₁ v₂, branchFitness (merge t u) r exCode exT exF = .ok v ∧
      branchFitness t r exCode exT exF = .ok v₁ ∧ branchFitness u r exCode exT exF = .ok v₂ ∧
      v ≤ v₁ ∧ v ≤ v₂ :=
  have hm := shape_merge ht hu
  ⟨_, _, _, branchFitness_eq hm r exCode exT exF, branchFitness_eq ht r exCode exT exF,
    branchFitness_eq hu r exCode exT exF,
    branchFitnessPure_antitone ht hm (below_merge_left hu) r exCode exT exF,
    branchFitnessPure_antitone hu hm (below_merge_right hu) r exCode exT exF⟩

/-- **C11, line and checked fitness** (`len(existing_lines) - len(covered)`). -/
theorem merge_line_fitness_antitone {t u : Trace} (ht : Shape t) (hu : Shape u) (r : Registry) :
    lineSuiteFitness (merge t u) r ≤ lineSuiteFitness t r ∧
    lineSuiteFitness (merge t u) r ≤ lineSuiteFitness u r ∧
    checkedSuiteFitness (merge t u) r ≤ checkedSuiteFitness t r ∧
    checkedSuiteFitness (merge t u) r ≤ checkedSuiteFitness u r := by
  have hm := shape_merge ht hu
  obtain ⟨a, b⟩ := lines_length_monotone ht hm (below_merge_left hu)
  obtain ⟨c, d⟩ := lines_length_monotone hu hm (below_merge_right hu)
  unfold lineSuiteFitness checkedSuiteFitness; omega

/-- **C11, coverage**: branch, line and checked coverage of the merged trace are at least those of
either part; none of the computations raises. -/
theorem merge_coverage_monotone {r : Registry} {t u : Trace} (hr : RWF r) (ht : Shape t) (hu : Shape u)
    (hvt : Valid r t) (hvu : Valid r u) :
    (∃ c c₁ c₂, branchCoverage (merge t u) r = .ok c ∧ branchCoverage t r = .ok c₁ ∧
      branchCoverage u r = .ok c₂ ∧ c₁ ≤ c ∧ c₂ ≤ c) ∧
    (∃ c c₁ c₂, lineCoverage (merge t u) r = .ok c ∧ lineCoverage t r = .ok c₁ ∧
      lineCoverage u r = .ok c₂ ∧ c₁ ≤ c ∧ c₂ ≤ c) ∧
    (∃ c c₁ c₂, checkedCoverage (merge t u) r = .ok c ∧ checkedCoverage t r = .ok c₁ ∧
      checkedCoverage u r = .ok c₂ ∧ c₁ ≤ c ∧ c₂ ≤ c) := by
  have hm := shape_merge ht hu
  have hvm := valid_merge hu hvt hvu
  have bl := below_merge_left (t := t) hu
  have br := below_merge_right (t := t) hu
  obtain ⟨a, b⟩ := lines_length_monotone ht hm bl
  obtain ⟨c, d⟩ := lines_length_monotone hu hm br
  refine ⟨⟨_, _, _, ratio_eq (branchCovered_le hr hm hvm), ratio_eq (branchCovered_le hr ht hvt),
      ratio_eq (branchCovered_le hr hu hvu),
      ratioPure_mono (branchCovered_monotone hr ht hm hvt hvm bl),
      ratioPure_mono (branchCovered_monotone hr hu hm hvu hvm br)⟩,
    ⟨_, _, _, ratio_eq (length_le_of_nodup_subset hm.lines_nodup hr.lines_nodup hvm.lines_sub),
      ratio_eq (length_le_of_nodup_subset ht.lines_nodup hr.lines_nodup hvt.lines_sub),
      ratio_eq (length_le_of_nodup_subset hu.lines_nodup hr.lines_nodup hvu.lines_sub),
      ratioPure_mono a, ratioPure_mono c⟩,
    ⟨_, _, _, ratio_eq (length_le_of_nodup_subset hm.checked_nodup hr.lines_nodup hvm.checked_sub),
      ratio_eq (length_le_of_nodup_subset ht.checked_nodup hr.lines_nodup hvt.checked_sub),
      ratio_eq (length_le_of_nodup_subset hu.checked_nodup hr.lines_nodup hvu.checked_sub),
      ratioPure_mono b, ratioPure_mono d⟩⟩

/-- A covered verdict is never lost by merging. -/
theorem merge_covered_monotone {t u : Trace} (ht : Shape t) (hu : Shape u) (r : Registry)
    (exCode exT exF : List Nat) (h : branchIsCovered t r exCode exT exF = true) :
    branchIsCovered (merge t u) r exCode exT exF = true ∧ branchIsCovered (merge u t) r exCode exT exF = true := by
  have key : ∀ t' : Trace, Shape t' → Below t' t → branchIsCovered t' r exCode exT exF = true := by
    intro t' ht' hb
    unfold branchIsCovered at h ⊢
    simp only [Bool.decide_and, decide_not, List.any_eq_true, Bool.and_eq_true, Bool.not_eq_eq_eq_not,
      Bool.not_true, decide_eq_false_iff_not, Bool.if_false_left, not_exists, not_and, Decidable.not_not,
      List.all_eq_true, Bool.or_eq_true, decide_eq_true_eq] at h ⊢
    refine ⟨fun c hc hx => h.1 c hc (fun hx' => hx (hb.code c hx')), fun p hp => ?_⟩
    obtain ⟨h1, h2⟩ := h.2 p hp
    exact ⟨h1.imp id (zeroAt_of_below ht'.nonnegT hb.dT), h2.imp id (zeroAt_of_below ht'.nonnegF hb.dF)⟩
  exact ⟨key _ (shape_merge ht hu) (below_merge_left hu), key _ (shape_merge hu ht) (below_merge_right ht)⟩

/-- The line / checked verdicts (`len(covered) == len(existing_lines)`) are never lost either, for
valid traces. -/
theorem merge_line_covered_monotone {r : Registry} {t u : Trace} (hr : RWF r) (ht : Shape t) (hu : Shape u)
    (hvt : Valid r t) (hvu : Valid r u) :
    (lineIsCovered t r = true → lineIsCovered (merge t u) r = true ∧ lineIsCovered (merge u t) r = true) ∧
    (checkedIsCovered t r = true →
      checkedIsCovered (merge t u) r = true ∧ checkedIsCovered (merge u t) r = true) := by
  have hm := shape_merge ht hu
  have hm' := shape_merge hu ht
  have hvm := valid_merge hu hvt hvu
  have hvm' := valid_merge ht hvu hvt
  obtain ⟨a, b⟩ := lines_length_monotone ht hm (below_merge_left hu)
  obtain ⟨a', b'⟩ := lines_length_monotone ht hm' (below_merge_right ht)
  have c := length_le_of_nodup_subset hm.lines_nodup hr.lines_nodup hvm.lines_sub
  have c' := length_le_of_nodup_subset hm'.lines_nodup hr.lines_nodup hvm'.lines_sub
  have d := length_le_of_nodup_subset hm.checked_nodup hr.lines_nodup hvm.checked_sub
  have d' := length_le_of_nodup_subset hm'.checked_nodup hr.lines_nodup hvm'.checked_sub
  unfold lineIsCovered checkedIsCovered
  simp only [decide_eq_true_eq]
  constructor <;> intro h <;> constructor <;> omega

/-! ### The `>= 2 executions` rule of `_predicate_fitness`, summand by summand -/

/-- An outcome without guidance (distance `inf`: `if obj:`, `is`, exception / isinstance matches,
incomparable operands) contributes exactly `1`, whatever the execution count — in particular when the
count is `>= 2` and `normalise` is applied (its `isinf` case); it never raises. -/
theorem predicate_fitness_inf (p : Nat) (bd : Dict Dist) (t : Trace) (h : dget bd p = some .inf) :
    predicateFitness p bd t = .ok 1 := by
  unfold predicateFitness zeroAt
  simp only [h, Dist.isZero, Bool.false_eq_true, if_false]
  cases dget t.cnt p with
  | none => rfl
  | some c => by_cases h2 : 2 ≤ c <;> simp [h2, normalise]

/-- **C11, `_predicate_fitness`**: every summand of the merged trace (either outcome of any predicate)
is computed without an exception, lies in `[0, 1]` and is at most the corresponding summand of either
part — for all execution counts (also when merging lifts a count from 1 to `>= 2`, which switches the
summand from the constant `1` to `normalise(distance)`) and all distances (also `inf`). -/
theorem merge_predicate_fitness_antitone {t u : Trace} (ht : Shape t) (hu : Shape u) (p : Nat) :
    (∃ v v₁ v₂, predicateFitness p (merge t u).dT (merge t u) = .ok v ∧
      predicateFitness p t.dT t = .ok v₁ ∧ predicateFitness p u.dT u = .ok v₂ ∧
      0 ≤ v ∧ v ≤ v₁ ∧ v ≤ v₂ ∧ v₁ ≤ 1 ∧ v₂ ≤ 1) ∧
    (∃ v v₁ v₂, predicateFitness p (merge t u).dF (merge t u) = .ok v ∧
      predicateFitness p t.dF t = .ok v₁ ∧ predicateFitness p u.dF u = .ok v₂ ∧
      0 ≤ v ∧ v ≤ v₁ ∧ v ≤ v₂ ∧ v₁ ≤ 1 ∧ v₂ ≤ 1) := by
  have hm := shape_merge ht hu
  have bl := below_merge_left (t := t) hu
  have br := below_merge_right (t := t) hu
  exact
    ⟨⟨_, _, _, predicateFitness_eq hm.keysT hm.nonnegT p, predicateFitness_eq ht.keysT ht.nonnegT p,
        predicateFitness_eq hu.keysT hu.nonnegT p, pfPure_nonneg hm.keysT hm.nonnegT p,
        pfPure_antitone ht.keysT ht.nonnegT hm.keysT hm.nonnegT bl.cnt bl.dT p,
        pfPure_antitone hu.keysT hu.nonnegT hm.keysT hm.nonnegT br.cnt br.dT p,
        pfPure_le_one ht.keysT ht.nonnegT p, pfPure_le_one hu.keysT hu.nonnegT p⟩,
      ⟨_, _, _, predicateFitness_eq hm.keysF hm.nonnegF p, predicateFitness_eq ht.keysF ht.nonnegF p,
        predicateFitness_eq hu.keysF hu.nonnegF p, pfPure_nonneg hm.keysF hm.nonnegF p,
        pfPure_antitone ht.keysF ht.nonnegF hm.keysF hm.nonnegF bl.cnt bl.dF p,
        pfPure_antitone hu.keysF hu.nonnegF hm.keysF hm.nonnegF br.cnt br.dF p,
        pfPure_le_one ht.keysF ht.nonnegF p, pfPure_le_one hu.keysF hu.nonnegF p⟩⟩

/-! ### Adding a test to a suite -/

/-- **C11**: for any suite `ts` and any additional test `t`, every suite fitness of `ts ++ [t]` is at
most that of `ts`, and every coverage at least that of `ts`. -/
theorem suite_add_test {r : Registry} {ts : List Trace} {t : Trace} (hr : RWF r)
    (hts : ∀ u ∈ ts, Shape u) (ht : Shape t) (hvs : ∀ u ∈ ts, Valid r u) (hvt : Valid r t)
    (exCode exT exF : List Nat) :
    (∃ v v', branchFitness (analyze (ts ++ [t])) r exCode exT exF = .ok v' ∧
      branchFitness (analyze ts) r exCode exT exF = .ok v ∧ v' ≤ v) ∧
    lineSuiteFitness (analyze (ts ++ [t])) r ≤ lineSuiteFitness (analyze ts) r ∧
    checkedSuiteFitness (analyze (ts ++ [t])) r ≤ checkedSuiteFitness (analyze ts) r ∧
    (∃ c c', branchCoverage (analyze (ts ++ [t])) r = .ok c' ∧ branchCoverage (analyze ts) r = .ok c ∧ c ≤ c') ∧
    (∃ c c', lineCoverage (analyze (ts ++ [t])) r = .ok c' ∧ lineCoverage (analyze ts) r = .ok c ∧ c ≤ c') ∧
    (∃ c c', checkedCoverage (analyze (ts ++ [t])) r = .ok c' ∧ checkedCoverage (analyze ts) r = .ok c ∧ c ≤ c') := by
  have e : analyze (ts ++ [t]) = merge (analyze ts) t := by simp [analyze, List.foldl_append]
  rw [e]
  have hs := shape_analyze hts
  have hv := valid_analyze hts hvs
  obtain ⟨v', v, _, h1, h2, _, h3, _⟩ := merge_fitness_antitone hs ht r exCode exT exF
  obtain ⟨l1, _, l2, _⟩ := merge_line_fitness_antitone hs ht r
  obtain ⟨⟨c', c, _, b1, b2, _, b3, _⟩, ⟨d', d, _, d1, d2, _, d3, _⟩, ⟨e', e₀, _, e1, e2, _, e3, _⟩⟩ :=
    merge_coverage_monotone hr hs ht hv hvt
  exact ⟨⟨v, v', h1, h2, h3⟩, l1, l2, ⟨c, c', b1, b2, b3⟩, ⟨d, d', d1, d2, d3⟩, ⟨e₀, e', e1, e2, e3⟩⟩

/-! ### Non-vacuity -/

/-- two traces that disagree on which outcome of predicate 0 they reached -/
def exA : Trace := ⟨[0], [(0, 1)], [(0, .fin 0)], [(0, .fin 3)], [0], []⟩
def exB : Trace := ⟨[0, 1], [(0, 1), (1, 1)], [(0, .fin 7), (1, .inf)], [(0, .fin 0), (1, .fin 0)], [2, 0], [2]⟩
def exReg : Registry := ⟨[⟨0, 2, []⟩, ⟨1, 2, []⟩, ⟨2, 0, []⟩], [⟨0, 0, 0⟩, ⟨1, 1, 0⟩], [0, 1, 2]⟩

example : Shape exA ∧ Shape exB := by
  constructor
  · refine ⟨by decide, by decide, by decide, by decide, by decide, by decide, ?_, ?_, ?_, ?_⟩
    · intro k; simp only [exA, dget]; split <;> rfl
    · intro k; simp only [exA, dget]; split <;> rfl
    · intro k v; simp only [exA, dget]; split <;> intro h <;> cases h; decide
    · intro k v; simp only [exA, dget]; split <;> intro h <;> cases h; decide
  · refine ⟨by decide, by decide, by decide, by decide, by decide, by decide, ?_, ?_, ?_, ?_⟩
    · intro k; simp only [exB, dget]; repeat' split
      all_goals rfl
    · intro k; simp only [exB, dget]; repeat' split
      all_goals rfl
    · intro k v; simp only [exB, dget]; repeat' split
      all_goals (intro h; cases h <;> decide)
    · intro k v; simp only [exB, dget]; repeat' split
      all_goals (intro h; cases h <;> decide)

/-- the two merge orders give different dict orders but the same fitness 1 + 0 + (1 + 0) + 1 … -/
example : (merge exA exB).lines ≠ (merge exB exA).lines ∧
    branchFitness (merge exA exB) exReg [] [] [] = branchFitness (merge exB exA) exReg [] [] [] ∧
    branchFitness (merge exA exB) exReg [] [] [] = .ok 2 ∧
    branchFitness exA exReg [] [] [] = .ok 4 ∧ branchFitness exB exReg [] [] [] = .ok 3 := by
  refine ⟨by decide, by decide +kernel, by decide +kernel, by decide +kernel, by decide +kernel⟩

/-- `if obj:` executed once by each of two tests: no guidance towards the false outcome (`inf`). -/
def exI : Trace := ⟨[0], [(0, 1)], [(0, .fin 0)], [(0, .inf)], [0], []⟩

/-- merging lifts the count to 2, the distance stays `inf`, and the summand stays 1 (not `inf/inf`):
the suite fitness is 1 before and after adding the second test -/
example : dget (merge exI exI).cnt 0 = some 2 ∧ dget (merge exI exI).dF 0 = some .inf ∧
    predicateFitness 0 (merge exI exI).dF (merge exI exI) = .ok 1 ∧
    predicateFitness 0 exI.dF exI = .ok 1 ∧
    branchFitness (analyze [exI]) ⟨[⟨0, 2, []⟩], [⟨0, 0, 0⟩], [0]⟩ [] [] [] = .ok 1 ∧
    branchFitness (analyze [exI, exI]) ⟨[⟨0, 2, []⟩], [⟨0, 0, 0⟩], [0]⟩ [] [] [] = .ok 1 := by
  refine ⟨by decide, by decide, by decide +kernel, by decide +kernel, by decide +kernel, by decide +kernel⟩

end PynguinModel.Fitness
