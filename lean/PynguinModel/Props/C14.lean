import PynguinModel.Lemmas.Ranking
import PynguinModel.Lemmas.RankSelection
/-!
# C14 — ranking and selection operators honour their contracts

Property: for any population and goal set, the first front holds a best individual for every uncovered
goal, each later front is exactly the set of non-dominated individuals among those not yet ranked,
crowding distances lie in [0, 1), and rank selection with any bias in the documented range
(`[1.0, 2.0]`, above 2.0 "cutting off the lower ranked") returns an index inside the population and never
prefers a worse rank over a better one.

Model: `Model/Ranking.lean` (mirrors comparator.py, ranking.py, `RankSelection.get_index` with
`proposed_fixes/C14-rank-selection-bias-one-and-clamp.diff`).  All theorems are for arbitrary populations,
goal lists, coin flips, configured population sizes, biases and draws.  The selection theorems are over
the reals (`Real.sqrt`); `rank_index_model_is_real` ties the executable rational model used by the
correspondence run to them; IEEE rounding is outside the theorems (the final `min` of the repaired code
is covered for every possible rounded value by `rank_index_clamped`).
-/
namespace PynguinModel.Ranking

/-! ## comparators -/

/-- `DominanceComparator.compare` (with its early exits) decides Pareto dominance on the given goals:
`-1` iff the first dominates, `1` iff the second dominates, `0` otherwise. -/
theorem dominance_comparator_spec (gs : List Nat) (a b : Ind) :
    (domCompare gs (some a) (some b) = -1 ↔ Dominates gs a b) ∧
    (domCompare gs (some a) (some b) = 1 ↔ Dominates gs b a) ∧
    (domCompare gs (some a) (some b) = 0 ↔ ¬ Dominates gs a b ∧ ¬ Dominates gs b a) := by
  refine ⟨domCompare_neg_iff gs a b, domCompare_pos_iff gs a b, ?_⟩
  rw [← domCompare_neg_iff, ← domCompare_pos_iff]
  rcases domCompare_range gs a b with h | h | h <;> simp [h]

/-- Dominance is a strict partial order (what makes "non-dominated among the rest" well defined and the
incremental scan of `_get_non_dominated_solutions` correct). -/
theorem dominance_strict_partial_order (gs : List Nat) :
    (∀ a, ¬ Dominates gs a a) ∧ (∀ a b c, Dominates gs a b → Dominates gs b c → Dominates gs a c) ∧
    (∀ a b, Dominates gs a b → ¬ Dominates gs b a) :=
  ⟨Dominates.irrefl gs, fun _ _ _ h1 h2 => h1.trans h2, fun _ _ h => h.asymm⟩

/-! ## first front -/

/-- `_get_zero_front` on a non-empty population never trips its assertion, returns members of the
population only, and for EVERY uncovered goal the result holds an individual whose fitness for that goal
is minimal in the whole population (and which is shortest among those of minimal fitness) — whatever
the coin flips. -/
theorem zero_front_has_best (sols : List Ind) (goals : List Nat) (flips : List Bool) (hne : sols ≠ []) :
    ∃ zf fl, zeroFront sols goals [] flips = some (zf, fl) ∧ (∀ a ∈ zf, a ∈ sols) ∧
      ∀ g ∈ goals, ∃ b ∈ zf, ∀ t ∈ sols,
        fitOf b g ≤ fitOf t g ∧ (fitOf b g = fitOf t g → b.len ≤ t.len) := by
  obtain ⟨zf, fl, h, _, hsrc, hbest⟩ := zeroFront_spec sols hne goals [] flips
  refine ⟨zf, fl, h, fun a ha => ?_, fun g hg => ?_⟩
  · rcases hsrc a ha with h | h
    · cases h
    · exact h
  · obtain ⟨b, hb, _, hall⟩ := hbest g hg
    refine ⟨b, hb, fun t ht => ?_⟩
    have := hall t ht
    unfold prefLe at this
    constructor
    · grind
    · intro heq; grind

/-! ## later fronts -/

/-- `_get_non_dominated_solutions` returns exactly the members that no member dominates — same order,
same multiplicity (soundness and completeness of the incremental scan with its removals). -/
theorem non_dominated_solutions_exact (gs : List Nat) (sols : List Ind) :
    nonDominated gs sols = sols.filter (fun a => !sols.any fun b => decide (Dominates gs b a)) ∧
    ∀ a, a ∈ nonDominated gs sols ↔ a ∈ sols ∧ ∀ b ∈ sols, ¬ Dominates gs b a := by
  refine ⟨nonDominated_eq_ndFilter gs sols, fun a => ?_⟩
  rw [nonDominated_eq_ndFilter]; exact mem_ndFilter gs sols a

/-- Each front of the list is exactly the non-dominated part of what is not yet ranked (`rem`), and the
next front is computed from `rem` minus this front. -/
def FrontsExact (gs : List Nat) : List Ind → List (List Ind) → Prop
  | _, [] => True
  | rem, f :: fs => f = ndFilter gs rem ∧ FrontsExact gs (removeAll rem f) fs

instance (gs : List Nat) : ∀ rem fs, Decidable (FrontsExact gs rem fs)
  | _, [] => isTrue trivial
  | rem, f :: fs =>
    have : Decidable (FrontsExact gs (removeAll rem f) fs) := instDecidableFrontsExact gs _ fs
    by unfold FrontsExact; exact inferInstance

theorem FrontsOK.exact {gs : List Nat} : ∀ {rem fs}, FrontsOK gs rem fs → FrontsExact gs rem fs
  | _, [], _ => trivial
  | _, _ :: _, ⟨h1, _, h3⟩ => ⟨h1, FrontsOK.exact h3⟩

/-- The property at full strength for the later fronts: whatever `compute_ranking_assignment` returns,
every front after the first is exactly the non-dominated set of the not yet ranked individuals. -/
def C14_fronts_full : Prop :=
  ∀ sols goals population flips fs fl, computeRanking sols goals population flips = .fronts fs fl →
    ∃ f0 rest, fs = f0 :: rest ∧ FrontsExact goals (removeAll sols f0) rest

/-- What the code does, for all inputs: the result is never the assertion / iteration-bound outcome,
it is `RankedFronts()` only for the empty population; otherwise the first front is `_get_zero_front`;
if it is smaller than the configured population, the later fronts are exactly the successive
non-dominated sets, none of them empty, and the loop stops only when everything is ranked or the
configured population size is reached; otherwise (`len(zero_front) >= population`) ALL remaining
individuals form front 1 without any dominance sorting. -/
theorem ranking_fronts_partial (sols : List Ind) (goals : List Nat) (population : Nat)
    (flips : List Bool) :
    computeRanking sols goals population flips ≠ .assertion ∧
    computeRanking sols goals population flips ≠ .bound ∧
    (computeRanking sols goals population flips = .empty ↔ sols = []) ∧
    ∀ fs fl, computeRanking sols goals population flips = .fronts fs fl →
      ∃ f0 rest, fs = f0 :: rest ∧ zeroFront sols goals [] flips = some (f0, fl) ∧
        (f0.length < population →
          FrontsExact goals (removeAll sols f0) rest ∧ (∀ f ∈ rest, f ≠ []) ∧
          (population ≤ f0.length + (rest.map List.length).sum ∨
            rest.foldl removeAll (removeAll sols f0) = [])) ∧
        (population ≤ f0.length → rest = [removeAll sols f0]) := by
  unfold computeRanking
  cases hs : sols with
  | nil => simp
  | cons x xs =>
    rw [← hs]
    have hne : sols ≠ [] := by simp [hs]
    have hemp : sols.isEmpty = false := by simp [hs]
    simp only [hemp, Bool.false_eq_true, if_false]
    obtain ⟨zf, fl, hzf, -, -, -⟩ := zeroFront_spec sols hne goals [] flips
    rw [hzf]
    simp only
    by_cases hlt : zf.length < population
    · simp only [hlt, if_true]
      have hlen : (removeAll sols zf).length < sols.length + 1 :=
        Nat.lt_succ_of_le (removeAll_length_le zf sols)
      obtain ⟨fs, hfs⟩ := rankLoop_terminates goals population _ _ zf.length hlen
      rw [hfs]
      obtain ⟨hok, hstop⟩ := rankLoop_spec goals population _ _ _ _ hfs
      refine ⟨by simp, by simp, by simpa using hne, ?_⟩
      intro fs' fl' h
      cases h
      refine ⟨zf, fs, rfl, rfl, fun _ => ⟨hok.exact, ?_, hstop⟩, fun h => absurd hlt (by omega)⟩
      -- every front produced by the loop is non-empty
      clear hfs hstop hlen
      generalize removeAll sols zf = rem at hok
      induction fs generalizing rem with
      | nil => simp
      | cons f fs ih =>
        obtain ⟨_, h2, h3⟩ := hok
        intro f' hf'
        rcases List.mem_cons.1 hf' with rfl | hf'
        · exact h2
        · exact ih _ h3 f' hf'
    · simp only [hlt, if_false]
      refine ⟨by simp, by simp, by simpa using hne, ?_⟩
      intro fs' fl' h
      cases h
      exact ⟨zf, [removeAll sols zf], rfl, rfl, fun h => absurd h hlt, fun _ => rfl⟩

/-- Consequence for the first front of `compute_ranking_assignment` itself. -/
theorem ranking_first_front_has_best (sols : List Ind) (goals : List Nat) (population : Nat)
    (flips : List Bool) (fs : List (List Ind)) (fl : List Bool)
    (h : computeRanking sols goals population flips = .fronts fs fl) :
    ∃ f0 rest, fs = f0 :: rest ∧ (∀ a ∈ f0, a ∈ sols) ∧
      ∀ g ∈ goals, ∃ b ∈ f0, ∀ t ∈ sols, fitOf b g ≤ fitOf t g := by
  have hne : sols ≠ [] := by
    intro h0
    have := ((ranking_fronts_partial sols goals population flips).2.2.1).2 h0
    rw [this] at h; cases h
  obtain ⟨f0, rest, hfs, hzf, -, -⟩ := (ranking_fronts_partial sols goals population flips).2.2.2 fs fl h
  obtain ⟨zf, fl', hzf', hsub, hbest⟩ := zero_front_has_best sols goals flips hne
  rw [hzf] at hzf'
  cases hzf'
  refine ⟨f0, rest, hfs, hsub, fun g hg => ?_⟩
  obtain ⟨b, hb, hall⟩ := hbest g hg
  exact ⟨b, hb, fun t ht => (hall t ht).1⟩

/-- a chain `a < b < c` on one goal -/
def cexSols : List Ind := [⟨1, 1, [0]⟩, ⟨2, 1, [1]⟩, ⟨3, 1, [2]⟩]

/-- The unchanged code does NOT satisfy the full statement: with `population = 1` the zero front `[a]`
already fills the population and front 1 is `[b, c]` although `b` dominates `c`
(recorded as known finding `zero-front-fills-population-rest-unsorted`; by design of MOSA's
preference sorting, the rest is never used for the next generation). -/
theorem ranking_fronts_cex : ¬ C14_fronts_full := by
  intro h
  have hrun : computeRanking cexSols [0] 1 [] =
      .fronts [[⟨1, 1, [0]⟩], [⟨2, 1, [1]⟩, ⟨3, 1, [2]⟩]] [] := by decide +kernel
  obtain ⟨f0, rest, hfs, hok⟩ := h cexSols [0] 1 [] _ _ hrun
  cases hfs
  exact absurd hok (by decide +kernel)

/-- non-vacuity of `ranking_fronts_partial`'s sorting branch: three fronts on a concrete population -/
example : computeRanking cexSols [0] 10 [] =
    .fronts [[⟨1, 1, [0]⟩], [⟨2, 1, [1]⟩], [⟨3, 1, [2]⟩]] [] := by decide +kernel

/-! ## crowding distance -/

/-- `fast_epsilon_dominance_assignment`: every assigned distance lies in `[0, 1)` — for any front, any
goal list, any fitness values and any `sys.float_info.max`. -/
theorem crowding_in_unit (fmax : Rat) (front : List Ind) (goals : List Nat) :
    ∀ d ∈ crowding fmax front goals, 0 ≤ d ∧ d < 1 := by
  unfold crowding
  apply crowding_unit
  intro d hd
  simp only [List.mem_map] at hd
  obtain ⟨_, _, rfl⟩ := hd
  exact ⟨Rat.le_refl, by decide⟩

/-- non-vacuity: a front where the distances 2/3 and 1/3 are assigned -/
example : crowding 1000 [⟨1, 1, [0, 1]⟩, ⟨2, 1, [1, 0]⟩, ⟨3, 1, [1, 0]⟩] [0, 1] = [2/3, 1/3, 1/3] := by
  decide +kernel

/-! ## rank selection (real-valued analysis of the repaired `get_index`) -/

/-- The position lies in `[0, cap)` with `cap = 1` for `bias ≤ 2` and `cap = 1/(bias-1) < 1` above. -/
theorem rank_position_in_range (b r : ℝ) (hb : 1 ≤ b) (hr0 : 0 ≤ r) (hr1 : r < 1) :
    0 ≤ positionR b r ∧ positionR b r < capR b ∧ capR b ≤ 1 :=
  ⟨positionR_nonneg b r hb hr0, positionR_lt_cap b r hb hr1, capR_le_one b⟩

/-- For every bias `≥ 1` (the documented `[1, 2]` and above), every draw in `[0, 1)` and every non-empty
population the index `⌊n · position⌋` lies inside the population. -/
theorem rank_index_in_population (b r : ℝ) (n : ℕ) (hb : 1 ≤ b) (hr0 : 0 ≤ r) (hr1 : r < 1)
    (hn : 0 < n) : 0 ≤ ⌊(n : ℝ) * positionR b r⌋ ∧ ⌊(n : ℝ) * positionR b r⌋ < n := by
  obtain ⟨h0, h1, h2⟩ := rank_position_in_range b r hb hr0 hr1
  have hnR : (0 : ℝ) < n := by exact_mod_cast hn
  constructor
  · exact Int.floor_nonneg.2 (mul_nonneg hnR.le h0)
  · rw [Int.floor_lt]
    have : (n : ℝ) * positionR b r < (n : ℝ) * 1 := mul_lt_mul_of_pos_left (by linarith) hnR
    push_cast; linarith

/-- The draws that select index `i` are exactly the interval `[F(i/n), F((i+1)/n))` of the distribution
function `F = cdfC b`; with a uniform draw its length is the probability of index `i`. -/
theorem rank_index_mass (b r : ℝ) (n : ℕ) (i : ℤ) (hb : 1 ≤ b) (hr0 : 0 ≤ r) (hr1 : r < 1)
    (hn : 0 < n) (hi : 0 ≤ i) :
    ⌊(n : ℝ) * positionR b r⌋ = i ↔ cdfC b (i / n) ≤ r ∧ r < cdfC b ((i + 1) / n) := by
  have hnR : (0 : ℝ) < n := by exact_mod_cast hn
  have hiR : (0 : ℝ) ≤ i := by exact_mod_cast hi
  rw [Int.floor_eq_iff]
  have e1 : (i : ℝ) ≤ n * positionR b r ↔ ¬ positionR b r < i / n := by
    rw [not_lt, div_le_iff₀ hnR, mul_comm]
  have e2 : (n : ℝ) * positionR b r < i + 1 ↔ positionR b r < (i + 1) / n := by
    rw [lt_div_iff₀ hnR, mul_comm]
  rw [e1, e2, positionR_lt_iff b r _ hb hr0 hr1 (div_nonneg hiR hnR.le),
    positionR_lt_iff b r _ hb hr0 hr1 (div_nonneg (by linarith) hnR.le), not_lt]

/-- Rank selection never prefers a worse rank over a better one: the probability mass
`F((i+1)/n) - F(i/n)` of index `i` is non-increasing in `i` (for every bias `≥ 1`, also above 2 where
the worst ranks get mass 0). -/
theorem rank_never_prefers_worse (b : ℝ) (n i j : ℕ) (hb : 1 ≤ b) (hn : 0 < n) (hij : i ≤ j) :
    cdfC b ((j + 1 : ℕ) / n) - cdfC b (j / n) ≤ cdfC b ((i + 1 : ℕ) / n) - cdfC b (i / n) := by
  have hnR : (0 : ℝ) < n := by exact_mod_cast hn
  have hx : (0 : ℝ) ≤ (i : ℝ) / n := div_nonneg (by positivity) hnR.le
  have hxy : (i : ℝ) / n ≤ (j : ℝ) / n := by
    apply div_le_div_of_nonneg_right _ hnR.le; exact_mod_cast hij
  have := cdfC_increment_antitone b _ _ (1 / n) hb hx hxy (by positivity)
  have e : ∀ k : ℕ, ((k + 1 : ℕ) : ℝ) / n = (k : ℝ) / n + 1 / n := by intro k; push_cast; ring
  rw [e i, e j]; exact this

/-- `bias = 1.0` is random selection: every index has mass `1/n`. -/
theorem rank_bias_one_uniform (n i : ℕ) (hn : 0 < n) (hi : i < n) :
    cdfC 1 ((i + 1 : ℕ) / n) - cdfC 1 (i / n) = 1 / n := by
  have hnR : (0 : ℝ) < n := by exact_mod_cast hn
  have h1 : ((i + 1 : ℕ) : ℝ) / n ≤ 1 := by
    rw [div_le_one hnR]; exact_mod_cast hi
  have h0 : (i : ℝ) / n ≤ 1 := by
    rw [div_le_one hnR]; exact_mod_cast (by omega : i ≤ n)
  unfold cdfC cdfR capR
  simp only [show (1 : ℝ) ≤ 2 by norm_num, if_true, min_eq_left h1, min_eq_left h0]
  push_cast; ring

/-- Above 2.0 the lower ranked are cut off: no index at or beyond `n/(bias-1)` is ever selected. -/
theorem rank_bias_above_two_cuts_off (b r : ℝ) (n : ℕ) (hb : 2 < b) (hr1 : r < 1) :
    (⌊(n : ℝ) * positionR b r⌋ : ℝ) < n / (b - 1) ∨ n = 0 := by
  rcases Nat.eq_zero_or_pos n with h | hn
  · exact Or.inr h
  · left
    have hnR : (0 : ℝ) < n := by exact_mod_cast hn
    have hp := positionR_lt_cap b r (by linarith) hr1
    have hcap : capR b = 1 / (b - 1) := by unfold capR; rw [if_neg (by linarith)]
    rw [hcap] at hp
    calc (⌊(n : ℝ) * positionR b r⌋ : ℝ) ≤ n * positionR b r := Int.floor_le _
      _ < n * (1 / (b - 1)) := mul_lt_mul_of_pos_left hp hnR
      _ = n / (b - 1) := by ring

/-! ## rank selection (the executable model of the repaired code, any rationals) -/

/-- The final `min(index, max(len - 1, 0))` of the repaired code keeps the index inside a non-empty
population whatever value the (rounded) float computation produced, and does not make it negative. -/
theorem rank_index_clamped (n : Nat) (x : Int) (hn : 0 < n) :
    clampIdx n x < n ∧ (0 ≤ x → 0 ≤ clampIdx n x) := by
  unfold clampIdx; omega

/-- Whenever the exact model returns an index (all float operations exact), it is the real-valued
`⌊n · position⌋` of the theorems above — hence inside the population. -/
theorem rank_index_model_is_real (b r : Rat) (n : Nat) (i : Int) (h : rankIndex b r n = .idx i)
    (hb : 1 ≤ b) (hr0 : 0 ≤ r) (hr1 : r < 1) (hn : 0 < n) :
    i = ⌊(n : ℝ) * positionR b r⌋ ∧ 0 ≤ i ∧ i < n := by
  have h1 := rankIndex_real b r n i h hb hr0 hr1 hn
  have h2 := rank_index_in_population (b : ℝ) r n (by exact_mod_cast hb) (by exact_mod_cast hr0)
    (by exact_mod_cast hr1) hn
  rw [← h1] at h2
  exact ⟨h1, h2⟩

/-- The unchanged `get_index` divides by zero at the documented bias `1.0` ("random selection"). -/
theorem rank_orig_bias_one_cex : rankIndexOrig 1 (1 / 2) 10 = .zeroDivision := by decide +kernel

/-- The repaired code selects uniformly there. -/
example : rankIndex 1 (1 / 2) 10 = .idx 5 := by decide +kernel

/-- non-vacuity of `rank_index_model_is_real`: bias 3/2, draw 5/8 (radicand 1), population 10 → 5 -/
example : rankIndex (3 / 2) (5 / 8) 10 = .idx 5 := by decide +kernel

end PynguinModel.Ranking
