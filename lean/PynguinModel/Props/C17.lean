import PynguinModel.Lemmas.Stopping
import PynguinModel.Generated.C17Stopping
/-!
# C17 — the search stops as soon as a configured budget is exhausted

Property theorems only.  Part 1 proves, **for every loop skeleton of the recognised shape, every
list of configured conditions (of any kind), every initial population and every sequence of
per-iteration effects** (by induction on the iterations offered to the loop):

* `iterations_le_budget` — completed iterations never exceed the iteration budget;
* `no_start_after_execution_budget` / `no_start_after_statement_budget` — no iteration starts at a
  boundary at which the executions / executed statements since search start have reached the budget;
* `fulfilled_boundary_is_last` / `started_boundaries_unfulfilled` — a boundary at which *any*
  configured condition is fulfilled starts no further iteration.

`St.iters/execs/stmts` are ghost counters of what really happened; that the conditions' own counters
agree with them is part of what is proved (invariant `Tracks`), under the row shapes `IterBudget`,
`ExecBudget`, `StmtBudget`.

Part 2 are the per-run obligations: the tables regenerated from the live source
(`Generated/C17Stopping.lean`) have the recognised shapes (`decide` over the complete finite table),
and `C17` instantiates Part 1 with them.  Changing `>=` into `>` in `is_fulfilled`, moving/removing
`after_search_iteration`, dropping `resources_left()` from a `while` test, or `all` → `any` in
`resources_left` makes an obligation of Part 2 fail to build.
-/
namespace PynguinModel.Stopping

/-! ## Part 1 — generic theorems -/

/-- **Completed iterations never exceed the iteration budget.**  For every well-formed skeleton,
every list of configured conditions containing an iteration-budget row with limit `L`, every
initial population `pre` and every sequence of per-iteration effects. -/
theorem iterations_le_budget {sk : Skeleton} (hwf : sk.WF) {specs : List (CondSpec × Nat)}
    {sp : CondSpec} {L : Nat} (hmem : (sp, L) ∈ specs) (hsp : IterBudget sp)
    (pre : List Nat) (effs : List Effect) :
    (run sk specs pre effs).final.iters ≤ L ∧ (run sk specs pre effs).starts.length ≤ L := by
  have h : (run sk specs pre effs).final.iters ≤ L := by
    unfold run
    apply loop_iters_le hwf
    · exact tracksIter_execMany pre (tracksIter_start specs)
    · exact hasBudget_execMany pre (hasBudget_start hmem hsp)
    · rw [St.execMany_iters]; exact Nat.zero_le _
  refine ⟨h, ?_⟩
  have hl := loop_starts_length sk effs (((init specs).searchStart).execMany pre)
  rw [St.execMany_iters] at hl
  have h0 : ((init specs).searchStart).iters = 0 := rfl
  unfold run at h ⊢
  omega

/-- **No iteration starts once the test executions since search start have reached the budget.** -/
theorem no_start_after_execution_budget {sk : Skeleton} (hg : sk.GuardOK)
    {specs : List (CondSpec × Nat)} {sp : CondSpec} {L : Nat} (hmem : (sp, L) ∈ specs)
    (hsp : ExecBudget sp) (pre : List Nat) (effs : List Effect) :
    ∀ s ∈ (run sk specs pre effs).starts, s.execs < L := by
  unfold run
  exact loop_starts_execs_lt hg effs _ (tracksExec_execMany pre (tracksExec_start specs))
    (hasBudget_execMany pre (hasBudget_start hmem hsp))

/-- **No iteration starts once the executed statements since search start have reached the
budget.** -/
theorem no_start_after_statement_budget {sk : Skeleton} (hg : sk.GuardOK)
    {specs : List (CondSpec × Nat)} {sp : CondSpec} {L : Nat} (hmem : (sp, L) ∈ specs)
    (hsp : StmtBudget sp) (pre : List Nat) (effs : List Effect) :
    ∀ s ∈ (run sk specs pre effs).starts, s.stmts < L := by
  unfold run
  exact loop_starts_stmts_lt hg effs _ (tracksStmt_execMany pre (tracksStmt_start specs))
    (hasBudget_execMany pre (hasBudget_start hmem hsp))

/-- **A boundary at which some configured condition (of any kind, with any table row) is fulfilled
is the last one**: whatever the remaining effects, no iteration starts and the state is final. -/
theorem fulfilled_boundary_is_last {sk : Skeleton} (hg : sk.GuardOK) {s : St}
    (h : ∃ c ∈ s.conds, c.fulfilled = true) (effs : List Effect) :
    loop sk s effs = ⟨[], s⟩ := by
  cases effs with
  | nil => exact loop_nil sk s
  | cons e es =>
    by_cases hgd : guard sk s e.pure = true
    · obtain ⟨c, hc, hf⟩ := h
      have := guard_unfulfilled hg hgd c hc
      rw [hf] at this
      exact absurd this (by decide)
    · exact loop_cons_false es hgd

/-- Trace form: at every boundary at which an iteration started, no configured condition was
fulfilled (whatever the conditions' table rows are). -/
theorem started_boundaries_unfulfilled {sk : Skeleton} (hg : sk.GuardOK)
    (specs : List (CondSpec × Nat)) (pre : List Nat) (effs : List Effect) :
    ∀ s ∈ (run sk specs pre effs).starts, ∀ c ∈ s.conds, c.fulfilled = false := by
  unfold run
  exact loop_starts_unfulfilled hg effs _

/-! ## Part 2 — obligations on the tables regenerated from the live source -/

/-- `MaxIterationsStoppingCondition` counts completed iterations and compares with `>=`. -/
theorem generated_maxIterations_shape : IterBudget Generated.maxIterations := by decide

/-- `MaxTestExecutionsStoppingCondition` counts test executions and compares with `>=`. -/
theorem generated_maxTestExecutions_shape : ExecBudget Generated.maxTestExecutions := by decide

/-- `MaxStatementExecutionsStoppingCondition` sums executed statements and compares with `>=`. -/
theorem generated_maxStatementExecutions_shape : StmtBudget Generated.maxStatementExecutions := by
  decide

/-- Every registered algorithm's `generate_tests` has the recognised loop skeleton. -/
theorem generated_skeletons_wf : ∀ sk ∈ Generated.skeletons, sk.WF := by decide

/-- The skeleton table covers the algorithms the property names (and whatever else is registered). -/
theorem generated_skeletons_cover :
    ∀ a ∈ ["DYNAMOSA", "MOSA", "MIO", "WHOLE_SUITE", "RANDOM", "RANDOM_TEST_SUITE_SEARCH",
           "RANDOM_TEST_CASE_SEARCH"], a ∈ Generated.skeletons.map (·.algo) := by decide

/-- The factory maps the three budget options to the three translated classes (enabled by `>= 0`),
stores the list where `resources_left` reads it, and registers every condition as a search observer
and — iff `observes_execution` — as an execution observer. -/
theorem generated_factory_wiring :
    ("maximum_iterations", Generated.maxIterations.cls, true) ∈ Generated.configMap ∧
    ("maximum_statement_executions", Generated.maxStatementExecutions.cls, true) ∈ Generated.configMap ∧
    ("maximum_test_executions", Generated.maxTestExecutions.cls, true) ∈ Generated.configMap ∧
    Generated.conditionsAssigned = true ∧ Generated.registeredAsSearchObservers = true ∧
    Generated.registeredAsExecutionObservers = true := by decide

/-- **C17 for the code as it is now.**  For every registered algorithm, every combination of the
three budgets, every further configured condition (time, coverage, plateau, memory: any table row,
any limit), every initial population and every behaviour of the iterations:
completed iterations ≤ iteration budget; no iteration starts with executions ≥ execution budget or
executed statements ≥ statement budget; no iteration starts at a boundary where any configured
condition is fulfilled. -/
theorem C17 {sk : Skeleton} (hsk : sk ∈ Generated.skeletons) (mi ms me : Option Nat)
    (others : List (CondSpec × Nat)) (pre : List Nat) (effs : List Effect) :
    let r := run sk (Generated.configured mi ms me others) pre effs
    (∀ L, mi = some L → r.final.iters ≤ L ∧ r.starts.length ≤ L) ∧
    (∀ L, me = some L → ∀ s ∈ r.starts, s.execs < L) ∧
    (∀ L, ms = some L → ∀ s ∈ r.starts, s.stmts < L) ∧
    (∀ s ∈ r.starts, ∀ c ∈ s.conds, c.fulfilled = false) := by
  have hwf := generated_skeletons_wf sk hsk
  refine ⟨?_, ?_, ?_, ?_⟩
  · intro L h
    subst h
    exact iterations_le_budget hwf (sp := Generated.maxIterations) (by simp [Generated.configured])
      generated_maxIterations_shape pre effs
  · intro L h
    subst h
    exact no_start_after_execution_budget hwf.guardOK (sp := Generated.maxTestExecutions)
      (by simp [Generated.configured]) generated_maxTestExecutions_shape pre effs
  · intro L h
    subst h
    exact no_start_after_statement_budget hwf.guardOK (sp := Generated.maxStatementExecutions)
      (by simp [Generated.configured]) generated_maxStatementExecutions_shape pre effs
  · exact started_boundaries_unfulfilled hwf.guardOK _ pre effs

/-! ## Non-vacuity and sensitivity -/

section Examples
open Generated

/-- a concrete non-trivial run: DynaMOSA skeleton, 3 iterations allowed, 20 executions allowed;
initial population of 4 tests; the third boundary already has 4+5+5 = 14 executions, the fourth 21 -/
def exampleEffs : List Effect :=
  [⟨true, [1, 2, 3, 1, 1]⟩, ⟨true, [2, 2, 2, 2, 2]⟩, ⟨true, [1, 1, 1, 1, 1, 1, 1]⟩, ⟨true, [9]⟩,
   ⟨true, [9]⟩]

-- hypotheses of the generic theorems are satisfiable, and the bounds are attained
example : skDynamosa.WF ∧ skDynamosa ∈ skeletons := by decide
example : (run skDynamosa (configured (some 3) none (some 20) []) [1, 1, 2, 2] exampleEffs).starts.length = 3 := by
  decide
example : (run skDynamosa (configured (some 9) none (some 20) []) [1, 1, 2, 2] exampleEffs).starts.map (·.execs)
    = [4, 9, 14] := by decide
example : (run skDynamosa (configured (some 9) (some 12) none []) [1, 1, 2, 2] exampleEffs).starts.map (·.stmts)
    = [6] := by decide
-- the pure conjunct may end the search earlier
example : (run skMio (configured (some 9) none none []) [] [⟨true, [1]⟩, ⟨false, [1]⟩, ⟨true, [1]⟩]).final.iters = 1 := by
  decide

-- sensitivity: the shapes are necessary.  `>` instead of `>=` allows one iteration too many ...
example : (run skDynamosa [({ maxIterations with cmp := .gt }, 3)] [] exampleEffs).final.iters = 4 := by decide
-- ... a skeleton that never reports the end of an iteration runs on ...
example : (run { skDynamosa with afterIterAtEnd := 0 } (configured (some 3) none none []) [] exampleEffs).final.iters = 5 := by
  decide
-- ... and so does a guard that does not consult `resources_left()`.
example : (run { skDynamosa with guardResources := false } (configured (some 3) none none []) [] exampleEffs).final.iters = 5 := by
  decide
example : ¬ IterBudget { maxIterations with cmp := .gt } := by decide
example : ¬ Skeleton.WF { skDynamosa with afterIterAtEnd := 0, afterIterElsewhere := 1 } := by decide
end Examples

end PynguinModel.Stopping
