import PynguinModel.Lemmas.StackMachine
import PynguinModel.Lemmas.Callbacks
import PynguinModel.Generated.C01Snippets
/-!
# C01 — instrumentation does not change the behaviour of the module under test

Property theorems (for ALL stacks, worlds, outcomes of the original instructions):

* `neutral_sound`      an inserted snippet accepted by the checkers leaves every stack of
                       sufficient depth unchanged, never raises, and its callbacks only receive
                       observed values;
* `override_sound`     an overriding snippet accepted by the checkers behaves like the overridden
                       original instruction alone (same stack, same operands seen by the original
                       instruction, same exception), callbacks erased;
* `insert_preserves`   any instruction sequence instrumented with accepted snippets at well-placed
                       positions has the same final stack, the same sequence of original-instruction
                       events (with operands) and the same exception as the original sequence;
* `insert_callbacks_observe_only`  all callbacks of such a sequence receive observed values only;
* `generated_used_checked`, `generated_enum_stack_neutral`   the tables regenerated from the live
                       `InstrumentationInstructionsGenerator` (Generated/C01Snippets.lean) satisfy
                       the checkers: every snippet shape the adapters emit is neutral and
                       observe-only; every setup action of the enum is stack-neutral;
* `C01`                the instantiation: sequences built from generated used shapes.

The callbacks themselves (namespace `PynguinModel.Callbacks`, model in Model/Callbacks.lean):

* `compare_callback_raises_iff`, `bool_callback_raises_iff`, `compare_callback_records`   the predicate
                       callbacks of the branch tracer raise exactly what the comparison / truth test
                       of the module raises, whatever the distance estimates (converse user operators)
                       raise or return; `C01_callbacks_full_cex`: not for BaseException-only classes;
* `provider_no_user_calls`, `provider_pool_adds`   the seeding callbacks of `DynamicConstantProvider`
                       apply no operator / method to an operand whose class could override it;
                       `strings_isinstance_cex`, `startswith_isinstance_cex`: why the guards must be
                       exact-type checks.

What remains of the proviso "every tracer callback leaves the module's state alone": the tracer's own
evaluation of the comparison / truth test / membership (known findings) and C04/C05.
-/
namespace PynguinModel.StackMachine

/-- An inserted snippet accepted by `neutral` and `observeOnly`: for every world in which the
licensed names are bound and every stack with at least `k` entries, the snippet ends normally with
the stack unchanged, and every event is a callback on the instrumentation's own object whose
arguments are observed values (entries among the top `k`, own constants, licensed frame reads). -/
theorem neutral_sound (sn : List Op) (k : Nat) (lic : List (Nat × Nat))
    (hn : neutral sn k = true) (ho : observeOnly sn lic = true)
    (w : World) (hw : ∀ p ∈ lic, w.bound p.1 p.2 = true)
    (s : List Val) (hk : k ≤ s.length) :
    ∃ ev, run w sn s = ⟨s, ev, none⟩ ∧ ∀ e ∈ ev, e.ObservesOnly (s.take k) := by
  simp only [neutral, Bool.and_eq_true, decide_eq_true_eq, List.all_eq_true] at hn
  obtain ⟨hwf, ⟨herr, hstack⟩, hev⟩ := hn
  have hu : (run wAll sn (toks k)).err ≠ some .underflow := by simp [herr]
  have ht := transfer sn k lic hwf ho w hw s hk hu
  refine ⟨(run wAll sn (toks k)).events.map (Ev.subst (pick s)), ?_, ?_⟩
  · rw [ht]
    simp only [Result.subst, Result.onTop, hstack, herr, toks_subst_pick s k hk,
      List.take_append_drop]
  · intro e he
    obtain ⟨e0, he0, rfl⟩ := List.mem_map.mp he
    have := hev e0 he0
    exact callOk_subst s k hk e0 this.1 this.2

/-- An overriding snippet `pre ++ [orig] ++ post` accepted by the checkers: for every world in
which the licensed names are bound, every stack with at least `k` entries and BOTH outcomes `b` of
the original instruction, the run equals the run of the original instruction alone once callbacks
are erased (same stack, same operands handed to the original instruction, same exception), and
all callbacks receive observed values only. -/
theorem override_sound (pre post : List Op) (id p q k : Nat) (lic : List (Nat × Nat)) (b : Bool)
    (hn : overrideNeutralFor pre post id p q k b = true)
    (ho : observeOnly (pre ++ [.orig id p q b] ++ post) lic = true)
    (w : World) (hw : ∀ x ∈ lic, w.bound x.1 x.2 = true)
    (s : List Val) (hk : k ≤ s.length) :
    (run w (pre ++ [.orig id p q b] ++ post) s).observable
      = (run w [.orig id p q b] s).observable ∧
    ∀ e ∈ (run w (pre ++ [.orig id p q b] ++ post) s).events,
      e.isCall = true → e.ObservesOnly (s.take k) := by
  simp only [overrideNeutralFor, Bool.and_eq_true, decide_eq_true_eq, List.all_eq_true] at hn
  obtain ⟨hwf, ⟨heq, hu0⟩, hev⟩ := hn
  have hu : (run wAll (pre ++ [.orig id p q b] ++ post) (toks k)).err ≠ some .underflow := by
    have : (run wAll (pre ++ [.orig id p q b] ++ post) (toks k)).err
        = (run wAll [.orig id p q b] (toks k)).err := observable_err heq
    rw [this]; exact hu0
  have ht := transfer _ k lic hwf ho w hw s hk hu
  have hwf0 : allWf [Op.orig id p q b] = true := by
    simp only [allWf, List.all_append, List.all_cons, List.all_nil, Bool.and_true,
      Bool.and_eq_true] at hwf ⊢
    exact hwf.1.2
  have ho0 : observeOnly [Op.orig id p q b] lic = true := by
    simp only [observeOnly, List.all_append, List.all_cons, List.all_nil, Bool.and_true,
      Bool.and_eq_true] at ho ⊢
    exact ho.1.2
  have ht0 := transfer [Op.orig id p q b] k lic hwf0 ho0 w hw s hk hu0
  constructor
  · rw [ht, ht0]
    exact observable_transfer (pick s) (s.drop k) _ _ heq
  · intro e he hc
    rw [ht] at he
    simp only [Result.subst, Result.onTop] at he
    obtain ⟨e0, he0, rfl⟩ := List.mem_map.mp he
    have hc0 : e0.isCall = true := by cases e0 <;> simp [Ev.subst, Ev.isCall] at hc ⊢
    exact callOk_subst s k hk e0 hc0 (hev e0 he0)

/-- one item: the instrumented instructions behave like the original ones, callbacks erased -/
theorem item_sound (it : Item) (hc : it.checked = true) (w : World)
    (hw : ∀ x ∈ it.lic, w.bound x.1 x.2 = true) (s : List Val) (hk : it.depth ≤ s.length) :
    (run w it.ops s).observable = (run w it.plain s).observable ∧
    ∀ e ∈ (run w it.ops s).events, e.isCall = true → e.ObservesOnly (s.take it.depth) := by
  cases it with
  | orig id p q r =>
    refine ⟨rfl, ?_⟩
    intro e he hcall
    have := orig_events_not_call w id p q r s e he
    simp [hcall] at this
  | snip ops k lic =>
    simp only [Item.checked, Bool.and_eq_true] at hc
    obtain ⟨ev, hrun, hev⟩ := neutral_sound ops k lic hc.1 hc.2 w hw s hk
    simp only [Item.ops, Item.plain, Item.depth, hrun, run]
    refine ⟨?_, fun e he _ => hev e he⟩
    have : eraseCalls ev = [] := by
      simp only [eraseCalls, List.filter_eq_nil_iff]
      intro e he
      obtain ⟨c, name, args, rfl, _⟩ := hev e he
      simp [Ev.isCall]
    simp only [Result.observable, this]
    rfl
  | over pre post id p q r k lic =>
    simp only [Item.checked, overrideNeutral, Bool.and_eq_true] at hc
    obtain ⟨⟨hf, ht⟩, ho⟩ := hc
    have ho' := observeOnly_insert pre post (.orig id p q r) lic ho (orig_okIn id p q r lic)
    cases r with
    | false => exact override_sound pre post id p q k lic false hf ho' w hw s hk
    | true => exact override_sound pre post id p q k lic true ht ho' w hw s hk

/-- **Main theorem.**  Take any sequence of original instructions (any pops/pushes, any outcome),
insert accepted snippets and override instructions with accepted overriding snippets at positions
where the original run provides the stack depth and bound names they need (`PlacedOk`).  Then for
every world and every initial stack, the instrumented sequence ends with the same stack, emits the
same original-instruction events (each with the same operands, in the same order) and raises the
same exception (or none) as the original sequence. -/
theorem insert_preserves (items : List Item) (hc : ∀ it ∈ items, it.checked = true)
    (w : World) (s : List Val) (hp : PlacedOk w items s) :
    (run w (instrumented items) s).observable = (run w (original items) s).observable := by
  induction items generalizing s with
  | nil => simp [instrumented, original, run]
  | cons it rest ih =>
    obtain ⟨hk, hw, hrest⟩ := hp
    have hit := (item_sound it (hc it (by simp)) w hw s hk).1
    have her : (run w it.ops s).err = (run w it.plain s).err := observable_err hit
    have hev : eraseCalls (run w it.ops s).events = eraseCalls (run w it.plain s).events :=
      observable_events hit
    simp only [instrumented, original, List.flatMap_cons] at ih ⊢
    rw [run_append, run_append]
    cases hpl : (run w it.plain s).err with
    | some e =>
      rw [hpl] at her
      simp only [her]
      exact hit
    | none =>
      rw [hpl] at her
      simp only [her]
      have hst : (run w it.ops s).stack = (run w it.plain s).stack := observable_stack hit hpl
      have ih' := ih (fun x hx => hc x (by simp [hx])) (run w it.plain s).stack (hrest hpl)
      rw [hst]
      exact observable_seq _ _ _ _ ih' hev

/-- the values on the stack when an item starts in the original run -/
def Reaches (w : World) : List Item → List Val → Item → List Val → Prop
  | [], _, _, _ => False
  | it :: rest, s, it', s' =>
      (it' = it ∧ s' = s) ∨ ((run w it.plain s).err = none ∧ Reaches w rest (run w it.plain s).stack it' s')

/-- Callbacks only observe: every callback event of the instrumented sequence is a call on the
instrumentation's own object whose arguments are values that were on top of the stack (within the
declared depth) when the snippet started, own constants, licensed frame reads, outputs of the
overridden instruction, or pairs of those.  No callback receives a value computed by user code. -/
theorem insert_callbacks_observe_only (items : List Item) (hc : ∀ it ∈ items, it.checked = true)
    (w : World) (s : List Val) (hp : PlacedOk w items s) :
    ∀ e ∈ (run w (instrumented items) s).events, e.isCall = true →
      ∃ it s', Reaches w items s it s' ∧ e.ObservesOnly (s'.take it.depth) := by
  induction items generalizing s with
  | nil => intro e he; simp [instrumented, run] at he
  | cons it rest ih =>
    obtain ⟨hk, hw, hrest⟩ := hp
    have hsound := item_sound it (hc it (by simp)) w hw s hk
    have hit := hsound.1
    have her : (run w it.ops s).err = (run w it.plain s).err := observable_err hit
    intro e he hcall
    simp only [instrumented, List.flatMap_cons] at he ih
    rw [run_append] at he
    cases hpl : (run w it.plain s).err with
    | some err =>
      rw [hpl] at her
      simp only [her] at he
      exact ⟨it, s, Or.inl ⟨rfl, rfl⟩, hsound.2 e he hcall⟩
    | none =>
      rw [hpl] at her
      simp only [her, List.mem_append] at he
      cases he with
      | inl h => exact ⟨it, s, Or.inl ⟨rfl, rfl⟩, hsound.2 e h hcall⟩
      | inr h =>
        have hst : (run w it.ops s).stack = (run w it.plain s).stack := observable_stack hit hpl
        rw [hst] at h
        obtain ⟨it', s', hr, ho⟩ :=
          ih (fun x hx => hc x (by simp [hx])) (run w it.plain s).stack (hrest hpl) e h hcall
        exact ⟨it', s', Or.inr ⟨hpl, hr⟩, ho⟩

/-! ## The generated tables (regenerated from the live generators on every run) -/

open Generated in
/-- Every snippet shape the adapters of this pynguin tree emit (recorded on the translator's corpus
of programs under all 2^3 metric subsets + dynamic seeding; the harness checks on every run that no
other shape is emitted for the programs it instruments) is accepted: neutral / override-neutral at the depth its placement
guarantees, free of user code, and reads only the names its placement licenses. -/
theorem generated_used_checked : usedItems.all Item.checked = true := by decide

open Generated in
/-- Every setup action of `InstrumentationSetupAction` (all enum members, used or not) in its
canonical use, for every generator class of `version/python3_1x.py` (3.10 … 3.14; the non-live
ones read with a stub instruction class), restores the stack in the symbolic run (distinct tokens,
nothing raises).  This says nothing about what the callbacks receive: `ADD_FIRST_TWO(_REVERSED)`
pass this check and are NOT observe-only (`addFirstTwo_cex`). -/
theorem generated_enum_stack_neutral : enumItems.all Item.stackNeutral = true := by decide

open Generated in
/-- **C01 (model level).**  Any instruction sequence that the instrumentation of this pynguin tree
can produce from original instructions by inserting/overriding with the shapes it emits behaves, at
every well-placed position, for every world, initial stack and outcome of the original
instructions, exactly like the original sequence (same stack, same original events with the same
operands, same exception), and its callbacks receive observed values only. -/
theorem C01 (items : List Item)
    (hgen : ∀ it ∈ items, (∃ id p q r, it = .orig id p q r) ∨ it ∈ usedItems)
    (w : World) (s : List Val) (hp : PlacedOk w items s) :
    (run w (instrumented items) s).observable = (run w (original items) s).observable ∧
    ∀ e ∈ (run w (instrumented items) s).events, e.isCall = true →
      ∃ it s', Reaches w items s it s' ∧ e.ObservesOnly (s'.take it.depth) := by
  have hc : ∀ it ∈ items, it.checked = true := by
    intro it hit
    cases hgen it hit with
    | inl h => obtain ⟨id, p, q, r, rfl⟩ := h; rfl
    | inr h => exact (List.all_eq_true.mp generated_used_checked) it h
  exact ⟨insert_preserves items hc w s hp, insert_callbacks_observe_only items hc w s hp⟩

/-! ## Why `ADD_FIRST_TWO` was a defect (D6), kept as a counterexample theorem -/

/-- the 3.11+ `ADD_FIRST_TWO` snippet: `COPY 2, COPY 2, BINARY_OP +`, callback, `POP_TOP, POP_TOP` -/
def addFirstTwo312 : List Op :=
  [.copy 2, .copy 2, .binaryOp, .loadConst 0, .loadMethod 0, .copy 3, .call 1, .popTop, .popTop]

/-- stack-neutral when `+` does not raise … -/
example : neutral addFirstTwo312 2 = false := by decide  -- its callback receives a user-computed sum
/-- … but not observe-only: -/
theorem addFirstTwo_not_observeOnly : observeOnly addFirstTwo312 [] = false := by decide

/-- and there is a world (`str + tuple` raises) in which inserting it makes code raise that does
not raise uninstrumented: the inserted snippet stops with `userRaised` while the original code
(nothing at this point) continues. -/
theorem addFirstTwo_cex :
    ∃ (w : World) (s : List Val),
      (run w addFirstTwo312 s).err = some .userRaised ∧ (run w [] s).err = none := by
  refine ⟨⟨fun _ _ => true, fun _ _ => true⟩, [.tok 0, .tok 1], ?_, ?_⟩ <;> decide

/-! ## Non-vacuity -/

/-- the compare-predicate snippet of 3.12 (`COPY_FIRST_TWO`, args `(SECOND, FIRST, const, const)`) -/
def cmpSnippet : List Op :=
  [.loadConst 0, .loadMethod 1, .copy 4, .copy 4, .loadConst 2, .loadConst 3, .call 4, .popTop]

example : neutral cmpSnippet 2 = true ∧ observeOnly cmpSnippet [] = true := by decide

/-- a block `LOAD a; LOAD b; <cmp snippet>; COMPARE_OP; line snippet; STORE_ATTR (overridden)` -/
def demoItems : List Item :=
  [.orig 1 0 1 false, .orig 2 0 1 false, .snip cmpSnippet 2 [], .orig 3 2 1 false,
   .orig 4 0 1 false,
   .over [.swap 2, .copy 2] [.loadConst 0, .loadMethod 5, .loadConst 6, .copy 4, .call 2, .popTop, .popTop]
     5 2 0 false 2 []]

example : (∀ it ∈ demoItems, it.checked = true) ∧ PlacedOk wAll demoItems [] := by
  refine ⟨by decide, ?_⟩
  simp [demoItems, PlacedOk, Item.depth, Item.lic, Item.plain]
  decide

example : (run wAll (instrumented demoItems) []).observable
    = (run wAll (original demoItems) []).observable := by
  decide

/-- the override hypothesis is satisfiable for both outcomes of the original instruction -/
example : overrideNeutral [.swap 2, .copy 2]
    [.loadConst 0, .loadMethod 5, .loadConst 6, .copy 4, .call 2, .popTop, .popTop] 5 2 0 2 = true := by
  decide

end PynguinModel.StackMachine

namespace PynguinModel.Callbacks

/-! ## The callbacks may only observe (Model/Callbacks.lean) -/

/-- `_missed_branch_distance`: whatever `Exception` the estimate raises and whatever it returns
(0.0, negative, NaN …), the result is a distance `> 0.0`; nothing is raised. -/
theorem missedBranchDistance_ok (est : Out F) (h : ∀ e, est = .error e → e.isException = true) :
    ∃ d, missedBranchDistance est = .ok d ∧ d.gtZero = true := by
  cases est with
  | error e => exact ⟨.posInf, by simp [missedBranchDistance, h e rfl], rfl⟩
  | ok d =>
    by_cases hd : d.gtZero = true
    · exact ⟨d, by simp [missedBranchDistance, hd], hd⟩
    · exact ⟨.posInf, by simp [missedBranchDistance, hd], rfl⟩

/-- **The compare callback raises exactly what the module's own comparison raises.**  For every
outcome of the comparison and all outcomes of the two distance estimates (which apply converse /
reflected user operators and may raise any `Exception`, or yield 0.0 / NaN / negative values):
`executed_compare_predicate` raises `e` iff `compare(val1, val2)` itself raises `e` — in particular it
returns normally whenever the comparison of the module succeeds, and no assertion of
`_update_metrics` fails. -/
theorem compare_callback_raises_iff (primary : Out Bool) (td fd : Out F)
    (htd : ∀ e, td = .error e → e.isException = true)
    (hfd : ∀ e, fd = .error e → e.isException = true) (e : Exc) :
    executedComparePredicate primary td fd = .error e ↔ primary = .error e := by
  obtain ⟨dt, hdt, hdt0⟩ := missedBranchDistance_ok td htd
  obtain ⟨df, hdf, hdf0⟩ := missedBranchDistance_ok fd hfd
  cases primary with
  | error e' => simp [executedComparePredicate, compareDistances]
  | ok b =>
    cases b
    · cases dt <;> simp_all [executedComparePredicate, compareDistances, Except.map, updateMetrics,
        F.gtZero, F.geZero, F.isZero]
    · cases df <;> simp_all [executedComparePredicate, compareDistances, Except.map, updateMetrics,
        F.gtZero, F.geZero, F.isZero]

/-- what the compare callback records: 0.0 for the branch taken, a distance `> 0.0` for the other -/
theorem compare_callback_records (primary : Out Bool) (td fd : Out F)
    (htd : ∀ e, td = .error e → e.isException = true)
    (hfd : ∀ e, fd = .error e → e.isException = true) (b : Bool) (hp : primary = .ok b) :
    ∃ d, d.gtZero = true ∧
      executedComparePredicate primary td fd = .ok (if b then (F.zero, d) else (d, F.zero)) := by
  obtain ⟨dt, hdt, hdt0⟩ := missedBranchDistance_ok td htd
  obtain ⟨df, hdf, hdf0⟩ := missedBranchDistance_ok fd hfd
  subst hp
  cases b
  · refine ⟨dt, hdt0, ?_⟩
    cases dt <;> simp_all [executedComparePredicate, compareDistances, Except.map, updateMetrics,
        F.gtZero, F.geZero, F.isZero]
  · refine ⟨df, hdf0, ?_⟩
    cases df <;> simp_all [executedComparePredicate, compareDistances, Except.map, updateMetrics,
        F.gtZero, F.geZero, F.isZero]

/-- **The truth-test callback raises exactly what `if value:` raises** (the estimate
`_falsy_distance` calls `len(value)` / `abs(value)` / `float(…)`, user operators that may raise). -/
theorem bool_callback_raises_iff (truth : Out Bool) (falsy : Out F)
    (hf : ∀ e, falsy = .error e → e.isException = true) (e : Exc) :
    executedBoolPredicate truth falsy = .error e ↔ truth = .error e := by
  obtain ⟨d, hd, hd0⟩ := missedBranchDistance_ok falsy hf
  cases truth with
  | error e' => simp [executedBoolPredicate]
  | ok b =>
    cases b
    · simp [executedBoolPredicate, updateMetrics, F.geZero, F.isZero]
    · cases d <;> simp_all [executedBoolPredicate, updateMetrics, F.gtZero, F.geZero, F.isZero]

/-- the statement without the restriction to `Exception` subclasses -/
def C01_callbacks_full : Prop :=
  ∀ (primary : Out Bool) (td fd : Out F) (e : Exc),
    executedComparePredicate primary td fd = .error e ↔ primary = .error e

/-- … does not hold: `except Exception` lets an exception that derives from `BaseException` only
(raised by the converse operator inside the estimate) escape although the comparison succeeded. -/
theorem C01_callbacks_full_cex : ¬ C01_callbacks_full := by
  intro h
  have := (h (.ok true) (.ok .pos) (.error (.base 0)) (.base 0)).mp rfl
  cases this

/-- **The seeding callbacks run no user code.**  For every entry point the seeding adapter installs,
every length limit and ALL operands (plain values, instances of subclasses of str / bytes / int / … with
overridden operators, enum members, unrelated objects): no operator or method is applied to a value
whose class could override it. -/
theorem provider_no_user_calls (maxLen : Nat) (entry : Entry) (v p : Operand) :
    userCalls (provider maxLen entry v p) = [] := by
  rw [userCalls_eq_nil_iff]
  cases entry with
  | addValue => exact addValue_noUser maxLen 0 v
  | strings name =>
    simp only [provider, addValueForStrings]
    split
    · exact noUser_nil
    · split
      · exact stringsBody_noUser maxLen v name _ (by assumption)
      · exact noUser_nil
  | startswith =>
    simp only [provider, addValueForStartswith, addValueForStartswithWith]
    split
    · rename_i hg
      obtain ⟨hv, hp⟩ := textPairExact_exact hg
      exact (binaryAdd_noUser 1 0 p v hp hv).append (addValue_noUser _ _ _)
    · exact noUser_nil
  | endswith =>
    simp only [provider, addValueForEndswith, addValueForEndswithWith]
    split
    · rename_i hg
      obtain ⟨hv, hp⟩ := textPairExact_exact hg
      exact (binaryAdd_noUser 0 1 v p hv hp).append (addValue_noUser _ _ _)
    · exact noUser_nil

/-- only values whose type is exactly one of the five constant types reach the pool, and strings /
bytes only up to the length limit -/
theorem provider_pool_adds (maxLen : Nat) (entry : Entry) (v p : Operand) :
    PoolOk maxLen (provider maxLen entry v p) := by
  cases entry with
  | addValue => exact addValue_poolOk maxLen 0 v
  | strings name =>
    simp only [provider, addValueForStrings]
    split
    · exact poolOk_nil _
    · split
      · unfold stringsBody
        refine ((addValue_poolOk _ _ _).append (poolOk_dispatch_cons _ _ _ (poolOk_nil _))).append ?_
        split
        · exact (poolOk_map_dispatch _ _ _ _).append (addValue_poolOk _ _ _)
        · exact (poolOk_map_dispatch _ _ _ _).append (addValue_poolOk _ _ _)
      · exact poolOk_nil _
  | startswith =>
    simp only [provider, addValueForStartswith, addValueForStartswithWith]
    split
    · exact (poolOk_dispatch_cons _ _ _ (poolOk_dispatch_cons _ _ _ (poolOk_nil _))).append
        (addValue_poolOk _ _ _)
    · exact poolOk_nil _
  | endswith =>
    simp only [provider, addValueForEndswith, addValueForEndswithWith]
    split
    · exact (poolOk_dispatch_cons _ _ _ (poolOk_dispatch_cons _ _ _ (poolOk_nil _))).append
        (addValue_poolOk _ _ _)
    · exact poolOk_nil _

/-- why the guard of `add_value_for_strings` must be `type(value) is str`: with `isinstance(value, str)`
the lookup lambda calls `value.isalnum()` and `format(value)` of a str subclass -/
theorem strings_isinstance_cex :
    userCalls (addValueForStringsIsinstance 50 ⟨.str, false, 1, true⟩ "isalnum")
      = [.user 0 "isalnum", .user 0 "__format__"] := by decide

/-- why the guard of `add_value_for_startswith` must compare exact types: with an isinstance-based
guard `prefix + value` runs `__add__` / `__radd__` of str subclasses -/
theorem startswith_isinstance_cex :
    userCalls (addValueForStartswithWith textPairIsinstance 50 ⟨.str, false, 7, false⟩ ⟨.str, false, 3, false⟩)
      = [.user 1 "__add__", .user 0 "__radd__"] := by decide

/-! non-vacuity -/
example : executedComparePredicate (.ok true) (.ok .zero) (.error (.other 3)) = .ok (.zero, .posInf) := rfl
example : executedComparePredicate (.ok false) (.ok .nan) (.ok .pos) = .ok (.posInf, .zero) := rfl
example : executedBoolPredicate (.ok true) (.error .typeError) = .ok (.zero, .posInf) := rfl
example : provider 50 .startswith ⟨.str, true, 7, false⟩ ⟨.str, true, 3, false⟩
    = [.prim "__add__", .prim "__radd__", .prim "__len__", .prim "__hash__", .poolAdd .str 10] := by decide
example : provider 50 (.strings "isalnum") ⟨.str, true, 3, true⟩ ⟨.none, true, 0, false⟩
    = [.prim "__len__", .prim "__hash__", .poolAdd .str 3, .prim "isalnum", .prim "__format__",
       .prim "__len__", .prim "__hash__", .poolAdd .str 4] := by decide

end PynguinModel.Callbacks
