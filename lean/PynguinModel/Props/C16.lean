import PynguinModel.Lemmas.Repro
import PynguinModel.Model.OrderedSet
/-!
# C16 — The same seed and budget reproduce the same test suite

Property theorems only.

* Part A (`ordered_runs_equal`, `same_seed_same_files`): a run whose choice points all iterate
  ordered or sorted collections produces the same state, the same number of consumed draws and
  hence the same files under every two hash orders; `hashed_reaches_every_candidate` /
  `hashed_choice_diverges` / `hashed_cex`: a single `hashed` choice point with two candidates
  suffices for two different outputs, for *every* value the PRNG returns.
* Part B (`resolve_hash_independent`, `append_hash_independent`): the repaired
  `TestCase.append_test_case_from` (crossover) is independent of the hash iteration order of every
  statement's `used_variables()`; `append_unsorted_cex`: the unrepaired loop is not (finding D25).
* Part C (`render_sorted_hash_independent`, `render_hash_order_cex`): the text written for an
  exact assertion on a value that contains sets (`assertion_to_ast._value_to_cst`) is independent of
  the hash order iff the set elements are emitted in a canonical order.
* Part D (`subseed_*`, `same_seed_same_files_aux_streams`): auxiliary PRNG streams must be seeded
  from the configuration only, never from `hash(str)`.
* `orderedset_*`: which uses of a hashed set as an *argument* of an `OrderedSet` operation are
  harmless (membership only) and which are not (`update`), on the C34 model.

That Pynguin as a whole only iterates ordered collections at draw-consuming points is NOT proved
here (it is a whole-program fact); the pipeline runs of `harness/c16.py` look for divergences and
the RNG-call recorder names the first divergent choice point.
-/
namespace PynguinModel.Repro

/-! ## Part A -/

/-- `sorted(a_set)` does not depend on the hash order of the set. -/
theorem sorted_hash_independent {α} {le : α → α → Bool} (h : LinearLe le) {π₁ π₂ : List α → List α}
    (h₁ : HashOrder π₁) (h₂ : HashOrder π₂) (l : List α) :
    (Coll.sortedSet l).iter le π₁ = (Coll.sortedSet l).iter le π₂ :=
  iter_eq_of_not_hashed h h₁ h₂ rfl

/-- If every choice point iterates an ordered (or sorted) collection, the whole run — final state
and number of draws consumed — is independent of the hash order, for every program, budget, start
state and PRNG stream. -/
theorem ordered_runs_equal {σ α} {le : α → α → Bool} (h : LinearLe le) {π₁ π₂ : List α → List α}
    (h₁ : HashOrder π₁) (h₂ : HashOrder π₂) (draws : Nat → Nat) (prog : σ → Option (Step σ α))
    (hp : OrderedOnly prog) (fuel : Nat) (st : σ × Nat) :
    run le π₁ draws prog fuel st = run le π₂ draws prog fuel st :=
  run_eq h h₁ h₂ draws prog hp fuel st

/-- Same seed, same configuration, same budget ⇒ byte-identical files, whatever the two hash
orders are: `prng seed` is the stream installed by `_setup_random_number_generator`, `render`
the exporter. -/
theorem same_seed_same_files {σ α β} {le : α → α → Bool} (h : LinearLe le) {π₁ π₂ : List α → List α}
    (h₁ : HashOrder π₁) (h₂ : HashOrder π₂) (prng : Nat → Nat → Nat) (seed : Nat)
    (prog : σ → Option (Step σ α)) (hp : OrderedOnly prog) (budget : Nat) (init : σ)
    (render : σ → β) :
    render (run le π₁ (prng seed) prog budget (init, 0)).1
      = render (run le π₂ (prng seed) prog budget (init, 0)).1 := by
  rw [ordered_runs_equal h h₁ h₂ (prng seed) prog hp budget (init, 0)]

/-- Under hash-order freedom a choice from a hashed collection can return *every* member, whatever
value the PRNG produces. -/
theorem hashed_reaches_every_candidate {α} [DecidableEq α] (l : List α) (x : α) (hx : x ∈ l) (d : Nat) :
    ∃ π : List α → List α, HashOrder π ∧ pick ((Coll.hashed l).iter (fun _ _ => true) π) d = some x := by
  have hpos : 0 < l.length := List.length_pos_of_mem hx
  have hi : d % l.length < l.length := Nat.mod_lt _ hpos
  refine ⟨fun m => if m = l then placeAt l x (d % l.length) else m, ?_, ?_⟩
  · intro m
    by_cases hm : m = l
    · subst hm; simpa using placeAt_perm hx _
    · simp [hm]
  · have hlen : (placeAt l x (d % l.length)).length = l.length := (placeAt_perm hx _).length_eq
    have hne : (placeAt l x (d % l.length)).isEmpty = false := by
      cases hp : placeAt l x (d % l.length) with
      | nil => rw [hp] at hlen; simp at hlen; omega
      | cons _ _ => rfl
    simp only [Coll.iter, if_true, pick, hne, hlen]
    simpa using placeAt_getElem hx hi

/-- One hashed choice point with two different candidates: for every PRNG value there are two
hash orders under which the choice differs. -/
theorem hashed_choice_diverges {α} [DecidableEq α] (l : List α) (x y : α) (hx : x ∈ l) (hy : y ∈ l)
    (hxy : x ≠ y) (d : Nat) :
    ∃ π₁ π₂ : List α → List α, HashOrder π₁ ∧ HashOrder π₂ ∧
      pick ((Coll.hashed l).iter (fun _ _ => true) π₁) d
        ≠ pick ((Coll.hashed l).iter (fun _ _ => true) π₂) d := by
  obtain ⟨π₁, h₁, e₁⟩ := hashed_reaches_every_candidate l x hx d
  obtain ⟨π₂, h₂, e₂⟩ := hashed_reaches_every_candidate l y hy d
  refine ⟨π₁, π₂, h₁, h₂, ?_⟩
  rw [e₁, e₂]
  intro h
  exact hxy (Option.some.inj h)

/-- The program of `hashed_cex`: a single `randomness.choice` over the hashed set `{0, 1}`; the
state is the chosen element. -/
def cexProg : Option Nat → Option (Step (Option Nat) Nat) :=
  fun s => if s.isNone then some (.choose (fun _ => .hashed [0, 1]) (fun _ r => r)) else none

/-- `hashed_cex`: the same seed (stream), budget and program give two different outputs under two
hash orders (identity and reversal). -/
theorem hashed_cex :
    HashOrder (fun l : List Nat => l) ∧ HashOrder (List.reverse : List Nat → List Nat) ∧
    (run Nat.ble (fun l => l) (fun _ => 0) cexProg 1 (none, 0)).1
      ≠ (run Nat.ble List.reverse (fun _ => 0) cexProg 1 (none, 0)).1 := by
  refine ⟨fun _ => List.Perm.refl _, fun l => List.reverse_perm l, by decide⟩

/-- Non-vacuity of `ordered_runs_equal`: a program that really consults the collections (a `choose`
over a sorted set and a drawing loop over an ordered list) satisfies `OrderedOnly`. -/
def okProg : List Nat → Option (Step (List Nat) Nat) :=
  fun s =>
    if s.length = 0 then some (.choose (fun _ => .sortedSet [3, 1, 2]) (fun s r => r.toList ++ s))
    else if s.length = 1 then some (.forEach (fun _ => .ordered [7, 8]) (fun s a d => (a + d) :: s))
    else none

example : OrderedOnly okProg := by
  intro s stp c hs hc
  unfold okProg at hs
  split at hs
  · cases hs; cases hc; rfl
  · split at hs
    · cases hs; cases hc; rfl
    · cases hs

example : (run Nat.ble List.reverse (fun i => i + 1) okProg 5 ([], 0)) = ([11, 9, 2], 3) := by decide

example : LinearLe Nat.ble where
  trans := by intro a b c; simp only [Nat.ble_eq]; omega
  total := by intro a b; simp only [Bool.or_eq_true, Nat.ble_eq]; omega
  antisymm := by intro a b; simp only [Nat.ble_eq]; omega

/-! ## Part B -/

/-- `_resolve_head_references` (repaired): the verdict, the in-place extension of `rename` and the
draws consumed do not depend on the hash iteration order of `used_variables()`. -/
theorem resolve_hash_independent (tc : TC) (ht : List (Name × Option Ty)) (dropped : List Name)
    {o₁ o₂ : List Name} (hp : o₁.Perm o₂) (rn : List (Name × Name)) (ds : List Nat) :
    resolve true tc ht dropped o₁ rn ds = resolve true tc ht dropped o₂ rn ds := by
  simp only [resolve, if_true, sortNames_eq_of_perm hp]

theorem appendStep_hash_independent (ht : List (Name × Option Ty)) (st : AState) (s : Stmt)
    {o₁ o₂ : List Name} (hp : o₁.Perm o₂) :
    appendStep true ht st (s, o₁) = appendStep true ht st (s, o₂) := by
  simp only [appendStep, resolve_hash_independent st.tc ht st.dropped hp]

theorem appendLoop_hash_independent (ht : List (Name × Option Ty)) (ss : List Stmt) :
    ∀ (os₁ os₂ : List (List Name)) (st : AState), OrdersOf ss os₁ → OrdersOf ss os₂ →
      appendLoop true ht (ss.zip os₁) st = appendLoop true ht (ss.zip os₂) st := by
  induction ss with
  | nil => intro os₁ os₂ st _ _; simp [appendLoop]
  | cons s ss ih =>
    intro os₁ os₂ st h₁ h₂
    cases os₁ with
    | nil => simp [OrdersOf] at h₁
    | cons o₁ os₁ =>
      cases os₂ with
      | nil => simp [OrdersOf] at h₂
      | cons o₂ os₂ =>
        simp only [OrdersOf] at h₁ h₂
        simp only [List.zip_cons_cons, appendLoop]
        rw [appendStep_hash_independent ht st s (h₁.1.trans h₂.1.symm)]
        cases appendStep true ht st (s, o₂) with
        | error e => rfl
        | ok st' => exact ih os₁ os₂ st' h₁.2 h₂.2

/-- `append_test_case_from` (repaired), for every receiver, donor, split point and draw list: the
resulting test case, rename map, dropped set and remaining draws are the same under any two hash
iteration orders of the tail statements' used-variable sets. -/
theorem append_hash_independent (self : TC) (other : List Stmt) (start : Nat)
    (os₁ os₂ : List (List Name)) (draws : List Nat)
    (h₁ : ValidOrders other start os₁) (h₂ : ValidOrders other start os₂) :
    appendFrom true self other start os₁ draws = appendFrom true self other start os₂ draws := by
  unfold appendFrom
  exact appendLoop_hash_independent _ _ os₁ os₂ _ h₁ h₂

/-- Witness for D25.  Receiver: `var_0, var_1 : T0`.  Donor: head `var_0, var_1 : T0`, tail
`f(var_0, var_1)`, split point 2, PRNG indices 0 then 1. -/
def cexSelf : TC :=
  { stmts := [{ bound := some "var_0", ty := some 0, names := ["k"] },
              { bound := some "var_1", ty := some 0, names := ["k"] }], counter := 2 }
def cexOther : List Stmt :=
  [ { bound := some "var_0", ty := some 0, names := ["k"] },
    { bound := some "var_1", ty := some 0, names := ["k"] },
    { bound := none, ty := none, names := ["f", "var_0", "var_1"] } ]
def cexOrders₁ : List (List Name) := [["f", "var_0", "var_1"]]
def cexOrders₂ : List (List Name) := [["var_1", "f", "var_0"]]

/-- The unrepaired loop (`for name in stmt.used_variables()`): both order lists are hash orders of
the same statement, yet the offspring differs (`f(var_0, var_1)` resp. `f(var_1, var_0)`). -/
theorem append_unsorted_cex :
    ValidOrders cexOther 2 cexOrders₁ ∧ ValidOrders cexOther 2 cexOrders₂ ∧
    (appendFrom false cexSelf cexOther 2 cexOrders₁ [0, 1]).toOption.map (·.tc.stmts.getLast?)
      = some (some { bound := none, ty := none, names := ["f", "var_0", "var_1"] }) ∧
    (appendFrom false cexSelf cexOther 2 cexOrders₂ [0, 1]).toOption.map (·.tc.stmts.getLast?)
      = some (some { bound := none, ty := none, names := ["f", "var_1", "var_0"] }) := by
  refine ⟨?_, ?_, by decide, by decide⟩
  · exact ⟨List.Perm.refl _, trivial⟩
  · exact ⟨List.perm_append_comm (l₁ := ["var_1"]) (l₂ := ["f", "var_0"]), trivial⟩

/-- Non-vacuity for `append_hash_independent` on the same witness (repaired loop, two different
hash orders, a statement appended with remapped references). -/
example : appendFrom true cexSelf cexOther 2 cexOrders₁ [0, 1]
    = appendFrom true cexSelf cexOther 2 cexOrders₂ [0, 1] := by decide

example : (appendFrom true cexSelf cexOther 2 cexOrders₂ [0, 1]).toOption.map (·.tc.stmts.getLast?)
    = some (some { bound := none, ty := none, names := ["f", "var_0", "var_1"] }) := by decide

/-! ## Part C — set values in exported assertions -/

/-- The repaired renderer (`sortSets = true`): the text written for a value — whatever it nests:
lists, tuples, dicts, sets — is the same under any two hash orders. -/
theorem render_sorted_hash_independent {π₁ π₂ : List String → List String}
    (h₁ : HashOrder π₁) (h₂ : HashOrder π₂) (v : PyVal) :
    render true π₁ v = render true π₂ v :=
  (render_sorted_eq h₁ h₂).1 v

/-- The original renderer (`list(value)`): the set `{'a', 'b'}` is written as `{'a', 'b'}` under one
hash order and as `{'b', 'a'}` under another. -/
theorem render_hash_order_cex :
    HashOrder (fun l : List String => l) ∧ HashOrder (List.reverse : List String → List String) ∧
    render false (fun l => l) (.set [.atom "'a'", .atom "'b'"]) = "{'a', 'b'}" ∧
    render false List.reverse (.set [.atom "'a'", .atom "'b'"]) = "{'b', 'a'}" := by
  refine ⟨fun _ => List.Perm.refl _, fun l => List.reverse_perm l, by decide, by decide⟩

/-- Non-vacuity: a nested value with two sets, rendered by the repaired renderer under reversal. -/
example : render true List.reverse
    (.dict [.atom "'k'"] [.tuple [.set [.atom "'b'", .atom "'a'"], .list [.set [.atom "2", .atom "1"]]]])
    = "{'k': ({'a', 'b'}, [{1, 2}])}" := by decide

example : render true (fun l => l) (.tuple [.set []]) = "(set(), )" := by decide

/-! ## Part D — seeds of auxiliary streams -/

/-- A stream seeded with the configured seed does not depend on the interpreter's string hash. -/
theorem subseed_config_hash_independent (mix : Nat → Nat → Nat) (h₁ h₂ : String → Nat) (seed : Nat) :
    subSeed mix h₁ seed .config = subSeed mix h₂ seed .config := rfl

/-- Same seed, same configuration, same budget, auxiliary streams seeded from the configuration
only, ordered collections at all choice points ⇒ identical files under any two string-hash
functions and hash orders. -/
theorem same_seed_same_files_aux_streams {σ α β} {le : α → α → Bool} (h : LinearLe le)
    {π₁ π₂ : List α → List α} (hπ₁ : HashOrder π₁) (hπ₂ : HashOrder π₂)
    (mix : Nat → Nat → Nat) (sh₁ sh₂ : String → Nat) (prng : Nat → Nat → Nat) (seed : Nat)
    (prog : σ → Option (Step σ α)) (hp : OrderedOnly prog) (budget : Nat) (init : σ) (render : σ → β) :
    render (run le π₁ (prng (subSeed mix sh₁ seed .config)) prog budget (init, 0)).1
      = render (run le π₂ (prng (subSeed mix sh₂ seed .config)) prog budget (init, 0)).1 :=
  same_seed_same_files h hπ₁ hπ₂ prng seed prog hp budget init render

/-- A stream seeded with `hash((seed, name))`: as soon as the mixing function separates two hash
values, two interpreters draw from differently seeded streams. -/
theorem subseed_mixhash_diverges (mix : Nat → Nat → Nat) (seed a b : Nat) (hm : mix seed a ≠ mix seed b)
    (name : String) :
    ∃ h₁ h₂ : String → Nat, subSeed mix h₁ seed (.mixHash name) ≠ subSeed mix h₂ seed (.mixHash name) :=
  ⟨fun _ => a, fun _ => b, hm⟩

example : subSeed (· + ·) (fun _ => 1) 5 (.mixHash "AOR") ≠ subSeed (· + ·) (fun _ => 2) 5 (.mixHash "AOR") := by
  decide

/-- `_select_mutations` creates a sampling stream only when the cap bites, and seeds it with the
configured seed. -/
theorem samplingSeeds_spec (seed total : Nat) (cap : Int) :
    samplingSeeds seed total cap = (if 0 ≤ cap ∧ cap < (total : Int) then [seed] else []) := rfl

end PynguinModel.Repro

/-! ## `OrderedSet` operations with a hashed argument (on the C34 model) -/
namespace PynguinModel.OrderedSet

/-- Operations that only test membership in their argument are independent of the order in which
a (hashed) argument is listed. -/
theorem orderedset_membership_ops_hash_independent (l : List Elem) {o₁ o₂ : List Elem}
    (hp : o₁.Perm o₂) :
    differenceUpdate l [o₁] = differenceUpdate l [o₂] ∧
    intersectionUpdate l o₁ = intersectionUpdate l o₂ ∧
    issubset l o₁ = issubset l o₂ ∧ issuperset l o₁ = issuperset l o₂ := by
  have hm : ∀ x, x ∈ o₁ ↔ x ∈ o₂ := fun x => hp.mem_iff
  refine ⟨?_, ?_, ?_, ?_⟩
  · simp [differenceUpdate, inAny, hm]
  · simp [intersectionUpdate, hm]
  · simp [issubset, hm]
  · simp only [issuperset, List.all_eq, decide_eq_true_eq]
    simp [hm]

/-- `OrderedSet.update(a_set)` is not: the hash order of the argument becomes the iteration order. -/
theorem orderedset_update_hashed_cex :
    ([1, 2] : List Elem).Perm [2, 1] ∧ update [] [1, 2] ≠ update [] [2, 1] := by
  exact ⟨List.Perm.swap (2 : Elem) 1 [], by decide⟩

end PynguinModel.OrderedSet
