import PynguinModel.Lemmas.TypesDist
import PynguinModel.Lemmas.Generators
/-!
# C25 — Subtyping is a preorder consistent with the class hierarchy

Property theorems about the model `Model/Types.lean` of `TypeSystem.is_subtype / is_maybe_subtype /
subtype_distance / is_subclass` (tied to the code by `harness/c25.py`).  Types are well-formed (`Ty.wf`: known
classes, list/set/dict with their hard-coded number of arguments, non-empty unions) — exactly what the type
system itself constructs; on other inputs the Python code raises.

The unchanged code does not satisfy three clauses of the property at full strength; for each the full statement
is kept as a `def …_full : Prop`, refuted on a witness (`…_cex`), and the strongest true version is proved
(`…_partial`) with the excluded input class as a decidable hypothesis:
* transitivity fails through `Any` (`Any` is top and bottom);
* a distance is defined for `list[object]`/`list[int]` although generics are invariant for `is_maybe_subtype`;
* the distance of a type to itself is `any_distance` per `Any` inside, undefined with `None` inside or for a
  union without an `Instance` member.
-/
namespace PynguinModel.Types

/-! ## concrete hierarchy used by the examples and counterexamples
`0 object, 1 int, 2 str, 3 list, 4 set, 5 float, 6 bool, 7 MyInt(int)`; numeric tower enabled. -/
def gEx : Graph :=
  enableTower (ofClassTable [(0, []), (1, [0]), (2, [0]), (3, [0]), (4, [0]), (5, [0]), (6, [1]), (7, [1])]
    [(3, 1), (4, 1)]) 6 1 5 8
def tObj : Ty := .inst 0 []
def tInt : Ty := .inst 1 []
def tStr : Ty := .inst 2 []
def tFloat : Ty := .inst 5 []
def tList (t : Ty) : Ty := .inst 3 [t]
def tSet (t : Ty) : Ty := .inst 4 [t]

/-! ## 1. reflexive -/

/-- `is_subtype(T, T)` and `is_maybe_subtype(T, T)` hold for every well-formed type. -/
theorem sub_refl (g : Graph) (T : Ty) (hT : T.wf g = true) :
    isSubtype g T T = true ∧ isMaybeSubtype g T T = true :=
  ⟨sub_refl_aux g false false T.size T (Nat.le_refl _) hT, sub_refl_aux g true false T.size T (Nat.le_refl _) hT⟩

example : (Ty.union [tList tInt, .none, .tuple false [tStr, .any]]).wf gEx = true := by decide

/-! ## 2. everything is a subtype of Any -/

theorem sub_any_top (g : Graph) (T : Ty) : isSubtype g T .any = true ∧ isMaybeSubtype g T .any = true :=
  ⟨sub_any_right g false false T, sub_any_right g true false T⟩

/-! ## 3. a union is a subtype exactly when all its members are -/

theorem union_left_iff_all (g : Graph) (ls : List Ty) (R : Ty) :
    isSubtype g (.union ls) R = true ↔ ∀ l ∈ ls, isSubtype g l R = true := by
  by_cases hR : R = .any
  · subst hR; simp [isSubtype, sub_any_right]
  · simp [isSubtype, sub_union_left g false false ls R hR, List.all_eq_true]

/-- the lenient check: some member suffices (right side not `Any`) -/
theorem maybe_union_left_iff_any (g : Graph) (ls : List Ty) (R : Ty) (hR : R ≠ .any) :
    isMaybeSubtype g (.union ls) R = true ↔ ∃ l ∈ ls, isMaybeSubtype g l R = true := by
  simp [isMaybeSubtype, sub_union_left g true false ls R hR, List.any_eq_true]

example : isSubtype gEx (.union [tInt, tFloat]) tFloat = true ∧ isSubtype gEx (.union [tInt, tStr]) tFloat = false ∧
    isMaybeSubtype gEx (.union [tInt, tStr]) tFloat = true := by decide

/-! ## 4. class subsumption = reachability = Python's `issubclass` on the analysed classes (+ numeric tower) -/

/-- `is_subclass(l, r)` (networkx `has_path(r, l)`, here a level BFS) holds exactly when `l` is reachable from `r`. -/
theorem subclass_iff_reach (g : Graph) (l r : Cls) : isSubclass g l r = true ↔ Reach g r l :=
  isSubclass_iff g l r

theorem subclass_refl (g : Graph) (c : Cls) : isSubclass g c c = true :=
  (isSubclass_iff g c c).mpr (Reach.refl c)

theorem subclass_trans (g : Graph) (a b c : Cls) (h1 : isSubclass g a b = true) (h2 : isSubclass g b c = true) :
    isSubclass g a c = true :=
  (isSubclass_iff g a c).mpr (((isSubclass_iff g b c).mp h2).trans ((isSubclass_iff g a b).mp h1))

/-- the defined distance is the length of an existing path: defined ⇔ subclass, and 0 on the diagonal -/
theorem spl_defined_iff_subclass (g : Graph) (s t : Cls) : (spl g s t).isSome = isSubclass g t s := rfl

/-- On the graph that the `__bases__` loop of the module analysis builds, `is_subclass` is `issubclass`. -/
theorem subclass_agrees_issubclass (tbl : List (Cls × List Cls)) (gen : List (Cls × Nat)) (c d : Cls) :
    isSubclass (ofClassTable tbl gen) c d = true ↔ PySubclass tbl c d := by
  rw [isSubclass_iff]
  constructor
  · intro h
    induction h with
    | refl => exact PySubclass.refl _
    | @step a b c e _ ih =>
      obtain ⟨bases, hm, hb⟩ := mem_edges_ofClassTable.mp e
      exact ih.trans (PySubclass.base hm hb (PySubclass.refl _))
  · intro h
    induction h with
    | refl => exact Reach.refl _
    | base hc hb _ ih => exact ih.tail (mem_edges_ofClassTable.mpr ⟨_, hc, hb⟩)

/-- `enable_numeric_tower` keeps every subclass fact and adds `bool <: int <: float <: complex`. -/
theorem tower_subclass (g : Graph) (b i f c : Cls) :
    (∀ x y, isSubclass g x y = true → isSubclass (enableTower g b i f c) x y = true) ∧
    isSubclass (enableTower g b i f c) b i = true ∧ isSubclass (enableTower g b i f c) i f = true ∧
    isSubclass (enableTower g b i f c) f c = true ∧ isSubclass (enableTower g b i f c) b c = true := by
  have e1 : (i, b) ∈ (enableTower g b i f c).edges := by simp [enableTower_edges]
  have e2 : (f, i) ∈ (enableTower g b i f c).edges := by simp [enableTower_edges]
  have e3 : (c, f) ∈ (enableTower g b i f c).edges := by simp [enableTower_edges]
  refine ⟨?_, ?_, ?_, ?_, ?_⟩
  · intro x y h
    rw [isSubclass_iff] at h ⊢
    exact Reach.mono (by intro e he; simp [enableTower_edges, he]) h
  · exact (isSubclass_iff _ _ _).mpr (Reach.step e1 (Reach.refl _))
  · exact (isSubclass_iff _ _ _).mpr (Reach.step e2 (Reach.refl _))
  · exact (isSubclass_iff _ _ _).mpr (Reach.step e3 (Reach.refl _))
  · exact (isSubclass_iff _ _ _).mpr (Reach.step e3 (Reach.step e2 (Reach.step e1 (Reach.refl _))))

example : isSubclass gEx 7 5 = true ∧ isSubclass gEx 6 8 = true ∧ isSubclass gEx 5 1 = false ∧
    spl gEx 0 7 = some 2 ∧ spl gEx 7 0 = none := by decide

/-! ## 5. transitive -/

/-- the property's clause at full strength -/
def C25_trans_full : Prop :=
  ∀ (g : Graph) (A B C : Ty), A.wf g = true → B.wf g = true → C.wf g = true →
    isSubtype g A B = true → isSubtype g B C = true → isSubtype g A C = true

/-- `int <: Any <: str` but not `int <: str` ("Any wins always": `Any` is below everything as well). -/
theorem sub_trans_cex : ¬ C25_trans_full := by
  intro h
  have := h gEx tInt .any tStr (by decide) (by decide) (by decide) (by decide) (by decide)
  revert this; decide

/-- `is_subtype` is transitive whenever the middle type contains no `Any` (on hierarchies where no class of
another arity sits between two hard-coded generics of the same arity — true for graphs built from Python classes,
decided by `genericsConvexB`). -/
theorem sub_trans_partial (g : Graph) (hg : GenericsConvex g) (A B C : Ty)
    (hA : A.wf g = true) (hB : B.wf g = true) (hC : C.wf g = true) (hB' : B.anyFree = true)
    (h1 : isSubtype g A B = true) (h2 : isSubtype g B C = true) : isSubtype g A C = true :=
  sub_trans_aux g hg _ A B C (Nat.le_refl _) hA hB hC hB' h1 h2

/-- the executable test implies the hypothesis of `sub_trans_partial` -/
theorem generics_convex_of_check (g : Graph) (h : genericsConvexB g = true) : GenericsConvex g :=
  genericsConvexB_sound g h

example : GenericsConvex gEx := genericsConvexB_sound gEx (by decide)
example : (tList tInt).wf gEx = true ∧ (Ty.union [tList tInt, tStr]).anyFree = true ∧
    isSubtype gEx (tList tInt) (.union [tList tInt, tStr]) = true ∧
    isSubtype gEx (.union [tList tInt, tStr]) (.union [tObj, .none]) = true := by decide

/-! ## 6. distance of identical types -/

def C25_dist_refl_full : Prop :=
  ∀ (g : Graph) (anyD : Nat) (T : Ty), T.wf g = true → dist g anyD T T = some 0

/-- `subtype_distance(Any, Any) = any_distance = 30`, `subtype_distance(None, None)` and
`subtype_distance(tuple[int] | tuple[str], same)` are undefined. -/
theorem dist_refl_cex : ¬ C25_dist_refl_full ∧ dist gEx 30 .any .any = some 30 ∧ dist gEx 30 .none .none = none ∧
    dist gEx 30 (.union [.tuple false [tInt], .tuple false [tStr]])
      (.union [.tuple false [tInt], .tuple false [tStr]]) = none ∧
    dist gEx 30 (tList .any) (tList .any) = some 30 := by
  refine ⟨?_, by decide, by decide, by decide, by decide⟩
  intro h
  have := h gEx 30 .none (by decide)
  revert this; decide

/-- The distance from a type to itself is 0 when the type contains neither `Any` nor `None` and every union in
it has an `Instance` among its direct members. -/
theorem dist_refl_zero_partial (g : Graph) (anyD : Nat) (T : Ty) (hT : T.reflOK = true) :
    dist g anyD T T = some 0 :=
  dist_refl_aux g anyD T.size T (Nat.le_refl _) hT

example : (Ty.union [tList tInt, .tuple false [tStr, tObj]]).reflOK = true := by decide

/-! ## 7. a distance is defined only when the subtype may be a subtype -/

def C25_dist_maybe_full : Prop :=
  ∀ (g : Graph) (anyD : Nat) (T S : Ty) (k : Nat), T.wf g = true → S.wf g = true →
    dist g anyD T S = some k → isMaybeSubtype g S T = true

/-- `subtype_distance(list[object], list[int]) = 1`, but generics are invariant for `is_maybe_subtype`. -/
theorem dist_maybe_cex : ¬ C25_dist_maybe_full := by
  intro h
  have := h gEx 30 (tList tObj) (tList tInt) 1 (by decide) (by decide) (by decide)
  revert this; decide

/-- Full strength for the covariant reading of generic arguments: a defined distance implies that the subtype
may be a subtype of the supertype when `list[int]` is allowed to stand for `list[object]` (repaired code:
the classes of two generic instances must be related). -/
theorem dist_defined_imp_maybe_cov (g : Graph) (anyD : Nat) (T S : Ty) (k : Nat) (hT : T.wf g = true)
    (hS : S.wf g = true) (h : dist g anyD T S = some k) : isMaybeSubtypeCov g S T = true :=
  dist_imp_cov_aux g anyD _ T S k (Nat.le_refl _) hT hS h

/-- The property's clause itself holds whenever one of the two types has no `Instance` with type arguments. -/
theorem dist_defined_imp_maybe_partial (g : Graph) (anyD : Nat) (T S : Ty) (k : Nat) (hT : T.wf g = true)
    (hS : S.wf g = true) (hna : T.noArgs = true ∨ S.noArgs = true) (h : dist g anyD T S = some k) :
    isMaybeSubtype g S T = true := by
  have := dist_defined_imp_maybe_cov g anyD T S k hT hS h
  simp only [isMaybeSubtypeCov, isMaybeSubtype] at this ⊢
  rw [← sub_cov_irrelevant_aux g true _ S T (Nat.le_refl _) hna.symm]; exact this

/-- the repair of `visit_instance`: unrelated classes give no distance, whatever the arguments
(`subtype_distance(list[int], set[int])` was `0`) -/
theorem dist_unrelated_generic_none (g : Graph) (anyD : Nat) (c d : Cls) (as bs : List Ty)
    (h : isSubclass g d c = false) : dist g anyD (.inst c as) (.inst d bs) = none := by
  have hs : spl g c d = none := by
    simp only [isSubclass] at h; cases hh : spl g c d <;> simp [hh] at h ⊢
  rw [dist_unfold]; simp only [distStep, hs]
  split <;> simp

example : dist gEx 30 (tList tInt) (tSet tInt) = none ∧ dist gEx 30 (tList tFloat) (tList tInt) = some 1 ∧
    dist gEx 30 (.union [tStr, tObj]) (.inst 7 []) = some 2 ∧ isMaybeSubtype gEx (.inst 7 []) (.union [tStr, tObj]) = true ∧
    (Ty.union [tStr, tObj]).noArgs = true := by decide

/-! ## 8. `_fixup_known_generics` establishes the arity part of well-formedness -/

theorem fixup_arity (g : Graph) (c : Cls) (as : List Ty) (k : Nat) (h : arity g c = some k) :
    ∃ as', fixup g (.inst c as) = .inst c as' ∧ as'.length = k :=
  ⟨fixupArgs g c as, rfl, fixupArgs_length g c as k h⟩

example : fixup gEx (.inst 3 []) = .inst 3 [.any] := rfl

/-! ## 9. a union on the right: some member suffices (both relations); strict ⇒ lenient -/

/-- `is_subtype(L, R₁ | … | Rₙ)` / `is_maybe_subtype(L, R₁ | … | Rₙ)` for a left operand that is not itself a union
(the shared fast path of both functions) hold exactly when the same relation holds to some member — whatever
unions are nested inside `L`. -/
theorem union_right_iff_any (g : Graph) (L : Ty) (rs : List Ty) (hL : L.isUnion = false) :
    (isSubtype g L (.union rs) = true ↔ ∃ r ∈ rs, isSubtype g L r = true) ∧
    (isMaybeSubtype g L (.union rs) = true ↔ ∃ r ∈ rs, isMaybeSubtype g L r = true) := by
  simp [isSubtype, isMaybeSubtype, sub_union_right g _ _ L rs hL, List.any_eq_true]

/-- Widening the right-hand side to a union that contains it never loses a (may-be-)subtype fact, for every
well-formed left operand (unions included). -/
theorem union_right_mono (g : Graph) (L r : Ty) (rs : List Ty) (hL : L.wf g = true) (hr : r ∈ rs) :
    (isSubtype g L r = true → isSubtype g L (.union rs) = true) ∧
    (isMaybeSubtype g L r = true → isMaybeSubtype g L (.union rs) = true) :=
  ⟨sub_union_right_of_mem g false false L.size L r rs (Nat.le_refl _) hL hr,
   sub_union_right_of_mem g true false L.size L r rs (Nat.le_refl _) hL hr⟩

/-- The lenient relation contains the strict one ("this check only differs from is_subtype in how it handles
Unions": `any` instead of `all` over a non-empty union). -/
theorem sub_imp_maybe (g : Graph) (L R : Ty) (hL : L.wf g = true) (hR : R.wf g = true)
    (h : isSubtype g L R = true) : isMaybeSubtype g L R = true :=
  sub_lenient_of_strict_aux g false _ L R (Nat.le_refl _) hL hR h

/-- nested unions: `tuple[int | str]` may be a `tuple[int]`, hence a `tuple[int] | str`, and (invariant argument)
`list[int | str]` may be a `list[int] | None`; none of these holds strictly; the distances are defined. -/
example :
    isMaybeSubtype gEx (.tuple false [.union [tInt, tStr]]) (.union [.tuple false [tInt], tStr]) = true ∧
    isSubtype gEx (.tuple false [.union [tInt, tStr]]) (.union [.tuple false [tInt], tStr]) = false ∧
    isMaybeSubtype gEx (tList (.union [tInt, tStr])) (.union [tList tInt, .none]) = true ∧
    isSubtype gEx (tList (.union [tInt, tStr])) (.union [tList tInt, .none]) = false ∧
    isMaybeSubtype gEx (.tuple false [.tuple false [.union [tInt, tStr]]])
      (.union [.tuple false [.tuple false [tStr]], .tuple false [tInt, tInt]]) = true ∧
    dist gEx 30 (.union [.tuple false [tInt], tStr]) (.tuple false [.union [tInt, tStr]]) = some 0 ∧
    (Ty.tuple false [.union [tInt, tStr]]).isUnion = false := by decide

/-! ## 10. parameterised instances of different classes -/

/-- `0 object, 1 int, 2 str, 3 list, 4 dict, 5 MyList(list), 6 Stack(MyList), 7 Box, 8 FancyBox(Box),
9 OrderedDict(dict)`; no tower. -/
def gGen : Graph :=
  ofClassTable [(0, []), (1, [0]), (2, [0]), (3, [0]), (4, [0]), (5, [3]), (6, [5]), (7, [0]), (8, [7]), (9, [4])]
    [(3, 1), (4, 2)]

/-- A distance between two `Instance`s — with or without type arguments — is defined only if the subtype's class
is a subclass of the supertype's class (direction matters: `visit_instance` asks for a path supertype → subtype). -/
theorem dist_inst_defined_imp_subclass (g : Graph) (anyD : Nat) (c d : Cls) (as bs : List Ty) (k : Nat)
    (h : dist g anyD (.inst c as) (.inst d bs) = some k) : isSubclass g d c = true := by
  cases hs : isSubclass g d c with
  | true => rfl
  | false => rw [dist_unrelated_generic_none g anyD c d as bs hs] at h; cases h

/-- Conversely, related classes and defined argument distances give a defined distance: the sum of the argument
distances (both sides parameterised). -/
theorem dist_inst_args_related (g : Graph) (anyD : Nat) (c d : Cls) (as bs : List Ty)
    (has : as ≠ []) (hbs : bs ≠ []) (h : isSubclass g d c = true) :
    dist g anyD (.inst c as) (.inst d bs) = sumOpt (List.zipWith (dist g anyD) as bs) := by
  rw [dist_unfold]
  simp only [distStep]
  have h1 : (!as.isEmpty && !bs.isEmpty) = true := by
    cases as <;> cases bs <;> simp_all
  have h2 : (spl g c d).isNone = false := by
    simp only [isSubclass] at h; cases hh : spl g c d <;> simp [hh] at h ⊢
  simp [h1, h2]

example :
    dist gGen 30 (.inst 4 [.inst 2 [], .inst 1 []]) (.inst 9 [.inst 2 [], .inst 1 []]) = some 0 ∧
    dist gGen 30 (.inst 9 [.inst 2 [], .inst 1 []]) (.inst 4 [.inst 2 [], .inst 1 []]) = none ∧
    isMaybeSubtype gGen (.inst 9 [.inst 2 [], .inst 1 []]) (.inst 4 [.inst 2 [], .inst 1 []]) = true ∧
    isMaybeSubtype gGen (.inst 4 [.inst 2 [], .inst 1 []]) (.inst 9 [.inst 2 [], .inst 1 []]) = false ∧
    dist gGen 30 (.inst 7 [.inst 1 []]) (.inst 8 [.inst 1 []]) = some 0 ∧
    dist gGen 30 (.inst 8 [.inst 1 []]) (.inst 7 [.inst 1 []]) = none ∧
    dist gGen 30 (.inst 3 [.inst 0 []]) (.inst 6 [.inst 1 []]) = some 1 ∧
    dist gGen 30 (.inst 6 [.inst 1 []]) (.inst 3 [.inst 1 []]) = none := by decide

/-! ## 11. histories: queries interleaved with the construction of the hierarchy

`TypeSystem.is_subclass / is_subtype / is_maybe_subtype / subtype_distance / get_subclasses / get_superclasses` are
memoised (`functools.lru_cache`) and `add_subclass_edge` drops all memos.  The memo model is C26's
(`Model/Generators.lean`: `Memo`, `ask`, `addSubclassEdge`, `run`; freshness invariant in `Lemmas/Generators.lean`);
here the consequences for C25: "consistent with the class hierarchy" holds for every history, not only for type
systems that are built completely before the first query. -/
section History
open PynguinModel.Generators

/-- the `add_subclass_edge` calls of a history, in order -/
def histEdges : List Op → List (Cls × Cls)
  | [] => []
  | .edge a b :: ops => (a, b) :: histEdges ops
  | .ask _ :: ops => histEdges ops

/-- the graph after a history: the start graph plus the history's edges in call order; classes and arities unchanged -/
theorem finalGraph_edges : ∀ (ops : List Op) (g : Graph),
    (finalGraph g ops).edges = g.edges ++ histEdges ops ∧ (finalGraph g ops).generics = g.generics ∧
    (finalGraph g ops).nodes = g.nodes
  | [], g => by simp [finalGraph, histEdges]
  | .edge a b :: ops, g => by
    obtain ⟨h1, h2, h3⟩ := finalGraph_edges ops (addEdge g a b)
    simp only [finalGraph, histEdges]
    rw [h1, h2, h3]
    simp [addEdge]
  | .ask _ :: ops, g => by
    simpa [finalGraph, histEdges] using finalGraph_edges ops g

/-- the answer served for `q` after the history `ops` on a type system that started with empty caches -/
def served (anyD : Nat) (g : Graph) (ops : List Op) (q : Query) : Answer :=
  (ask anyD (run anyD false ⟨g, []⟩ ops).1 q).2

/-- After ANY history of memoised queries and `add_subclass_edge` calls (first edge of an isolated class, edges in any
order, repeated edges, diamond completion, shortcut edges, …) every query — `is_subclass`, `is_subtype`,
`is_maybe_subtype`, `subtype_distance`, `get_subclasses`, `get_superclasses` — is answered as on the FINAL graph:
no answer memoised before an edge survives it. -/
theorem history_answers_on_final_graph (anyD : Nat) (g : Graph) (ops : List Op) (q : Query) :
    served anyD g ops q = eval (finalGraph g ops) anyD q := by
  unfold served
  rw [ask_answer anyD _ q (run_fresh anyD ops _ (fresh_empty anyD g)), run_graph]

/-- … and every answer given DURING the history is the answer on the graph of that moment. -/
theorem history_answers_at_each_moment (anyD : Nat) (g : Graph) (ops : List Op) :
    (run anyD false ⟨g, []⟩ ops).2 = expected anyD g ops :=
  run_answers anyD ops ⟨g, []⟩ (fresh_empty anyD g)

/-- Consistency with the class hierarchy for interleaved construction: all classes registered without edges, then the
`(base, class)` pairs of a class table added in ANY order (repetitions allowed) with arbitrary queries in between —
the `is_subclass` answer served afterwards is Python's `issubclass`. -/
theorem history_subclass_agrees_issubclass (anyD : Nat) (nodes : List Cls) (tbl : List (Cls × List Cls))
    (gen : List (Cls × Nat)) (ops : List Op)
    (h : ∀ e, e ∈ histEdges ops ↔ e ∈ (ofClassTable tbl gen).edges) (c d : Cls) :
    served anyD ⟨nodes, [], gen⟩ ops (.subclass c d) = .b true ↔ PySubclass tbl c d := by
  rw [history_answers_on_final_graph, ← subclass_agrees_issubclass tbl gen c d]
  simp only [eval, Answer.b.injEq]
  rw [isSubclass_iff, isSubclass_iff]
  have he := (finalGraph_edges ops ⟨nodes, [], gen⟩).1
  constructor
  · exact Reach.mono (by intro e hm; rw [he] at hm; simpa using (h e).mp (by simpa using hm))
  · exact Reach.mono (by intro e hm; rw [he]; simpa using (h e).mpr hm)

/-- The clauses of the property hold for the answers SERVED after a history (the theorems above apply to the final
graph): reflexive, `Any` on top, a defined distance implies may-be-subtype (argument-free side). -/
theorem history_laws (anyD : Nat) (g : Graph) (ops : List Op) (T : Ty) (hT : T.wf (finalGraph g ops) = true) :
    served anyD g ops (.sub T T) = .b true ∧ served anyD g ops (.maybe T T) = .b true ∧
    served anyD g ops (.sub T .any) = .b true ∧
    (∀ (S : Ty) (k : Nat), S.wf (finalGraph g ops) = true → (T.noArgs = true ∨ S.noArgs = true) →
      served anyD g ops (.dist T S) = .d (some k) → served anyD g ops (.maybe S T) = .b true) := by
  simp only [history_answers_on_final_graph, eval, Answer.b.injEq, Answer.d.injEq]
  refine ⟨(sub_refl _ T hT).1, (sub_refl _ T hT).2, (sub_any_top _ T).1, ?_⟩
  intro S k hS hn hd
  exact dist_defined_imp_maybe_partial _ anyD T S k hT hS hn hd


/-- `0 object, 1 A, 2 B(A), 3 C(B, A)`: every class is registered first; `A` is asked about before its FIRST edge,
`subtype_distance(A, C)` before the shortcut edge `A → C`; the edge `object → A` is repeated. -/
def hEx : List Op :=
  [.ask (.subclass 1 0), .edge 0 1, .ask (.subclass 1 0), .edge 1 2, .edge 2 3,
   .ask (.dist (.inst 1 []) (.inst 3 [])), .edge 1 3, .edge 0 1,
   .ask (.dist (.inst 1 []) (.inst 3 [])), .ask (.sub (.inst 3 []) (.inst 0 []))]

example : (∀ e, e ∈ histEdges hEx ↔ e ∈ (ofClassTable [(0, []), (1, [0]), (2, [1]), (3, [2, 1])] []).edges) ∧
    (Ty.inst 3 []).wf (finalGraph ⟨[0, 1, 2, 3], [], []⟩ hEx) = true := by
  refine ⟨?_, by decide⟩
  intro e
  simp [hEx, histEdges, ofClassTable]
  grind

/-- the repaired `add_subclass_edge` serves current answers along `hEx`; with caches that survive an edge (`stale`)
the negative answer about `A` and the distance over the old path `A → B → C` keep being served. -/
example :
    (run 30 false ⟨⟨[0, 1, 2, 3], [], []⟩, []⟩ hEx).2 = [.b false, .b true, .d (some 2), .d (some 1), .b true] ∧
    (run 30 true ⟨⟨[0, 1, 2, 3], [], []⟩, []⟩ hEx).2 = [.b false, .b false, .d (some 2), .d (some 2), .b true] ∧
    served 30 ⟨[0, 1, 2, 3], [], []⟩ hEx (.subclass 3 0) = .b true := by decide

end History

end PynguinModel.Types
