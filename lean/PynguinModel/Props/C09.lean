import PynguinModel.Lemmas.Slice
import PynguinModel.Model.PyMini
/-!
# C09 — Dynamic slices are sound and checked lines were executed

Property theorems about the backward slicer of `Model/Slice.lean` (mirror of
`DynamicSlicer.slice` at statement-event granularity).  All statements are for **arbitrary traces**
(any list of events, no well-formedness assumption) and arbitrary criteria; the traces of the
PyMini interpreter (`Model/PyMini.lean`) are instances.

(a) checked lines ⊆ executed lines: `checked_lines_were_executed` (assertions),
    `statement_checked_lines_were_executed` (statements: `compute_statement_checked_lines` with its
    per-statement `_cleanse_included_implicit_return_none`).
(b) a slice contains only executed steps and its criterion: `slice_only_executed`,
    `slice_contains_criterion`, `slice_lines_were_executed`.
(c) every step the criterion depends on (data or control, transitively) is in the slice, and nothing
    else: `slice_is_dependence_closure`, `slice_closed_under_dependence`, `slice_is_least`;
    semantic reading of the data part: `slice_replay_reproduces_values`.
    For the lines a test case reports as checked by its statements: every line a bound statement's
    value depends on is reported, whatever statements come before or after it, except the line of that
    statement's own trailing `return None` (`statement_dependence_lines_checked`,
    `statement_checked_lines_accumulate`, `cleansing_drops_only_own_return_none_line`,
    `statement_checked_lines_monotone`); cleansing the ACCUMULATED set instead loses such lines
    (`acc_then_cleanse_cex`: `put(5); x = get(); n = put(7)` on an object).

The real slicer keys local variables by *code object*, not by frame.  `C09_full` states (c) for
that keying; it is false (`C09_code_keyed_cex`, a directly recursive function — reproduced on the
real slicer at every run) and proved for keyings that do not identify two frames
(`C09_code_keyed_partial`).
-/
namespace PynguinModel.C09
open PynguinModel.Slice PynguinModel.PyMini

/-! ## (c) the slice is exactly the dynamic-dependence closure of the criterion -/

/-- A step is in the slice iff the criterion transitively depends on it. -/
theorem slice_is_dependence_closure (tr : Trace) (c i : Nat) :
    i ∈ sliceBack tr c ↔ Reach tr c i :=
  mem_sliceBack_iff_reach tr c i

/-- Every step a sliced step depends on — by data (last definition of a used variable) or by control
(last executed controlling branch) — is in the slice. -/
theorem slice_closed_under_dependence (tr : Trace) (c : Nat) {i j : Nat}
    (hi : i ∈ sliceBack tr c) (hd : Dep tr i j) : j ∈ sliceBack tr c :=
  sliceBack_closed tr c hi hd

/-- The slice is the least such set. -/
theorem slice_is_least (tr : Trace) (c : Nat) (S : Nat → Prop) (hc : S c)
    (hcl : ∀ i j, S i → Dep tr i j → S j) : ∀ i ∈ sliceBack tr c, S i :=
  sliceBack_least tr c S hc hcl

/-- Every line the criterion depends on is among the slice's lines. -/
theorem dependence_lines_in_slice (tr : Trace) (c i : Nat) (h : Reach tr c i)
    (hl : (evAt tr i).line ≠ 0) : (evAt tr i).line ∈ sliceLines tr c := by
  have hm := (mem_sliceBack_iff_reach tr c i).mpr h
  unfold sliceLines linesOf
  simp only [List.mem_filter, List.mem_map]
  exact ⟨⟨i, hm, rfl⟩, by simpa using hl⟩

/-- Executing only the steps of (a superset of) the slice reproduces, at the criterion and at every
other sliced step, the value of every variable read there — for any step semantics `sem` that reads
only the step's `uses`. -/
theorem slice_replay_reproduces_values (tr : Trace) (sem : Nat → (Var → Int) → Var → Int)
    (hsem : ∀ i ρ ρ', (∀ u ∈ (evAt tr i).uses, ρ u = ρ' u) → ∀ v, sem i ρ v = sem i ρ' v)
    (ρ0 : Var → Int) (c : Nat) (sel : Nat → Bool) (hsel : ∀ i ∈ sliceBack tr c, sel i = true) :
    ∀ i ∈ sliceBack tr c, ∀ u ∈ (evAt tr i).uses,
      replay tr sem sel ρ0 i u = replay tr sem (fun _ => true) ρ0 i u := by
  intro i hi u hu
  exact replay_slice_agrees tr sem hsem ρ0 c sel
    (fun k hk => hsel k ((mem_sliceBack_iff_reach tr c k).mpr hk)) i
    ((mem_sliceBack_iff_reach tr c i).mp hi) u hu

/-! ## (b) only executed steps, and the criterion -/

theorem slice_contains_criterion (tr : Trace) (c : Nat) : c ∈ sliceBack tr c :=
  criterion_mem_sliceBack tr c

/-- Every sliced step is a step of this execution, not later than the criterion. -/
theorem slice_only_executed (tr : Trace) (c : Nat) (hc : c < tr.length) :
    ∀ i ∈ sliceBack tr c, i ≤ c ∧ i < tr.length := by
  intro i hi
  have := sliceBack_le tr c i hi
  exact ⟨this, by omega⟩

theorem slice_lines_were_executed (tr : Trace) (c : Nat) (hc : c < tr.length) :
    ∀ l ∈ sliceLines tr c, l ∈ executedLines tr :=
  sliceLines_subset_executed tr c hc

/-! ## (a) checked lines were executed -/

/-- `compute_statement_checked_lines` / `compute_assertion_checked_coverage`: whatever the slicing
criteria (statement stores, assertion positions), every reported line was executed. -/
theorem checked_lines_were_executed (tr : Trace) (crits : List Nat)
    (hc : ∀ c ∈ crits, c < tr.length) : ∀ l ∈ checkedLines tr crits, l ∈ executedLines tr :=
  checkedLines_subset_executed tr crits hc

/-! ## Statements: `compute_statement_checked_lines` (cleanse per statement, then accumulate) -/

/-- (a) for the statement path: whatever the criteria and whatever steps are `return None`s. -/
theorem statement_checked_lines_were_executed (tr : Trace) (rn : Nat → Bool) (crits : List Nat)
    (hc : ∀ c ∈ crits, c < tr.length) :
    ∀ l ∈ stmtCheckedLines tr rn crits, l ∈ executedLines tr :=
  stmtCheckedLines_subset_executed tr rn crits hc

/-- What one statement contributes is in the result: no other statement (earlier or later) can take
a line out again. -/
theorem statement_checked_lines_accumulate (tr : Trace) (rn : Nat → Bool) (crits : List Nat)
    {c : Nat} (hc : c ∈ crits) :
    ∀ l ∈ stmtLines tr rn c, l ∈ stmtCheckedLines tr rn crits :=
  fun _ hl => mem_stmtCheckedLines.2 ⟨c, hc, hl⟩

/-- Adding statements to a test case never removes a checked line. -/
theorem statement_checked_lines_monotone (tr : Trace) (rn : Nat → Bool) (crits more : List Nat) :
    ∀ l ∈ stmtCheckedLines tr rn crits, l ∈ stmtCheckedLines tr rn (crits ++ more) := by
  intro l hl
  obtain ⟨c, hc, h⟩ := mem_stmtCheckedLines.1 hl
  exact mem_stmtCheckedLines.2 ⟨c, List.mem_append_left _ hc, h⟩

/-- The cleansing of a statement drops at most one line of its slice: the line of a `return None`
step of that very slice (the one directly before the criterion). -/
theorem cleansing_drops_only_own_return_none_line (tr : Trace) (rn : Nat → Bool) (c l : Nat)
    (hl : l ∈ sliceLines tr c) (hn : l ∉ stmtLines tr rn c) :
    cleanseLine tr rn (sliceBack tr c) = some l ∧
      ∃ r ∈ sliceBack tr c, rn r = true ∧ (evAt tr r).line = l := by
  have h1 : cleanseLine tr rn (sliceBack tr c) = some l := by
    apply Classical.byContradiction
    intro hne
    exact hn (mem_cleanse.2 ⟨hl, hne⟩)
  exact ⟨h1, cleanseLine_spec h1⟩

/-- (c) for the lines reported as checked by the statements of a test case: every line the value
stored by a bound statement depends on is reported — except the line of that statement's own
trailing `return None`, which `_cleanse_included_implicit_return_none` takes out of that statement's
contribution (it may still come in through another statement). -/
theorem statement_dependence_lines_checked (tr : Trace) (rn : Nat → Bool) (crits : List Nat)
    (c i : Nat) (hc : c ∈ crits) (h : Reach tr c i) (hl : (evAt tr i).line ≠ 0)
    (hk : cleanseLine tr rn (sliceBack tr c) ≠ some (evAt tr i).line) :
    (evAt tr i).line ∈ stmtCheckedLines tr rn crits :=
  mem_stmtCheckedLines.2 ⟨c, hc, mem_cleanse.2 ⟨dependence_lines_in_slice tr c i h hl, hk⟩⟩

/-- The other order — merge the statement's lines into the accumulated set, then cleanse the
accumulated set — as a counter-model. -/
def accThenCleanseLoop (tr : Trace) (rn : Nat → Bool) : List Nat → List Nat → List Nat
  | [], acc => acc
  | c :: rest, acc =>
    accThenCleanseLoop tr rn rest (cleanse tr rn (sliceBack tr c) (acc ++ sliceLines tr c))

/-- `statement_dependence_lines_checked` for that order: false. -/
def AccThenCleanseComplete : Prop :=
  ∀ (tr : Trace) (rn : Nat → Bool) (crits : List Nat) (c i : Nat), c ∈ crits → Reach tr c i →
    (evAt tr i).line ≠ 0 → cleanseLine tr rn (sliceBack tr c) ≠ some (evAt tr i).line →
    (evAt tr i).line ∈ accThenCleanseLoop tr rn crits []

/-- `class C0: a0 = 0; def m0(self, v0): self.a0 = v0 (line 4); def m1(self): return self.a0 (line 6)`
with the test `int_0 = 5; obj_1 = C0(); none_2 = obj_1.m0(int_0); int_3 = obj_1.m1();
none_4 = obj_1.m0(int_0)` — every statement bound. -/
def boxProg : Prog :=
  { ginit := [],
    funs := [{ defLn := 3, np := 1, body := [.asg 4 (.at .self 0) (.l 0)], retLn := 4, ret := .k 0,
               void := true, cls := 1 },
             { defLn := 5, np := 0, body := [], retLn := 6, ret := .at .self 0,
               void := false, cls := 1 }],
    classes := [{ ln := 1, defaults := [(2, 0, 0)], init := none }],
    test := [.const 5, .new 0 [], .mcall 1 0 [0], .mcall 1 1 [], .mcall 1 0 [0]],
    asserts := [] }

def boxResult : Result := (run boxProg 100).getD ⟨[], [], [], [], [], []⟩
def boxRetNone : Nat → Bool := fun q => boxResult.retNone.contains q

/-- The value of `int_3` depends on line 4 (`self.a0 = v0`, which also carries `m0`'s implicit
`return None`), on line 6 and on the `def` lines 3 and 5 of the two methods found through `obj_1`; the
model of the code reports all of them, the other order loses line 4 to the later
`none_4 = obj_1.m0(int_0)`. -/
theorem box_witness :
    (sliceLines boxResult.trace (boxResult.crits.getD 3 0)).eraseDups = [3, 5, 4, 6] ∧
    (stmtLines boxResult.trace boxRetNone (boxResult.crits.getD 4 0)) = [3] ∧
    (stmtCheckedLines boxResult.trace boxRetNone boxResult.crits).eraseDups = [3, 5, 4, 6] ∧
    (accThenCleanseLoop boxResult.trace boxRetNone boxResult.crits []).eraseDups = [3, 5, 6] := by
  decide +kernel

theorem acc_then_cleanse_cex : ¬ AccThenCleanseComplete := by
  intro h
  have hex : ∃ i, i ∈ sliceBack boxResult.trace (boxResult.crits.getD 3 0) ∧
      (evAt boxResult.trace i).line = 4 := by decide +kernel
  obtain ⟨i, hi, hl⟩ := hex
  have hc : boxResult.crits.getD 3 0 ∈ boxResult.crits := by decide +kernel
  have hk : cleanseLine boxResult.trace boxRetNone
      (sliceBack boxResult.trace (boxResult.crits.getD 3 0)) = none := by decide +kernel
  have h4 := h boxResult.trace boxRetNone boxResult.crits _ i hc
    ((mem_sliceBack_iff_reach _ _ i).mp hi) (by rw [hl]; decide) (by rw [hk]; simp)
  rw [hl] at h4
  have hn : 4 ∉ accThenCleanseLoop boxResult.trace boxRetNone boxResult.crits [] := by
    decide +kernel
  exact hn h4

/-- Non-vacuity of `statement_dependence_lines_checked` on the same execution: the hypotheses hold for
the criterion of `int_3` and a step on line 4, and the conclusion is the non-trivial `4 ∈ …`. -/
example : ∃ i, i ∈ sliceBack boxResult.trace (boxResult.crits.getD 3 0) ∧
    (evAt boxResult.trace i).line = 4 ∧
    cleanseLine boxResult.trace boxRetNone (sliceBack boxResult.trace (boxResult.crits.getD 3 0)) ≠ some 4 ∧
    4 ∈ stmtCheckedLines boxResult.trace boxRetNone boxResult.crits := by decide +kernel

/-- … and the cleansing really fires for the void statements (their own line 4 is dropped). -/
example : cleanseLine boxResult.trace boxRetNone
    (sliceBack boxResult.trace (boxResult.crits.getD 4 0)) = some 4 := by decide +kernel

/-! ## Keying local variables by code object (what pynguin does) -/

/-- (c) for a slicer that sees frame `s` as code object `f s`. -/
def CodeKeyedComplete (tr : Trace) (f : Nat → Nat) (c : Nat) : Prop :=
  ∀ i, Reach tr c i → i ∈ sliceBack (rekey f tr) c

/-- Full-strength (c) for pynguin's keying: false. -/
def C09_full : Prop := ∀ (tr : Trace) (f : Nat → Nat) (c : Nat), CodeKeyedComplete tr f c

/-- Holds whenever the keying does not identify two frames (no code object is entered twice in the
execution); in fact the slice is then unchanged. -/
theorem C09_code_keyed_partial (tr : Trace) (f : Nat → Nat) (hf : ∀ a b, f a = f b → a = b)
    (c : Nat) : CodeKeyedComplete tr f c := by
  intro i hi
  rw [sliceBack_rekey_injective f hf tr c]
  exact (mem_sliceBack_iff_reach tr c i).mpr hi

/-- The witness: `def f0(v0): if v0 > 0: v1 = 1; v2 = f0(v0 - 1)  else: v1 = 6; v2 = 0;  return v1`
called as `int_0 = 1; int_1 = f0(int_0)`. -/
def witnessProg : Prog :=
  { ginit := [],
    funs := [⟨1, 1,
      [.ite 2 ⟨.gt, .l 0, .k 0⟩
        [.asg 3 (.l 1) (.k 1), .call 4 (.l 2) 0 [.bin .sub (.l 0) (.k 1)]]
        [.asg 6 (.l 1) (.k 6), .asg 7 (.l 2) (.k 0)]],
      8, .l 1, false, 0⟩],
    classes := [],
    test := [.const 1, .call 0 [0]],
    asserts := [] }

def witnessResult : Result := (run witnessProg 100).getD ⟨[], [], [], [], [], []⟩
def witnessTrace : Trace := witnessResult.trace
def witnessCrit : Nat := witnessResult.crits.getD 1 0
def witnessKey : Nat → Nat := codeOfFn witnessResult.codeOf

/-- Line 3 (`v1 = 1` of the outer frame, the value that is returned) is in the exact slice … -/
theorem witness_exact_slice : 3 ∈ sliceLines witnessTrace witnessCrit := by decide +kernel

/-- … but not in the code-object-keyed slice: the inner frame's `v1 = 6` (line 6) satisfies the
pending use of `v1` instead. -/
theorem witness_code_keyed_slice :
    3 ∉ sliceLines (rekey witnessKey witnessTrace) witnessCrit ∧
    6 ∈ sliceLines (rekey witnessKey witnessTrace) witnessCrit ∧
    6 ∉ sliceLines witnessTrace witnessCrit := by decide +kernel

theorem C09_code_keyed_cex : ¬ C09_full := by
  intro h
  have hex : ∃ i, i ∈ sliceBack witnessTrace witnessCrit ∧
      i ∉ sliceBack (rekey witnessKey witnessTrace) witnessCrit := by decide +kernel
  obtain ⟨i, hi, hni⟩ := hex
  exact hni (h witnessTrace witnessKey witnessCrit i ((mem_sliceBack_iff_reach _ _ i).mp hi))


/-! ## Loop-carried control dependence (second known deviation of the real slicer)

For a `while` whose body is one basic block, CPython 3.12 puts the repeated loop test at the end of
that block; `check_control_dependency` looks only at *proper* CDG descendants of the branch's node, so
the body is attributed to the first evaluation of the test only.  `run … (carried := false)` produces
the trace with exactly that attribution. -/

/-- (c) for loops as pynguin attributes them: every line of the exact slice is in the slice of the
trace without loop-carried control dependence.  False. -/
def C09_loop_full : Prop :=
  ∀ (p : Prog) (fuel : Nat) (r w : Result), run p fuel true = some r → run p fuel false = some w →
    ∀ k l, l ∈ sliceLines r.trace (r.crits.getD k 0) → l ∈ sliceLines w.trace (w.crits.getD k 0)

/-- `def f0(v0): v1 = 0; v2 = 0; while v2 < v0 % 4: v2 = v2 + 1; v1 = v0;  return v1` called as
`int_0 = 3; int_1 = f0(int_0)`: the returned `v1` was assigned in the third iteration, which runs
only because of `v2 = v2 + 1` (line 5). -/
def loopProg : Prog :=
  { ginit := [],
    funs := [⟨1, 1,
      [.asg 2 (.l 1) (.k 0), .asg 3 (.l 2) (.k 0),
       .wh 4 ⟨.lt, .l 2, .bin .mod (.l 0) (.k 4)⟩
         [.asg 5 (.l 2) (.bin .add (.l 2) (.k 1)), .asg 6 (.l 1) (.l 0)]],
      7, .l 1, false, 0⟩],
    classes := [],
    test := [.const 3, .call 0 [0]],
    asserts := [] }

def loopStrong : Result := (run loopProg 200 true).getD ⟨[], [], [], [], [], []⟩
def loopWeak : Result := (run loopProg 200 false).getD ⟨[], [], [], [], [], []⟩

theorem loop_witness_slices :
    (sliceLines loopStrong.trace (loopStrong.crits.getD 1 0)).eraseDups = [3, 4, 5, 6, 7] ∧
    (sliceLines loopWeak.trace (loopWeak.crits.getD 1 0)).eraseDups = [3, 4, 6, 7] := by
  decide +kernel

theorem C09_loop_cex : ¬ C09_loop_full := by
  intro h
  have hs : run loopProg 200 true = some loopStrong := by
    have h1 : (run loopProg 200 true).isSome = true := by decide +kernel
    obtain ⟨r, hr⟩ := Option.isSome_iff_exists.mp h1
    simp [loopStrong, hr]
  have hw : run loopProg 200 false = some loopWeak := by
    have h1 : (run loopProg 200 false).isSome = true := by decide +kernel
    obtain ⟨r, hr⟩ := Option.isSome_iff_exists.mp h1
    simp [loopWeak, hr]
  have h5 : 5 ∈ sliceLines loopStrong.trace (loopStrong.crits.getD 1 0) := by decide +kernel
  have hn : 5 ∉ sliceLines loopWeak.trace (loopWeak.crits.getD 1 0) := by decide +kernel
  exact hn (h loopProg 200 loopStrong loopWeak hs hw 1 5 h5)

/-- What does hold on loops: the slice of the trace as pynguin attributes it is exactly the closure
of *that* trace's dependence relation (all data dependences, and control dependence on the first
evaluation of every enclosing loop test, on every enclosing `if` and on the call). -/
theorem C09_loop_partial (p : Prog) (fuel : Nat) (w : Result) (_ : run p fuel false = some w)
    (c i : Nat) : i ∈ sliceBack w.trace c ↔ Reach w.trace c i :=
  mem_sliceBack_iff_reach w.trace c i

/-! ## Class-level definitions read through an instance: the address-qualified attribute key

A read of `obj.name` that is not satisfied by an attribute store on `obj` stays pending as the string
`'<hex(id(obj))>_<name>'` until the slicer reaches the creation of `obj`; there the pending uses on
that object are converted into names of class-level variables (`a = 2`, `def m`) whose definitions are
then looked for by NAME.  The dependence on the class-level definition is found only if the name is
recovered exactly — for every name, private ones (`_step`, `__x__`, `a_`, `_`) included. -/

/-- `"_".join(use.split("_")[1:])` applied to `f"{hex(addr)}_{name}"` is `name`, for all addresses and
all names. -/
theorem attribute_name_recovered_exactly (addr : Nat) (name : List Char) :
    attrNameOfKey (attrUseKey addr name) = name :=
  attrNameOfKey_attrUseKey addr name

/-- At the creation of the object at `addr`, every pending attribute use on it becomes exactly its own
name in `attribute_creation_uses` and leaves `attr_uses`. -/
theorem attribute_uses_converted_at_creation (addr : Nat) (h0 : addr ≠ 0) (uses : List (List Char))
    (name : List Char) (h : attrUseKey addr name ∈ uses) :
    name ∈ (convertAttrUses addr uses).1 ∧ attrUseKey addr name ∉ (convertAttrUses addr uses).2 :=
  convertAttrUses_complete addr h0 uses name h

/-- Pending uses that do not belong to the created object are kept. -/
theorem other_attribute_uses_stay_pending (addr : Nat) (uses : List (List Char)) (u : List Char)
    (h : u ∈ uses) (hn : attrUseOf addr u = false) : u ∈ (convertAttrUses addr uses).2 :=
  convertAttrUses_keeps addr uses u h hn

/-- Counter-model: cutting the prefix off and stripping the separator with `lstrip('_')` loses the
leading underscore of a private name (`_step` → `step`). -/
theorem attr_name_lstrip_cex :
    attrNameLstrip 4096 (attrUseKey 4096 "_step".toList) ≠ "_step".toList := by decide

/-- Non-vacuity: a private and a public pending use on the object at `0x7f00`, one on another object. -/
example : convertAttrUses 0x7f00 [attrUseKey 0x7f00 "_step".toList, attrUseKey 0x8f00 "a_".toList,
      attrUseKey 0x7f00 "__m__".toList] =
    (["_step".toList, "__m__".toList], [attrUseKey 0x8f00 "a_".toList]) := by decide

/-! ## Non-vacuity -/

/-- The witness execution has 15 steps; criterion inside the trace, so the hypotheses of the subset
theorems are satisfiable on a non-trivial instance. -/
example : witnessTrace.length = 15 ∧ witnessCrit < witnessTrace.length := by decide +kernel

/-- A non-trivial slice: it has several lines and is a strict subset of the executed lines. -/
example : (sliceLines witnessTrace witnessCrit).eraseDups = [2, 3, 8] ∧
    (executedLines witnessTrace).eraseDups = [1, 2, 3, 4, 6, 7, 8] := by decide +kernel

/-- The exact slice of the witness as trace positions (criterion = position 14, the store of `int_1`;
13 = the outer `return v1`, 5 = the outer `v1 = 1`, 4 = the outer `if`, 1–3 = the test's call). -/
example : sliceBack witnessTrace witnessCrit = [1, 2, 3, 4, 5, 13, 14] := by decide +kernel

/-- An injective keying exists (identity), so `C09_code_keyed_partial` is not vacuous. -/
example : CodeKeyedComplete witnessTrace id witnessCrit :=
  C09_code_keyed_partial witnessTrace id (fun _ _ h => h) witnessCrit

end PynguinModel.C09
