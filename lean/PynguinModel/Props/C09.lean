import PynguinModel.Lemmas.Slice
import PynguinModel.Model.PyMini
/-!
# C09 — Dynamic slices are sound and checked lines were executed

Property theorems about the backward slicer of `Model/Slice.lean` (mirror of
`DynamicSlicer.slice` at statement-event granularity).  All statements are for **arbitrary traces**
(any list of events, no well-formedness assumption) and arbitrary criteria; the traces of the
PyMini interpreter (`Model/PyMini.lean`) are instances.

(a) checked lines ⊆ executed lines: `checked_lines_were_executed`.
(b) a slice contains only executed steps and its criterion: `slice_only_executed`,
    `slice_contains_criterion`, `slice_lines_were_executed`.
(c) every step the criterion depends on (data or control, transitively) is in the slice, and nothing
    else: `slice_is_dependence_closure`, `slice_closed_under_dependence`, `slice_is_least`;
    semantic reading of the data part: `slice_replay_reproduces_values`.

The real slicer keys local variables by *code object*, not by frame.  `C09_full` states (c) for
that keying; it is false (`C09_code_keyed_cex`, a directly recursive function — reproduced on the
real slicer at every run) and proved for keyings that do not identify two frames
(`C09_code_keyed_partial`).
-/
namespace PynguinModel.C09
open PynguinModel.Slice PynguinModel.PyMini

/-! ## (c) the slice is exactly the dynamic-dependence closure of the criterion -/

/-- A step is in the slice iff the criterion transitively depends on it. -/
theorem slice_is_dependence_closure (tr : Trace) (c i : Nat) :
    i ∈ sliceBack tr c ↔ Reach tr c i :=
  mem_sliceBack_iff_reach tr c i

/-- Every step a sliced step depends on — by data (last definition of a used variable) or by control
(last executed controlling branch) — is in the slice. -/
theorem slice_closed_under_dependence (tr : Trace) (c : Nat) {i j : Nat}
    (hi : i ∈ sliceBack tr c) (hd : Dep tr i j) : j ∈ sliceBack tr c :=
  sliceBack_closed tr c hi hd

/-- The slice is the least such set. -/
theorem slice_is_least (tr : Trace) (c : Nat) (S : Nat → Prop) (hc : S c)
    (hcl : ∀ i j, S i → Dep tr i j → S j) : ∀ i ∈ sliceBack tr c, S i :=
  sliceBack_least tr c S hc hcl

/-- Every line the criterion depends on is among the slice's lines. -/
theorem dependence_lines_in_slice (tr : Trace) (c i : Nat) (h : Reach tr c i)
    (hl : (evAt tr i).line ≠ 0) : (evAt tr i).line ∈ sliceLines tr c := by
  have hm := (mem_sliceBack_iff_reach tr c i).mpr h
  unfold sliceLines linesOf
  simp only [List.mem_filter, List.mem_map]
  exact ⟨⟨i, hm, rfl⟩, by simpa using hl⟩

/-- Executing only the steps of (a superset of) the slice reproduces, at the criterion and at every
other sliced step, the value of every variable read there — for any step semantics `sem` that reads
only the step's `uses`. -/
theorem slice_replay_reproduces_values (tr : Trace) (sem : Nat → (Var → Int) → Var → Int)
    (hsem : ∀ i ρ ρ', (∀ u ∈ (evAt tr i).uses, ρ u = ρ' u) → ∀ v, sem i ρ v = sem i ρ' v)
    (ρ0 : Var → Int) (c : Nat) (sel : Nat → Bool) (hsel : ∀ i ∈ sliceBack tr c, sel i = true) :
    ∀ i ∈ sliceBack tr c, ∀ u ∈ (evAt tr i).uses,
      replay tr sem sel ρ0 i u = replay tr sem (fun _ => true) ρ0 i u := by
  intro i hi u hu
  exact replay_slice_agrees tr sem hsem ρ0 c sel
    (fun k hk => hsel k ((mem_sliceBack_iff_reach tr c k).mpr hk)) i
    ((mem_sliceBack_iff_reach tr c i).mp hi) u hu

/-! ## (b) only executed steps, and the criterion -/

theorem slice_contains_criterion (tr : Trace) (c : Nat) : c ∈ sliceBack tr c :=
  criterion_mem_sliceBack tr c

/-- Every sliced step is a step of this execution, not later than the criterion. -/
theorem slice_only_executed (tr : Trace) (c : Nat) (hc : c < tr.length) :
    ∀ i ∈ sliceBack tr c, i ≤ c ∧ i < tr.length := by
  intro i hi
  have := sliceBack_le tr c i hi
  exact ⟨this, by omega⟩

theorem slice_lines_were_executed (tr : Trace) (c : Nat) (hc : c < tr.length) :
    ∀ l ∈ sliceLines tr c, l ∈ executedLines tr :=
  sliceLines_subset_executed tr c hc

/-! ## (a) checked lines were executed -/

/-- `compute_statement_checked_lines` / `compute_assertion_checked_coverage`: whatever the slicing
criteria (statement stores, assertion positions), every reported line was executed. -/
theorem checked_lines_were_executed (tr : Trace) (crits : List Nat)
    (hc : ∀ c ∈ crits, c < tr.length) : ∀ l ∈ checkedLines tr crits, l ∈ executedLines tr :=
  checkedLines_subset_executed tr crits hc

/-! ## Keying local variables by code object (what pynguin does) -/

/-- (c) for a slicer that sees frame `s` as code object `f s`. -/
def CodeKeyedComplete (tr : Trace) (f : Nat → Nat) (c : Nat) : Prop :=
  ∀ i, Reach tr c i → i ∈ sliceBack (rekey f tr) c

/-- Full-strength (c) for pynguin's keying: false. -/
def C09_full : Prop := ∀ (tr : Trace) (f : Nat → Nat) (c : Nat), CodeKeyedComplete tr f c

/-- Holds whenever the keying does not identify two frames (no code object is entered twice in the
execution); in fact the slice is then unchanged. -/
theorem C09_code_keyed_partial (tr : Trace) (f : Nat → Nat) (hf : ∀ a b, f a = f b → a = b)
    (c : Nat) : CodeKeyedComplete tr f c := by
  intro i hi
  rw [sliceBack_rekey_injective f hf tr c]
  exact (mem_sliceBack_iff_reach tr c i).mpr hi

/-- The witness: `def f0(v0): if v0 > 0: v1 = 1; v2 = f0(v0 - 1)  else: v1 = 6; v2 = 0;  return v1`
called as `int_0 = 1; int_1 = f0(int_0)`. -/
def witnessProg : Prog :=
  { ginit := [],
    funs := [⟨1, 1,
      [.ite 2 ⟨.gt, .l 0, .k 0⟩
        [.asg 3 (.l 1) (.k 1), .call 4 (.l 2) 0 [.bin .sub (.l 0) (.k 1)]]
        [.asg 6 (.l 1) (.k 6), .asg 7 (.l 2) (.k 0)]],
      8, .l 1⟩],
    test := [.const 1, .call 0 [0]],
    asserts := [] }

def witnessResult : Result := (run witnessProg 100).getD ⟨[], [], [], [], []⟩
def witnessTrace : Trace := witnessResult.trace
def witnessCrit : Nat := witnessResult.crits.getD 1 0
def witnessKey : Nat → Nat := codeOfFn witnessResult.codeOf

/-- Line 3 (`v1 = 1` of the outer frame, the value that is returned) is in the exact slice … -/
theorem witness_exact_slice : 3 ∈ sliceLines witnessTrace witnessCrit := by decide +kernel

/-- … but not in the code-object-keyed slice: the inner frame's `v1 = 6` (line 6) satisfies the
pending use of `v1` instead. -/
theorem witness_code_keyed_slice :
    3 ∉ sliceLines (rekey witnessKey witnessTrace) witnessCrit ∧
    6 ∈ sliceLines (rekey witnessKey witnessTrace) witnessCrit ∧
    6 ∉ sliceLines witnessTrace witnessCrit := by decide +kernel

theorem C09_code_keyed_cex : ¬ C09_full := by
  intro h
  have hex : ∃ i, i ∈ sliceBack witnessTrace witnessCrit ∧
      i ∉ sliceBack (rekey witnessKey witnessTrace) witnessCrit := by decide +kernel
  obtain ⟨i, hi, hni⟩ := hex
  exact hni (h witnessTrace witnessKey witnessCrit i ((mem_sliceBack_iff_reach _ _ i).mp hi))


/-! ## Loop-carried control dependence (second known deviation of the real slicer)

For a `while` whose body is one basic block, CPython 3.12 puts the repeated loop test at the end of
that block; `check_control_dependency` looks only at *proper* CDG descendants of the branch's node, so
the body is attributed to the first evaluation of the test only.  `run … (carried := false)` produces
the trace with exactly that attribution. -/

/-- (c) for loops as pynguin attributes them: every line of the exact slice is in the slice of the
trace without loop-carried control dependence.  False. -/
def C09_loop_full : Prop :=
  ∀ (p : Prog) (fuel : Nat) (r w : Result), run p fuel true = some r → run p fuel false = some w →
    ∀ k l, l ∈ sliceLines r.trace (r.crits.getD k 0) → l ∈ sliceLines w.trace (w.crits.getD k 0)

/-- `def f0(v0): v1 = 0; v2 = 0; while v2 < v0 % 4: v2 = v2 + 1; v1 = v0;  return v1` called as
`int_0 = 3; int_1 = f0(int_0)`: the returned `v1` was assigned in the third iteration, which runs
only because of `v2 = v2 + 1` (line 5). -/
def loopProg : Prog :=
  { ginit := [],
    funs := [⟨1, 1,
      [.asg 2 (.l 1) (.k 0), .asg 3 (.l 2) (.k 0),
       .wh 4 ⟨.lt, .l 2, .bin .mod (.l 0) (.k 4)⟩
         [.asg 5 (.l 2) (.bin .add (.l 2) (.k 1)), .asg 6 (.l 1) (.l 0)]],
      7, .l 1⟩],
    test := [.const 3, .call 0 [0]],
    asserts := [] }

def loopStrong : Result := (run loopProg 200 true).getD ⟨[], [], [], [], []⟩
def loopWeak : Result := (run loopProg 200 false).getD ⟨[], [], [], [], []⟩

theorem loop_witness_slices :
    (sliceLines loopStrong.trace (loopStrong.crits.getD 1 0)).eraseDups = [3, 4, 5, 6, 7] ∧
    (sliceLines loopWeak.trace (loopWeak.crits.getD 1 0)).eraseDups = [3, 4, 6, 7] := by
  decide +kernel

theorem C09_loop_cex : ¬ C09_loop_full := by
  intro h
  have hs : run loopProg 200 true = some loopStrong := by
    have h1 : (run loopProg 200 true).isSome = true := by decide +kernel
    obtain ⟨r, hr⟩ := Option.isSome_iff_exists.mp h1
    simp [loopStrong, hr]
  have hw : run loopProg 200 false = some loopWeak := by
    have h1 : (run loopProg 200 false).isSome = true := by decide +kernel
    obtain ⟨r, hr⟩ := Option.isSome_iff_exists.mp h1
    simp [loopWeak, hr]
  have h5 : 5 ∈ sliceLines loopStrong.trace (loopStrong.crits.getD 1 0) := by decide +kernel
  have hn : 5 ∉ sliceLines loopWeak.trace (loopWeak.crits.getD 1 0) := by decide +kernel
  exact hn (h loopProg 200 loopStrong loopWeak hs hw 1 5 h5)

/-- What does hold on loops: the slice of the trace as pynguin attributes it is exactly the closure
of *that* trace's dependence relation (all data dependences, and control dependence on the first
evaluation of every enclosing loop test, on every enclosing `if` and on the call). -/
theorem C09_loop_partial (p : Prog) (fuel : Nat) (w : Result) (_ : run p fuel false = some w)
    (c i : Nat) : i ∈ sliceBack w.trace c ↔ Reach w.trace c i :=
  mem_sliceBack_iff_reach w.trace c i

/-! ## Non-vacuity -/

/-- The witness execution has 15 steps; criterion inside the trace, so the hypotheses of the subset
theorems are satisfiable on a non-trivial instance. -/
example : witnessTrace.length = 15 ∧ witnessCrit < witnessTrace.length := by decide +kernel

/-- A non-trivial slice: it has several lines and is a strict subset of the executed lines. -/
example : (sliceLines witnessTrace witnessCrit).eraseDups = [2, 3, 8] ∧
    (executedLines witnessTrace).eraseDups = [1, 2, 3, 4, 6, 7, 8] := by decide +kernel

/-- The exact slice of the witness as trace positions (criterion = position 14, the store of `int_1`;
13 = the outer `return v1`, 5 = the outer `v1 = 1`, 4 = the outer `if`, 1–3 = the test's call). -/
example : sliceBack witnessTrace witnessCrit = [1, 2, 3, 4, 5, 13, 14] := by decide +kernel

/-- An injective keying exists (identity), so `C09_code_keyed_partial` is not vacuous. -/
example : CodeKeyedComplete witnessTrace id witnessCrit :=
  C09_code_keyed_partial witnessTrace id (fun _ _ h => h) witnessCrit

end PynguinModel.C09
