import PynguinModel.Lemmas.SubprocessAlign
import PynguinModel.Lemmas.SubprocessConfig
import PynguinModel.Lemmas.SubprocessPickle
/-!
# C31 — in-process and subprocess execution agree

Property theorems over the model `Model/SubprocessAlign.lean` of `SubprocessTestCaseExecutor`
(parent-side plumbing, reference rebinding, pickle-safe rewriting, crash fallback).

* `create_binding_spec`            — `_create_variable_binding` is the dict position ↦ bound name
* `rebinding_identity`             — `_fix_assertion_trace` undoes any renaming the bindings describe
* `fix_same_bindings_identity`     — with the bindings the child really sends back (the same dict)
                                     the trace is reproduced assertion for assertion
* `fix_trace_error_iff`            — the only way it can fail is a `KeyError` for a missing position
* `results_aligned`                — for EVERY behaviour of the child processes: as many results as
                                     tests, the i-th result stems from the i-th test or is a time-out
* `projection_transport`           — the pickle-safe rewriting keeps the compared projection when no
                                     exception/assertion is unpicklable, and only ever removes entries
* `subprocess_agrees_partial`      — a child running the in-process executor, under any crash pattern,
                                     yields per test the in-process projection or (crash) the time-out
* `C31_full` / `C31_full_cex`      — the statement without the picklability hypothesis is false: an
                                     unpicklable exception is dropped (known finding, replayed each run)

Configuration transport (model `Model/SubprocessConfig.lean`: the `args` tuple of
`_setup_subprocess_execution`, the positional parameters of `_execute_test_cases_in_subprocess`, the
executor of `_fallback_on_failure`, the watchdog bound of `TestCaseExecutor.execute`):

* `config_transport`               — the child builds its executor from exactly the parent's two time
                                     settings (in this order), subject properties, module provider,
                                     configuration snapshot and observer list, for the tests and
                                     bindings it was sent
* `child_time_bound_eq`            — hence the child's watchdog bound equals the parent's for EVERY size
* `launches_configured`            — this holds for every child `execute_multiple` starts, the
                                     one-by-one children of the crash fallback included
* `poll_covers_children`           — the parent's `poll` time-out is at least the sum of the bounds the
                                     child may legitimately use (equal for a single test)
* `subprocess_agrees_configured`   — agreement (as `subprocess_agrees_partial`) where the child is no
                                     longer "the same executor by assumption" but the executor built
                                     from the shipped tuple; the time-out flag of a test that runs
                                     `dur` ms is decided by the same bound on both sides
* `swapped_time_settings_cex`    — non-vacuity: the two numbers are not interchangeable

Value round trips (model `Model/SubprocessPickle.lean`: `dill.detect.pickles/badobjects/baditems`, the two
probes of `_fix_result_for_pickle` computed from what `dill.copy` does to every single item):

* `value_round_trip_kept`          — after the rewriting an exception / assertion is still there iff it
                                     pickles (for either value of `exact`)
* `projection_transport_values`    — as the code calls `baditems` (no `exact`): items whose copy has the same
                                     type, equal OR NOT (NaN is not equal to its copy), are all kept, the
                                     compared projection is unchanged
* `subprocess_agrees_values`       — agreement with the picklability hypothesis stated on value round trips
* `exact_filter_drops_nan_cex`     — non-vacuity: with `exact=True` for the assertion probe a
                                     `FloatAssertion(var_1, nan)` is dropped, the projection changes
-/
namespace PynguinModel.SubprocessAlign

deriving instance DecidableEq for Except

/-! ## Bindings -/

theorem create_binding_spec (stmts : List (Option String)) :
    ((createBinding stmts).map (·.1)).Nodup ∧
    ∀ p v, (p, v) ∈ createBinding stmts ↔ stmts[p]? = some (some v) := by
  refine ⟨createBindingFrom_nodup 0 stmts, fun p v => ?_⟩
  rw [createBinding, createBindingFrom_mem]
  constructor
  · rintro ⟨i, h1, h2⟩
    have : p = i := by omega
    subst this; exact h2
  · intro h; exact ⟨p, by omega, h⟩

example : createBinding [some "var_0", none, some "var_1"] = [(0, "var_0"), (2, "var_1")] := by decide

/-! ## Rebinding -/

/-- `rebinding_identity`: let the remote side use other variable names (`ρ`), and let the bindings record
this position by position (`old` position ↦ local name, `new` position ↦ remote name).  If every
position of `new` is a position of `old`, the recorded renaming is consistent (a remote name stands for
one local name — e.g. `new` injective), and names that are no bound variables (dotted paths, module
fields) are left alone and do not collide with remote names, then fixing the remote trace gives back
the local trace, for every well-formed trace. -/
theorem rebinding_identity (old new : Bindings) (T : Trace) (ρ : String → String)
    (hkeys : ∀ p n, (p, n) ∈ new → (dget old p).isSome)
    (hcompat : ∀ p q n o o', (p, n) ∈ new → (q, n) ∈ new → dget old p = some o → dget old q = some o' → o = o')
    (hρ : ∀ e ∈ T, ∀ a ∈ e.2, ∀ s, a.source = some s →
      (∃ p, (p, ρ s) ∈ new ∧ dget old p = some s) ∨ (ρ s = s ∧ ∀ p, (p, s) ∉ new))
    (hwf : WF T) :
    fixTrace (renameTrace ρ T) old new = .ok (dropEmpty T) := by
  obtain ⟨m, hm⟩ := mkMemoFrom_ok old [] new hkeys
  have hm' : mkMemo old new = .ok m := hm
  simp only [fixTrace, hm', rebuild, rebuildInto_eq, renameTrace]
  rw [rebuildWith_map]
  rw [rebuildWith_congr _ (fun a => a) [] T ?_]
  · simpa using rebuildWith_id [] T hwf (by simp)
  · intro e he a ha
    obtain ⟨k, src, pl⟩ := a
    cases src with
    | none => rfl
    | some s =>
      have hs : memoGet m (ρ s) = s := by
        rcases hρ e he _ ha s rfl with ⟨p, hp, hp'⟩ | ⟨h1, h2⟩
        · have hsome := mkMemoFrom_complete old [] new m hm (ρ s) (Or.inr ⟨p, hp⟩)
          cases hl : dget m (ρ s) with
          | none => simp [hl] at hsome
          | some o =>
            rcases mkMemoFrom_sound old [] new m hm (ρ s) o hl with h0 | ⟨q, hq, hq'⟩
            · simp [dget] at h0
            · have := hcompat q p (ρ s) o s hq hp hq' hp'
              simp [memoGet, hl, this]
        · rw [h1]
          simp [memoGet, mkMemo_not_new old new m hm' s h2]
      simp [Assertion.clone, hs]

/-- What the code does today: the child sends back the very bindings it was given, so fixing is the
identity on every well-formed trace (up to positions with an empty set). -/
theorem fix_same_bindings_identity (b : Bindings) (T : Trace)
    (hb : (b.map (·.1)).Nodup) (hwf : WF T) : fixTrace T b b = .ok (dropEmpty T) := by
  have h := rebinding_identity b b T (fun s => s)
    (fun p n hm => by simp [dget_of_mem_nodup b p n hb hm])
    (fun p q n o o' hp hq h1 h2 => by
      rw [dget_of_mem_nodup b p n hb hp] at h1
      rw [dget_of_mem_nodup b q n hb hq] at h2
      simp at h1 h2; rw [← h1, ← h2])
    (fun e _ a _ s _ => by
      by_cases h : ∃ p, (p, s) ∈ b
      · obtain ⟨p, hp⟩ := h
        exact Or.inl ⟨p, hp, dget_of_mem_nodup b p s hb hp⟩
      · exact Or.inr ⟨rfl, fun p hp => h ⟨p, hp⟩⟩)
    hwf
  have hid : renameTrace (fun s => s) T = T := by
    have h1 : ∀ a : Assertion, ({ a with source := a.source.map (fun s => s) } : Assertion) = a := by
      intro a; obtain ⟨k, src, pl⟩ := a; cases src <;> rfl
    simp [renameTrace]
  rw [hid] at h
  exact h

/-- `_fix_assertion_trace` can only fail with `KeyError`, exactly when `new` has a position that `old`
lacks. -/
theorem fix_trace_error_iff (T : Trace) (old new : Bindings) :
    (∃ e, fixTrace T old new = .error e) ↔ ∃ p n, (p, n) ∈ new ∧ dget old p = none := by
  constructor
  · rintro ⟨e, he⟩
    simp only [fixTrace] at he
    cases hm : mkMemo old new with
    | ok m => simp [hm] at he
    | error e' => exact (mkMemoFrom_key_error old [] new e' hm).2
  · rintro ⟨p, n, hp, hn⟩
    cases hm : mkMemo old new with
    | error e' => exact ⟨e', by simp [fixTrace, hm]⟩
    | ok m =>
      exfalso
      have := mkMemoFrom_complete old [] new m hm n (Or.inr ⟨p, hp⟩)
      cases hl : dget m n with
      | none => simp [hl] at this
      | some o =>
        -- the entry for `n` needs a position of `old`, but the failing position aborts the loop first
        clear this hl
        have hfail : ∀ memo, ∃ e, mkMemoFrom old memo new = .error e := by
          clear hm
          induction new with
          | nil => simp at hp
          | cons x r ih =>
            intro memo
            obtain ⟨p', n'⟩ := x
            cases ho : dget old p' with
            | none => exact ⟨.key, by simp [mkMemoFrom, ho]⟩
            | some o' =>
              simp only [mkMemoFrom, ho]
              rcases List.mem_cons.mp hp with h | h
              · injection h with h1 h2
                subst h1
                simp [hn] at ho
              · exact ih h _
        obtain ⟨e, he⟩ := hfail []
        simp [mkMemo] at hm
        simp [hm] at he

example : fixTrace [(0, [⟨"Object", some "r_0", "1"⟩, ⟨"Object", some "m_.X", "2"⟩])]
    [(0, "var_0")] [(0, "r_0")] = .ok [(0, [⟨"Object", some "var_0", "1"⟩, ⟨"Object", some "m_.X", "2"⟩])] := by
  decide

example : fixTrace [(0, [⟨"Object", some "var_0", "1"⟩])] [(0, "var_0")] [(1, "var_0")] = .error .key := by
  decide

/-! ## Alignment of results with tests, for every behaviour of the children -/

/-- `results_aligned`: whatever the child processes do (`remote` arbitrary: no answer, broken pipe, any
tuple), if `execute_multiple` returns at all it returns one result per test, and the `i`-th result is
`ExecutionResult(timeout=True)`, or the fixed `i`-th result of the batch answer, or the fixed only
result of the child that re-executed the `i`-th test alone — fixed with the bindings of the `i`-th test. -/
theorem results_aligned (remote : List τ → Reply) (bind : τ → Bindings) (tests : List τ) (out : List Res)
    (h : executeMultiple remote bind tests = .ok out) :
    out.length = tests.length ∧
    ∀ (i : Nat) (t : τ) (o : Res), tests[i]? = some t → out[i]? = some o →
      o = timeoutRes ∨
      (∃ (rs : List Res) (nbs : List (Option Bindings)) (r : Res) (nb : Option Bindings), remote tests = .results rs nbs ∧ rs[i]? = some r ∧ nbs[i]? = some nb ∧
        fixOne (bind t) r nb = .ok o) ∨
      (∃ (rs : List Res) (nbs : List (Option Bindings)) (r : Res) (nb : Option Bindings), remote [t] = .results rs nbs ∧ rs[0]? = some r ∧ nbs[0]? = some nb ∧
        fixOne (bind t) r nb = .ok o) := by
  cases tests with
  | nil =>
    simp [executeMultiple] at h
    subst h
    simp
  | cons t0 rest =>
    have direct : ∀ rs nbs, remote (t0 :: rest) = .results rs nbs →
        fixAll rs ((t0 :: rest).map bind) nbs = .ok out →
        out.length = (t0 :: rest).length ∧
        ∀ (i : Nat) (t : τ) (o : Res), (t0 :: rest)[i]? = some t → out[i]? = some o →
          o = timeoutRes ∨
          (∃ (rs : List Res) (nbs : List (Option Bindings)) (r : Res) (nb : Option Bindings), remote (t0 :: rest) = .results rs nbs ∧ rs[i]? = some r ∧ nbs[i]? = some nb ∧
            fixOne (bind t) r nb = .ok o) ∨
          (∃ (rs : List Res) (nbs : List (Option Bindings)) (r : Res) (nb : Option Bindings), remote [t] = .results rs nbs ∧ rs[0]? = some r ∧ nbs[0]? = some nb ∧
            fixOne (bind t) r nb = .ok o) := by
      intro rs nbs hr hf
      have hl := fixAll_length _ _ _ _ hf
      refine ⟨by rw [hl.1, ← hl.2.1]; simp, ?_⟩
      intro i t o ht ho
      obtain ⟨r, b, nb, e1, e2, e3, e4⟩ := fixAll_get _ _ _ _ hf i o ho
      have hb : b = bind t := by
        rw [List.getElem?_map, ht] at e2
        simpa using e2.symm
      subst hb
      exact Or.inr (Or.inl ⟨rs, nbs, r, nb, hr, e1, e3, e4⟩)
    have fallback : (∀ rs nbs, remote (t0 :: rest) ≠ .results rs nbs) →
        (match (t0 :: rest) with
          | [_] => (.ok [timeoutRes] : Except Err (List Res))
          | _ => mapExcept (executeOne remote bind) (t0 :: rest)) = .ok out →
        out.length = (t0 :: rest).length ∧
        ∀ (i : Nat) (t : τ) (o : Res), (t0 :: rest)[i]? = some t → out[i]? = some o →
          o = timeoutRes ∨
          (∃ (rs : List Res) (nbs : List (Option Bindings)) (r : Res) (nb : Option Bindings), remote (t0 :: rest) = .results rs nbs ∧ rs[i]? = some r ∧ nbs[i]? = some nb ∧
            fixOne (bind t) r nb = .ok o) ∨
          (∃ (rs : List Res) (nbs : List (Option Bindings)) (r : Res) (nb : Option Bindings), remote [t] = .results rs nbs ∧ rs[0]? = some r ∧ nbs[0]? = some nb ∧
            fixOne (bind t) r nb = .ok o) := by
      intro _ hf
      cases rest with
      | nil =>
        simp at hf
        subst hf
        refine ⟨rfl, ?_⟩
        intro i t o _ ho
        cases i with
        | zero => simp at ho; exact Or.inl ho.symm
        | succ j => simp at ho
      | cons t1 rest' =>
        simp only at hf
        refine ⟨mapExcept_length _ _ _ hf, ?_⟩
        intro i t o ht ho
        obtain ⟨a, ha, hfa⟩ := mapExcept_get _ _ _ hf i o ho
        rw [ht] at ha
        injection ha with ha
        subst ha
        simp only [executeOne] at hfa
        cases hr : remote [t] with
        | noResults => simp [hr] at hfa; exact Or.inl hfa.symm
        | recvFailed => simp [hr] at hfa; exact Or.inl hfa.symm
        | results rs nbs =>
          simp only [hr] at hfa
          cases hfx : fixAll rs [bind t] nbs with
          | error e => simp [hfx] at hfa
          | ok o' =>
            simp only [hfx] at hfa
            cases o' with
            | nil => simp at hfa
            | cons r0 _ =>
              simp at hfa
              subst hfa
              obtain ⟨r, b, nb, e1, e2, e3, e4⟩ := fixAll_get _ _ _ _ hfx 0 r0 (by simp)
              simp at e2
              subst e2
              exact Or.inr (Or.inr ⟨rs, nbs, r, nb, rfl, e1, e3, e4⟩)
    simp only [executeMultiple] at h
    cases hr : remote (t0 :: rest) with
    | results rs nbs =>
      simp only [hr] at h
      rw [← hr]
      exact direct rs nbs hr h
    | noResults =>
      simp only [hr] at h
      rw [← hr]
      exact fallback (by simp [hr]) h
    | recvFailed =>
      simp only [hr] at h
      rw [← hr]
      exact fallback (by simp [hr]) h

/-! ## The pickle-safe rewriting -/

/-- `projection_transport`: `_fix_result_for_pickle` never touches the time-out flag, the coverage and
the verification trace; it only removes exceptions and assertions; and when neither an exception nor an
assertion is unpicklable, the whole compared projection is unchanged — whatever happens to the fields
outside the projection. -/
theorem projection_transport (p : Probes) (r : Res) :
    (fixForPickle p r).timeout = r.timeout ∧ (fixForPickle p r).cov = r.cov ∧
    (fixForPickle p r).vfailed = r.vfailed ∧ (fixForPickle p r).verror = r.verror ∧
    (∀ e ∈ (fixForPickle p r).excs, e ∈ r.excs) ∧
    (∀ e ∈ (fixForPickle p r).trace, ∃ e' ∈ r.trace, e'.1 = e.1 ∧ ∀ a ∈ e.2, a ∈ e'.2) ∧
    (p.clean = true → proj (fixForPickle p r) = proj r ∧ (fixForPickle p r).trace = r.trace) := by
  refine ⟨rfl, rfl, rfl, rfl, ?_, ?_, ?_⟩
  · intro e he
    simp only [fixForPickle, filterExcs] at he
    cases hp : p.excs with
    | bad items => rw [hp] at he; exact (List.mem_filter.mp he).1
    | raised => rw [hp] at he; simp at he
  · intro e he
    simp only [fixForPickle, filterTrace] at he
    cases hp : p.asserts with
    | bad items =>
      rw [hp] at he
      obtain ⟨e', he', hee⟩ := List.mem_map.mp he
      subst hee
      exact ⟨e', he', rfl, fun a ha => (List.mem_filter.mp ha).1⟩
    | raised => rw [hp] at he; simp at he
  · intro hc
    simp only [Probes.clean, Bool.and_eq_true] at hc
    have h1 : p.excs = .bad [] := by
      cases h : p.excs with
      | bad items => cases items <;> simp_all [Probe.clean]
      | raised => simp_all [Probe.clean]
    have h2 : p.asserts = .bad [] := by
      cases h : p.asserts with
      | bad items => cases items <;> simp_all [Probe.clean]
      | raised => simp_all [Probe.clean]
    have ht : filterTrace (.bad []) r.trace = r.trace := by
      simp only [filterTrace]
      induction r.trace with
      | nil => rfl
      | cons e t ih =>
        obtain ⟨p0, as⟩ := e
        simp only [List.map_cons, ih]
        simp
    have he : filterExcs (.bad []) r.excs = r.excs := by simp [filterExcs]
    simp [fixForPickle, proj, h1, h2, ht, he]

/-! ## Agreement -/

/-- A test is lost (answered by a time-out result) exactly if the batch got no answer and the child
that re-executes the test alone got none either. -/
def lost (crash : List τ → Crash) (tests : List τ) (t : τ) : Bool :=
  crash tests != .none && crash [t] != .none

/-- The statement of C31 on the model: for every crash pattern, `execute_multiple` of the subprocess
executor returns, test by test, the projection of the in-process result — or the time-out result for
the tests the crash pattern loses. -/
def AgreesOn (crash : List τ → Crash) (run : τ → Res) (probe : τ → Probes) (bind : τ → Bindings)
    (tests : List τ) : Prop :=
  ∃ out, executeMultiple (remoteOf crash run probe bind) bind tests = .ok out ∧
    out.map proj = tests.map (fun t => if lost crash tests t then proj timeoutRes else proj (run t))

/-- The result the parent ends up with for test `t` when its child answered. -/
def fixedOf (run : τ → Res) (probe : τ → Probes) (t : τ) : Res :=
  let r := fixForPickle (probe t) (run t)
  if r.trace.isEmpty then r else { r with trace := dropEmpty r.trace }

theorem fixOne_child (run : τ → Res) (probe : τ → Probes) (bind : τ → Bindings) (t : τ)
    (hclean : (probe t).clean = true) (hwf : WF (run t).trace) (hb : ((bind t).map (·.1)).Nodup) :
    fixOne (bind t) (fixForPickle (probe t) (run t))
        (newBindings (fixForPickle (probe t) (run t)) (bind t)) = .ok (fixedOf run probe t) ∧
    proj (fixedOf run probe t) = proj (run t) := by
  obtain ⟨_, _, _, _, _, _, hc⟩ := projection_transport (probe t) (run t)
  obtain ⟨hproj, htr⟩ := hc hclean
  by_cases hem : (fixForPickle (probe t) (run t)).trace.isEmpty
  · simp [fixOne, newBindings, fixedOf, hem, hproj]
  · have hfix := fix_same_bindings_identity (bind t) (fixForPickle (probe t) (run t)).trace hb (by rw [htr]; exact hwf)
    simp only [fixOne, newBindings, fixedOf, hem, Bool.false_eq_true, if_false, hfix]
    refine ⟨trivial, ?_⟩
    rw [← hproj]
    simp [proj, dropEmpty_idem]

theorem childRun_eq (run : τ → Res) (probe : τ → Probes) (bind : τ → Bindings) (tests : List τ) :
    childRun run probe bind tests =
      (tests.map (fun t => fixForPickle (probe t) (run t)),
       tests.map (fun t => newBindings (fixForPickle (probe t) (run t)) (bind t))) := by
  simp only [childRun, Prod.mk.injEq, true_and]
  induction tests with
  | nil => rfl
  | cons t r ih => simp [ih]

/-- `subprocess_agrees_partial`: if no exception and no assertion of the in-process results is
unpicklable (`hclean`), the traces are well-formed dicts of sets and the bindings are dicts, then for
EVERY crash pattern the subprocess executor agrees with the in-process executor on the compared
projection, test by test, except for the tests lost to crashes, which are reported as time-outs. -/
theorem subprocess_agrees_partial (crash : List τ → Crash) (run : τ → Res) (probe : τ → Probes)
    (bind : τ → Bindings) (tests : List τ)
    (hclean : ∀ t ∈ tests, (probe t).clean = true)
    (hwf : ∀ t ∈ tests, WF (run t).trace)
    (hb : ∀ t ∈ tests, ((bind t).map (·.1)).Nodup) :
    AgreesOn crash run probe bind tests := by
  have hone : ∀ t ∈ tests, executeOne (remoteOf crash run probe bind) bind t =
      .ok (if crash [t] != .none then timeoutRes else fixedOf run probe t) := by
    intro t ht
    have hf := (fixOne_child run probe bind t (hclean t ht) (hwf t ht) (hb t ht)).1
    simp only [executeOne, remoteOf]
    cases hc : crash [t] with
    | noResults => simp
    | recvFailed => simp
    | none =>
      simp only [childRun_eq, List.map_cons, List.map_nil, fixAll, hf]
      simp
  have hdirect : crash tests = .none → fixAll (childRun run probe bind tests).1 (tests.map bind)
      (childRun run probe bind tests).2 = .ok (tests.map (fixedOf run probe)) := by
    intro _
    rw [childRun_eq]
    exact fixAll_of_pointwise tests _ bind _ _
      (fun t ht => (fixOne_child run probe bind t (hclean t ht) (hwf t ht) (hb t ht)).1)
  have hproj : ∀ t ∈ tests, proj (fixedOf run probe t) = proj (run t) :=
    fun t ht => (fixOne_child run probe bind t (hclean t ht) (hwf t ht) (hb t ht)).2
  cases tests with
  | nil => exact ⟨[], by simp [executeMultiple], by simp⟩
  | cons t0 rest =>
    cases hc : crash (t0 :: rest) with
    | none =>
      refine ⟨(t0 :: rest).map (fixedOf run probe), ?_, ?_⟩
      · simp only [executeMultiple, remoteOf, hc]
        exact hdirect hc
      · rw [List.map_map]
        apply List.map_congr_left
        intro t ht
        simp [lost, hc, hproj t ht]
    | noResults =>
      cases rest with
      | nil =>
        refine ⟨[timeoutRes], by simp [executeMultiple, remoteOf, hc], ?_⟩
        simp [lost, hc]
      | cons t1 rest' =>
        refine ⟨(t0 :: t1 :: rest').map (fun t => if crash [t] != .none then timeoutRes else fixedOf run probe t), ?_, ?_⟩
        · simp only [executeMultiple, remoteOf, hc]
          exact mapExcept_of_pointwise _ _ _ hone
        · rw [List.map_map]
          apply List.map_congr_left
          intro t ht
          by_cases h : crash [t] = .none <;> simp [lost, hc, h, hproj t ht]
    | recvFailed =>
      cases rest with
      | nil =>
        refine ⟨[timeoutRes], by simp [executeMultiple, remoteOf, hc], ?_⟩
        simp [lost, hc]
      | cons t1 rest' =>
        refine ⟨(t0 :: t1 :: rest').map (fun t => if crash [t] != .none then timeoutRes else fixedOf run probe t), ?_, ?_⟩
        · simp only [executeMultiple, remoteOf, hc]
          exact mapExcept_of_pointwise _ _ _ hone
        · rw [List.map_map]
          apply List.map_congr_left
          intro t ht
          by_cases h : crash [t] = .none <;> simp [lost, hc, h, hproj t ht]

/-- Without crashes the two executors agree on every test. -/
theorem subprocess_agrees_no_crash (run : τ → Res) (probe : τ → Probes) (bind : τ → Bindings)
    (tests : List τ)
    (hclean : ∀ t ∈ tests, (probe t).clean = true)
    (hwf : ∀ t ∈ tests, WF (run t).trace)
    (hb : ∀ t ∈ tests, ((bind t).map (·.1)).Nodup) :
    ∃ out, executeMultiple (remoteOf (fun _ => .none) run probe bind) bind tests = .ok out ∧
      out.map proj = tests.map (fun t => proj (run t)) := by
  obtain ⟨out, h1, h2⟩ := subprocess_agrees_partial (fun _ => .none) run probe bind tests hclean hwf hb
  exact ⟨out, h1, by simpa [lost] using h2⟩

/-- C31 at full strength on the model: agreement for every test, also with unpicklable items. -/
def C31_full : Prop :=
  ∀ (crash : List Nat → Crash) (run : Nat → Res) (probe : Nat → Probes) (bind : Nat → Bindings)
    (tests : List Nat),
    (∀ t ∈ tests, WF (run t).trace) → (∀ t ∈ tests, ((bind t).map (·.1)).Nodup) →
    AgreesOn crash run probe bind tests

/-- Witness: one statement `var_0 = m_.two_arg(2)` raising an exception `dill` cannot round-trip. -/
def cexRes : Res :=
  { timeoutRes with timeout := false, excs := [(0, "TwoArg")],
                    trace := [(0, [⟨"Exception", none, "m.TwoArg"⟩])] }

/-- The full statement is false on the unchanged code: `_filter_bad_exceptions` drops the exception, the
subprocess result has no exception at position 0 (the assertion trace still has its `ExceptionAssertion`). -/
theorem C31_full_cex : ¬ C31_full := by
  intro h
  obtain ⟨out, h1, h2⟩ := h (fun _ => .none) (fun _ => cexRes)
    (fun _ => { excs := .bad [0], asserts := .bad [], aux := fun a => a }) (fun _ => [(0, "var_0")]) [0]
    (by intro t _; simp [WF, cexRes]) (by intro t _; simp)
  have : executeMultiple (remoteOf (fun _ => Crash.none) (fun _ : Nat => cexRes)
      (fun _ => { excs := .bad [0], asserts := .bad [], aux := fun a => a }) (fun _ => [(0, "var_0")]))
      (fun _ => [(0, "var_0")]) [0] = .ok [{ cexRes with excs := [] }] := by decide
  rw [this] at h1
  injection h1 with h1
  subst h1
  revert h2
  decide

/-- Non-vacuity of `subprocess_agrees_partial`: a batch of two tests with assertions whose batch child
dies and whose second test also dies when re-executed alone. -/
example : AgreesOn (τ := Nat) (fun ts => if ts = [0, 1] ∨ ts = [1] then .recvFailed else .none)
    (fun t => { cexRes with excs := [(0, "ValueError")], trace := [(0, [⟨"Object", some "var_0", s!"{t}"⟩])] })
    (fun _ => { excs := .bad [], asserts := .bad [], aux := fun _ => [] })
    (fun _ => [(0, "var_0")]) [0, 1] :=
  subprocess_agrees_partial _ _ _ _ _ (by intro t _; rfl) (by intro t _; simp [WF])
    (by intro t _; simp)


/-! ## Configuration transport -/

/-- `config_transport`: started on the tuple `_setup_subprocess_execution` builds, the child
(`_execute_test_cases_in_subprocess`) constructs an executor with the parent's maximum time-out, the
parent's time per statement (not the other way round), the same subject properties (tracer, state),
module provider and configuration snapshot, and the parent's `_yield_remote_observers()` in order; it
runs exactly the tests it was sent with exactly their bindings. -/
theorem config_transport (g : Nat) (c : ExecConfig) (ts : List τ) (bs : List Bindings) :
    ∃ s, childEntry (setupArgs g c ts bs) = some s ∧
      s.settings = g ∧ s.cfg.maxTimeout = c.maxTimeout ∧ s.cfg.perStatement = c.perStatement ∧
      s.cfg.props = c.props ∧ s.cfg.provider = c.provider ∧ s.cfg.yieldRemote = c.yieldRemote ∧
      s.tests = ts ∧ s.binds = bs :=
  ⟨_, childEntry_setupArgs g c ts bs, rfl, rfl, rfl, rfl, rfl, yieldRemote_fallback c, rfl, rfl⟩

/-- `child_time_bound_eq`: for every test-case size the watchdog of the child waits exactly as long as
the watchdog of the in-process executor with the parent's configuration. -/
theorem child_time_bound_eq (g : Nat) (c : ExecConfig) (ts : List τ) (bs : List Bindings)
    (s : ChildSetup τ) (h : childEntry (setupArgs g c ts bs) = some s) :
    ∀ size, timeBound s.cfg size = timeBound c size := by
  rw [childEntry_setupArgs] at h
  injection h with h
  subst h
  intro size
  rfl

/-- `launches_configured`: every child process `execute_multiple` starts — the batch child and, when it
does not answer, the children the fallback executor starts one test at a time — is configured like the
parent, is given tests of the batch with their own bindings, and is waited for with the parent's
`poll` rule. -/
theorem launches_configured (g : Nat) (c : ExecConfig) (size : τ → Nat) (bind : τ → Bindings)
    (answers : List τ → Bool) (tests : List τ) :
    ∀ l ∈ launches g c size bind answers tests, ∃ s, childEntry l.args = some s ∧
      s.settings = g ∧ s.cfg.props = c.props ∧ s.cfg.provider = c.provider ∧
      s.cfg.yieldRemote = c.yieldRemote ∧ (∀ n, timeBound s.cfg n = timeBound c n) ∧
      (∀ t ∈ s.tests, t ∈ tests) ∧ s.binds = s.tests.map bind ∧
      l.poll = pollTimeout c (s.tests.map size) := by
  have batch : ∀ ts : List τ, (∀ t ∈ ts, t ∈ tests) →
      ∃ s, childEntry (launchOf g c size bind ts).args = some s ∧
        s.settings = g ∧ s.cfg.props = c.props ∧ s.cfg.provider = c.provider ∧
        s.cfg.yieldRemote = c.yieldRemote ∧ (∀ n, timeBound s.cfg n = timeBound c n) ∧
        (∀ t ∈ s.tests, t ∈ tests) ∧ s.binds = s.tests.map bind ∧
        (launchOf g c size bind ts).poll = pollTimeout c (s.tests.map size) :=
    fun ts hts => ⟨_, childEntry_setupArgs g c ts (ts.map bind), rfl, rfl, rfl,
      yieldRemote_fallback c, fun _ => rfl, hts, rfl, rfl⟩
  have single : ∀ t ∈ tests,
      ∃ s, childEntry (launchOf g (fallbackConfig c) size bind [t]).args = some s ∧
        s.settings = g ∧ s.cfg.props = c.props ∧ s.cfg.provider = c.provider ∧
        s.cfg.yieldRemote = c.yieldRemote ∧ (∀ n, timeBound s.cfg n = timeBound c n) ∧
        (∀ t' ∈ s.tests, t' ∈ tests) ∧ s.binds = s.tests.map bind ∧
        (launchOf g (fallbackConfig c) size bind [t]).poll = pollTimeout c (s.tests.map size) :=
    fun t ht => ⟨_, childEntry_setupArgs g (fallbackConfig c) [t] ([t].map bind), rfl, rfl, rfl,
      by rw [yieldRemote_fallback, yieldRemote_fallback], fun _ => rfl,
      by intro t' ht'; simp at ht'; subst ht'; exact ht, rfl, rfl⟩
  intro l hl
  match tests, batch, single, hl with
  | [], _, _, hl => simp [launches] at hl
  | [t], batch, _, hl =>
    simp only [launches, List.mem_singleton] at hl
    subst hl
    exact batch [t] (fun _ h => h)
  | t0 :: t1 :: rest, batch, single, hl =>
    simp only [launches] at hl
    by_cases ha : answers (t0 :: t1 :: rest) = true
    · simp only [ha, if_true, List.mem_singleton] at hl
      subst hl
      exact batch _ (fun _ h => h)
    · simp only [ha] at hl
      rcases List.mem_cons.mp hl with h | h
      · subst h
        exact batch _ (fun _ h => h)
      · obtain ⟨t, ht, rfl⟩ := List.mem_map.mp h
        exact single t ht

/-- `poll_covers_children`: the time the parent waits for a batch is at least the sum of the watchdog
bounds of its tests — a child whose tests all stay within their bounds is never cut off by the parent's
arithmetic — and for a single test it is exactly that test's bound. -/
theorem poll_covers_children (c : ExecConfig) (sizes : List Nat) :
    (sizes.map (timeBound c)).sum ≤ pollTimeout c sizes ∧ ∀ n, pollTimeout c [n] = timeBound c n := by
  refine ⟨?_, fun n => by simp [pollTimeout, timeBound]⟩
  have h := sum_timeBound_le c sizes
  simp only [pollTimeout]
  omega

/-- `subprocess_agrees_configured`: C31 on the model with the child built from the shipped tuple.  The
in-process executor has configuration `c`; every child process runs `childMain` on the `args` of
`_setup_subprocess_execution`.  For every crash pattern, every duration of the tests (`dur`, so also for
tests that are slower than one per-statement slice but within their budget, and for tests over budget)
and every way the result depends on subject properties, provider and observers (`body`), the subprocess
executor returns test by test the projection of what `TestCaseExecutor.execute` returns in-process — in
particular the same time-out flag — or the time-out result for the tests lost to crashes. -/
theorem subprocess_agrees_configured (g : Nat) (c : ExecConfig) (size : τ → Nat) (dur : τ → Nat)
    (body : Nat → Nat → List String → τ → Res) (probe : τ → Probes) (bind : τ → Bindings)
    (crash : List τ → Crash) (tests : List τ)
    (hclean : ∀ t ∈ tests, (probe t).clean = true)
    (hwf : ∀ t ∈ tests, WF (execute c size dur body t).trace)
    (hb : ∀ t ∈ tests, ((bind t).map (·.1)).Nodup) :
    ∃ out, executeMultiple (remoteCfg g c size dur body probe bind crash) bind tests = .ok out ∧
      out.map proj = tests.map (fun t =>
        if lost crash tests t then proj timeoutRes else proj (execute c size dur body t)) := by
  rw [remoteCfg_eq_remoteOf]
  exact subprocess_agrees_partial crash (execute c size dur body) probe bind tests hclean hwf hb

/-- Non-vacuity of the transport theorems: the two time settings are not interchangeable.  With a
maximum of 30 s and 6 s per statement a five-statement test that runs 9 s finishes in-process, while an
executor built from the two numbers in the other order gives it 6 s and reports a time-out. -/
theorem swapped_time_settings_cex :
    let c : ExecConfig := { maxTimeout := 30, perStatement := 6, props := 0, provider := 0, remoteObs := [], obs := [] }
    let c' : ExecConfig := { c with maxTimeout := c.perStatement, perStatement := c.maxTimeout }
    let body : Nat → Nat → List String → Nat → Res := fun _ _ _ _ => cexRes
    timeBound c 5 = 30 ∧ timeBound c' 5 = 6 ∧
    (execute c (fun _ => 5) (fun _ => 9000) body 0).timeout = false ∧
    (execute c' (fun _ => 5) (fun _ => 9000) body 0).timeout = true := by
  decide

/-- Non-vacuity of `subprocess_agrees_configured`: two tests of five statements, 30 s / 6 s; the first runs
9 s (longer than one slice, within its 30 s), the second 40 s (over budget): results agree, the first is
no time-out, the second is one. -/
example : (match executeMultiple (τ := Nat)
      (remoteCfg 1 { maxTimeout := 30, perStatement := 6, props := 0, provider := 0, remoteObs := ["trace"], obs := [] }
        (fun _ => 5) (fun t => if t = 0 then 9000 else 40000) (fun _ _ _ _ => cexRes)
        (fun _ => { excs := .bad [], asserts := .bad [], aux := fun a => a }) (fun _ => [(0, "var_0")])
        (fun _ => .none)) (fun _ => [(0, "var_0")]) [0, 1] with
    | .ok out => out.map (·.timeout)
    | .error _ => []) = [false, true] := by
  decide

/-! ## Value round trips: what the pickle-safe rewriting keeps -/

/-- `value_round_trip_kept`: with the probes computed by `dill.detect.baditems` from the round trip of every
single item, `_fix_result_for_pickle` keeps exactly the exceptions and assertions that pickle (in order, at
their positions), whatever the `exact` flags are. -/
theorem value_round_trip_kept (xe xa : Bool) (tr : Trips) (r : Res) :
    (fixForPickle (probesOf xe xa tr r) r).excs = r.excs.filter (fun x => pickles xe (tr.exc x.1)) ∧
    (fixForPickle (probesOf xe xa tr r) r).trace =
      r.trace.map (fun e => (e.1, e.2.filter (fun a => pickles xa (tr.asrt a)))) :=
  ⟨filterExcs_badItems xe tr.exc r.excs, filterTrace_badItems xa tr.asrt r.trace⟩

/-- `projection_transport_values`: the picklability hypothesis of `projection_transport`, stated on values.
The code passes no `exact=` to `baditems`; then every exception and every assertion whose pickled copy has
the same type — equal to the original or not, as for a value that is not equal to itself (NaN) — is kept:
both probes are clean and the compared projection (and the whole trace) is unchanged. -/
theorem projection_transport_values (tr : Trips) (r : Res)
    (he : ∀ x ∈ r.excs, tr.exc x.1 = .equal ∨ tr.exc x.1 = .sameType)
    (ha : ∀ e ∈ r.trace, ∀ a ∈ e.2, tr.asrt a = .equal ∨ tr.asrt a = .sameType) :
    (probesOf codeExact codeExact tr r).clean = true ∧
    proj (fixForPickleRT tr r) = proj r ∧ (fixForPickleRT tr r).trace = r.trace := by
  have h1 : badItems codeExact tr.exc (r.excs.map (·.1)) = [] := by
    apply badItems_eq_nil
    intro p hp
    obtain ⟨x, hx, rfl⟩ := List.mem_map.mp hp
    rcases he x hx with h | h <;> simp [h, pickles, codeExact]
  have h2 : badItems codeExact tr.asrt (allAssertions r.trace) = [] := by
    apply badItems_eq_nil
    intro a hm
    obtain ⟨e, he', hae⟩ := (mem_allAssertions r.trace a).mp hm
    rcases ha e he' a hae with h | h <;> simp [h, pickles, codeExact]
  have hc : (probesOf codeExact codeExact tr r).clean = true := by
    simp [probesOf, Probes.clean, Probe.clean, h1, h2]
  exact ⟨hc, (projection_transport _ r).2.2.2.2.2.2 hc⟩

/-- `subprocess_agrees_values`: `subprocess_agrees_partial` with the child's probes computed from the value
round trips: if every exception and assertion of the in-process results comes back from `dill.copy` with its
type (equal or not), then for every crash pattern the subprocess executor agrees with the in-process one. -/
theorem subprocess_agrees_values (crash : List τ → Crash) (run : τ → Res) (trips : τ → Trips)
    (bind : τ → Bindings) (tests : List τ)
    (he : ∀ t ∈ tests, ∀ x ∈ (run t).excs, (trips t).exc x.1 = .equal ∨ (trips t).exc x.1 = .sameType)
    (ha : ∀ t ∈ tests, ∀ e ∈ (run t).trace, ∀ a ∈ e.2,
      (trips t).asrt a = .equal ∨ (trips t).asrt a = .sameType)
    (hwf : ∀ t ∈ tests, WF (run t).trace)
    (hb : ∀ t ∈ tests, ((bind t).map (·.1)).Nodup) :
    AgreesOn crash run (fun t => probesOf codeExact codeExact (trips t) (run t)) bind tests :=
  subprocess_agrees_partial crash run _ bind tests
    (fun t ht => (projection_transport_values (trips t) (run t) (he t ht) (ha t ht)).1) hwf hb

/-- `var_0 = []; var_1 = m_.Summary(var_0)`: the mean of nothing is NaN. -/
def nanRes : Res :=
  { timeoutRes with
    timeout := false,
    trace := [(0, [⟨"Object", some "var_0", "[]"⟩]),
              (1, [⟨"IsInstance", some "var_1", "m.Summary"⟩, ⟨"Object", some "var_1.count", "0"⟩,
                   ⟨"Float", some "var_1.mean", "nan"⟩])] }

/-- Every item pickles; the copy of a NaN observation has the same type but is not equal to the original. -/
def nanTrips : Trips :=
  { exc := fun _ => .equal, asrt := fun a => if a.payload = "nan" then .sameType else .equal, aux := fun a => a }

example : (∀ x ∈ nanRes.excs, nanTrips.exc x.1 = .equal ∨ nanTrips.exc x.1 = .sameType) ∧
    (∀ e ∈ nanRes.trace, ∀ a ∈ e.2, nanTrips.asrt a = .equal ∨ nanTrips.asrt a = .sameType) := by
  decide

/-- `exact_filter_drops_nan_cex`: the default (`exact=False`) matters.  With `exact=True` for the assertion
probe the NaN observation is classified unpicklable and removed inside the child: the compared projection
of the subprocess result lacks `FloatAssertion(var_1.mean, nan)`. -/
theorem exact_filter_drops_nan_cex :
    proj (fixForPickle (probesOf codeExact codeExact nanTrips nanRes) nanRes) = proj nanRes ∧
    proj (fixForPickle (probesOf codeExact true nanTrips nanRes) nanRes) ≠ proj nanRes ∧
    (fixForPickle (probesOf codeExact true nanTrips nanRes) nanRes).trace =
      [(0, [⟨"Object", some "var_0", "[]"⟩]),
       (1, [⟨"IsInstance", some "var_1", "m.Summary"⟩, ⟨"Object", some "var_1.count", "0"⟩])] := by
  decide

end PynguinModel.SubprocessAlign
