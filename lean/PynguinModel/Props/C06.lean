import PynguinModel.Lemmas.Cdg
import PynguinModel.Lemmas.CdgDeps
import PynguinModel.Lemmas.CdgFilter
/-!
# C06 — Control-dependence graphs match the post-dominance definition

`Path`/`PDom`/`SPDom` are the textbook definitions over the (augmented) CFG.  `ferrante` is the
property: for *every* graph, if the tree handed to `compute` (networkx's immediate post-dominators,
a parameter of the model) has "proper tree ancestor" = "strictly post-dominates", then the edge
insertions `compute` performs are exactly Ferrante–Ottenstein–Warren's set
`{(A, B, v) | ∃ successor t of A via outcome v, B post-dominates t ∧ ¬ B strictly post-dominates A}`.
The hypotheses on the tree are *checked on every real CFG* by the driver using the certificate
checkers below, whose soundness (`checkClosed_sound`, `checkAvoidingPath_sound`, `decidePdom_sound`)
is proved here — so no unverified graph search is trusted for the oracle.

The two query functions of the finished graph are covered as well: `control_dependencies_exact`
(`get_control_dependencies` reports exactly the (branch, outcome) pairs reachable backwards over pass
edges — both outcomes of one branch included), `root_dependence_sound` / `root_dependence_exact` /
`root_dependence_of_no_branch` (`is_control_dependent_on_root`), and `self_loop_dependence` (a loop
that is a single basic block depends on itself).
-/
namespace PynguinModel.Cdg

/-- `Path E a ns b`: `ns` is the list of nodes of a path from `a` to `b` along edges of `E`
(both endpoints included). -/
inductive Path (E : List Edge) : Node → List Node → Node → Prop
  | nil (a : Node) : Path E a [a] a
  | cons {a m b : Node} {ns : List Node} (l : Label) :
      (⟨a, m, l⟩ : Edge) ∈ E → Path E m ns b → Path E a (a :: ns) b

/-- `b` post-dominates `v`: every path from `v` to `exit` passes through `b`. -/
def PDom (E : List Edge) (exit b v : Node) : Prop := ∀ ns, Path E v ns exit → b ∈ ns
/-- Strict post-dominance. -/
def SPDom (E : List Edge) (exit b v : Node) : Prop := b ≠ v ∧ PDom E exit b v

theorem Path.head_mem {E a ns b} (h : Path E a ns b) : a ∈ ns := by
  cases h <;> simp

theorem pdom_refl (E : List Edge) (exit v : Node) : PDom E exit v v :=
  fun _ h => h.head_mem

theorem pdom_iff (E : List Edge) (exit b t : Node) :
    PDom E exit b t ↔ b = t ∨ SPDom E exit b t := by
  constructor
  · intro h
    by_cases hb : b = t
    · exact Or.inl hb
    · exact Or.inr ⟨hb, h⟩
  · rintro (rfl | h)
    · exact pdom_refl E exit b
    · exact h.2

/-! ### The tree-walk characterisation (pure order argument) -/

/-- What one CFG edge contributes, for any tree. -/
theorem mem_edgeDeps_iff {up} (h : TreeOK up) (e : Edge) (a b : Node) (l : Label) :
    (a, b, l) ∈ edgeDeps up e ↔ a = e.src ∧ l = e.lab ∧ b ∈ chain up e.dst ∧ b ∉ up e.src := by
  unfold edgeDeps
  by_cases hanc : (up e.src).contains e.dst = true
  · -- target is an ancestor of the source: nothing is emitted, and the specification set is empty
    simp only [hanc, if_true, List.not_mem_nil, false_iff]
    rintro ⟨_, _, hb, hnb⟩
    have hd : e.dst ∈ up e.src := by simpa using hanc
    rcases List.mem_cons.1 hb with rfl | hb
    · exact hnb hd
    · exact hnb (up_trans h hd hb)
  · have hd : e.dst ∉ up e.src := by simpa using hanc
    simp only [hanc, Bool.false_eq_true, if_false]
    -- key fact: an element of the source's chain that sits before `b` on the target's chain
    -- forces `b` to be a proper ancestor of the source
    have key : ∀ pre y post, chain up e.dst = pre ++ y :: post → ∀ z ∈ post,
        y ∈ chain up e.src → z ∈ up e.src := by
      intro pre y post hsplit z hz hy
      have hpost : up y = post := chain_suffix h pre e.dst y post hsplit
      rcases List.mem_cons.1 hy with rfl | hy
      · rw [hpost]; exact hz
      · exact up_trans h hy (by rw [hpost]; exact hz)
    constructor
    · intro hmem
      rcases List.mem_append.1 hmem with hself | hwalk
      · split at hself
        · rename_i hl
          simp only [List.mem_singleton, Prod.mk.injEq] at hself
          obtain ⟨rfl, rfl, rfl⟩ := hself
          have hf : (chain up e.dst).find? (fun x => (chain up e.src).contains x) = some e.src := by
            simpa using hl
          exact ⟨rfl, rfl, List.mem_of_find?_eq_some hf, not_mem_up_self h _⟩
        · cases hself
      · obtain ⟨b', hb', heq⟩ := List.mem_map.1 hwalk
        simp only [Prod.mk.injEq] at heq
        obtain ⟨rfl, rfl, rfl⟩ := heq
        obtain ⟨pre, post, hsplit, _, hpb⟩ := (mem_takeWhile_iff _ _ _).1 hb'
        refine ⟨rfl, rfl, by rw [hsplit]; simp, ?_⟩
        intro hbu
        have hin : b' ∈ chain up e.src := List.mem_cons_of_mem _ hbu
        simp [hin] at hpb
    · rintro ⟨ha, hl, hb, hnb⟩
      subst ha; subst hl
      obtain ⟨pre, post, hsplit⟩ := List.append_of_mem hb
      -- nothing before `b` on the target's chain lies on the source's chain
      have hpre : ∀ y ∈ pre, y ∉ chain up e.src := by
        intro y hy hc
        obtain ⟨p1, p2, hp⟩ := List.append_of_mem hy
        have hsplit' : chain up e.dst = p1 ++ y :: (p2 ++ b :: post) := by
          rw [hsplit, hp]; simp
        exact hnb (key p1 y _ hsplit' b (by simp) hc)
      by_cases hbs : b = e.src
      · apply List.mem_append.2; left
        have hf : (chain up e.dst).find? (fun x => (chain up e.src).contains x) = some e.src := by
          rw [List.find?_eq_some_iff_append]
          refine ⟨by simp [chain], pre, post, by rw [hsplit, hbs], ?_⟩
          intro y hy; simpa using hpre y hy
        rw [hf, hbs]; simp
      · apply List.mem_append.2; right
        apply List.mem_map.2
        refine ⟨b, (mem_takeWhile_iff _ _ _).2 ⟨pre, post, hsplit, ?_, ?_⟩, rfl⟩
        · intro y hy; simpa using hpre y hy
        · have : b ∉ chain up e.src := by
            intro hc
            rcases List.mem_cons.1 hc with h1 | h1
            · exact hbs h1
            · exact hnb h1
          simpa using this

theorem mem_cdgAlgo_iff {up} (h : TreeOK up) (E : List Edge) (a b : Node) (l : Label) :
    (a, b, l) ∈ cdgAlgo E up ↔ ∃ t, (⟨a, t, l⟩ : Edge) ∈ E ∧ b ∈ chain up t ∧ b ∉ up a := by
  unfold cdgAlgo
  rw [List.mem_flatMap]
  constructor
  · rintro ⟨e, he, hm⟩
    obtain ⟨rfl, rfl, hb, hnb⟩ := (mem_edgeDeps_iff h e a b l).1 hm
    exact ⟨e.dst, he, hb, hnb⟩
  · rintro ⟨t, he, hb, hnb⟩
    exact ⟨⟨a, t, l⟩, he, (mem_edgeDeps_iff h _ a b l).2 ⟨rfl, rfl, hb, hnb⟩⟩

/-- **C06 (Ferrante et al.).**  For every graph and every tree whose proper-ancestor relation is
strict post-dominance, `compute` inserts an edge `A → B` labelled `v` exactly when `B` post-dominates
the `v`-successor of `A` but does not strictly post-dominate `A`. -/
theorem ferrante (E : List Edge) (exit : Node) (up : Node → List Node) (h : TreeOK up)
    (hup : ∀ v b, b ∈ up v ↔ SPDom E exit b v) (a b : Node) (l : Label) :
    (a, b, l) ∈ cdgAlgo E up ↔
      ∃ t, (⟨a, t, l⟩ : Edge) ∈ E ∧ PDom E exit b t ∧ ¬ SPDom E exit b a := by
  rw [mem_cdgAlgo_iff h]
  constructor
  · rintro ⟨t, he, hb, hnb⟩
    refine ⟨t, he, (pdom_iff E exit b t).2 ?_, fun hs => hnb ((hup a b).2 hs)⟩
    rcases List.mem_cons.1 hb with rfl | hb
    · exact Or.inl rfl
    · exact Or.inr ((hup t b).1 hb)
  · rintro ⟨t, he, hb, hnb⟩
    refine ⟨t, he, ?_, fun hs => hnb ((hup a b).1 hs)⟩
    rcases (pdom_iff E exit b t).1 hb with rfl | hs
    · simp [chain]
    · exact List.mem_cons_of_mem _ ((hup t b).2 hs)

/-- The stored graph (one edge per pair, last label wins, ENTRY/EXIT removed) contains exactly the
Ferrante edges between the remaining nodes, provided no pair receives two different labels
(guard `LabelConsistent`, evaluated by the driver on every real CFG). -/
theorem cdgImpl_mem_iff (E : List Edge) (up : Node → List Node) (entry exit : Node)
    (hc : LabelConsistent (cdgAlgo E up)) (a b : Node) (l : Label) :
    (a, b, l) ∈ cdgImpl E up entry exit ↔
      (a, b, l) ∈ cdgAlgo E up ∧ a ≠ entry ∧ a ≠ exit ∧ b ≠ entry ∧ b ≠ exit := by
  unfold cdgImpl digraph
  rw [List.mem_filter, mem_foldl_digraphAdd _ [] (by simpa using hc)]
  simp [and_assoc]

/-- Without the guard the stored graph can lose a label: two insertions for the same pair. -/
theorem label_overwrite_cex :
    digraph [(1, 1, some true), (1, 1, some false)] = [(1, 1, some false)] := by decide

/-! ### Certificate checkers are sound -/

theorem mem_succs {E : List Edge} {x y : Node} : y ∈ succs E x ↔ ∃ l, (⟨x, y, l⟩ : Edge) ∈ E := by
  unfold succs
  simp only [List.mem_map, List.mem_filter, beq_iff_eq]
  constructor
  · rintro ⟨e, ⟨he, rfl⟩, rfl⟩; exact ⟨e.lab, he⟩
  · rintro ⟨l, he⟩; exact ⟨⟨x, y, l⟩, ⟨he, rfl⟩, rfl⟩

theorem checkClosed_sound {E : List Edge} {exit b v : Node} {S : List Node}
    (h : checkClosed E exit b v S = true) : PDom E exit b v := by
  simp only [checkClosed, Bool.and_eq_true, Bool.not_eq_true', List.all_eq_true,
    Bool.or_eq_true, beq_iff_eq, List.contains_eq_mem, decide_eq_true_eq, decide_eq_false_iff_not] at h
  obtain ⟨⟨⟨hv, _hb⟩, hexit⟩, hclosed⟩ := h
  have gen : ∀ x ns c, Path E x ns c → c = exit → x ∈ S → b ∈ ns := by
    intro x ns c hp
    induction hp with
    | nil a => intro hc hx; subst hc; exact absurd hx hexit
    | @cons a m c ns l he hp ih =>
      intro hc hx
      rcases hclosed a hx m (mem_succs.2 ⟨l, he⟩) with rfl | hm
      · exact List.mem_cons_of_mem _ hp.head_mem
      · exact List.mem_cons_of_mem _ (ih hc hm)
  exact fun ns hp => gen v ns exit hp rfl hv

theorem isPath_sound {E : List Edge} : ∀ {ns : List Node} {a b : Node},
    isPath E a ns b = true → Path E a ns b
  | [], _, _, h => by simp [isPath] at h
  | [x], a, b, h => by
    simp only [isPath, Bool.and_eq_true, beq_iff_eq] at h
    obtain ⟨rfl, rfl⟩ := h; exact Path.nil _
  | x :: y :: rest, a, b, h => by
    simp only [isPath, Bool.and_eq_true, beq_iff_eq, List.contains_eq_mem, decide_eq_true_eq] at h
    obtain ⟨⟨rfl, hy⟩, hrest⟩ := h
    obtain ⟨l, he⟩ := mem_succs.1 hy
    exact Path.cons l he (isPath_sound hrest)

theorem checkAvoidingPath_sound {E : List Edge} {exit b v : Node} {ns : List Node}
    (h : checkAvoidingPath E exit b v ns = true) : ¬ PDom E exit b v := by
  simp only [checkAvoidingPath, Bool.and_eq_true, Bool.not_eq_true', List.contains_eq_mem,
    decide_eq_false_iff_not] at h
  exact fun hp => h.2 (hp ns (isPath_sound h.1))

/-- The driver's decision procedure never lies: whatever the (unverified) search did, a `some`
answer is backed by a checked certificate. -/
theorem decidePdom_sound (E : List Edge) (nodes : List Node) (exit b v : Node) :
    (decidePdom E nodes exit b v = some true → SPDom E exit b v) ∧
    (decidePdom E nodes exit b v = some false → ¬ SPDom E exit b v) := by
  unfold decidePdom
  by_cases hbv : (b == v) = true
  · simp only [hbv, if_true]
    exact ⟨by simp, fun _ hs => hs.1 (by simpa using hbv)⟩
  · simp only [hbv, Bool.false_eq_true, if_false]
    have hne : b ≠ v := by simpa using hbv
    split
    · split
      · rename_i hc
        exact ⟨by simp, fun _ hs => checkAvoidingPath_sound hc hs.2⟩
      · simp
    · split
      · rename_i hc
        exact ⟨fun _ => ⟨hne, checkClosed_sound hc⟩, by simp⟩
      · simp

/-! ### `filter_dead_code_nodes` -/

theorem filterDead_subset (E : List Edge) (entry : Node) :
    ∀ (fuel : Nat) (nodes : List Node) (n : Node), n ∈ filterDead E entry fuel nodes → n ∈ nodes
  | 0, _, _, h => h
  | fuel + 1, nodes, n, h => by
    unfold filterDead at h
    simp only at h
    split at h
    · exact h
    · exact (List.mem_filter.1 (filterDead_subset E entry fuel _ n h)).1

/-- With enough fuel (one sweep per node suffices) the loop ends in a fixed point: every remaining
non-entry node has a remaining predecessor. -/
theorem filterDead_fixpoint (E : List Edge) (entry : Node) :
    ∀ (fuel : Nat) (nodes : List Node), nodes.length ≤ fuel →
      deadSweep E entry (filterDead E entry fuel nodes) = filterDead E entry fuel nodes
  | 0, nodes, h => by
    have : nodes = [] := List.eq_nil_of_length_eq_zero (by omega)
    subst this; simp [filterDead, deadSweep]
  | fuel + 1, nodes, h => by
    unfold filterDead
    simp only
    split
    · rename_i heq
      have hl : (deadSweep E entry nodes).length = nodes.length := by simpa using heq
      exact List.filter_eq_self.2 (by
        have := (List.length_filter_eq_length_iff (l := nodes)
          (p := fun n => n == entry || hasPred E nodes n)).1 hl
        exact this)
    · rename_i hne
      have hle : (deadSweep E entry nodes).length ≤ nodes.length := List.length_filter_le _ _
      have hlt : (deadSweep E entry nodes).length < nodes.length := by
        have : (deadSweep E entry nodes).length ≠ nodes.length := by simpa using hne
        omega
      exact filterDead_fixpoint E entry fuel _ (by omega)

/-- **The repaired `filter_dead_code_nodes` (loop + reachability pass), for every graph**: it succeeds
exactly when the entry node is a node of the graph, … -/
theorem filter_dead_defined_iff (E : List Edge) (entry : Node) (nodes : List Node) :
    filterDeadFull E entry nodes = none ↔ entry ∉ nodes :=
  filterDeadFull_eq_none_iff E entry nodes

/-- … and then **exactly the nodes the entry reaches remain** (reachability in the graph `(nodes, E)`;
edges of `E` with an endpoint outside `nodes` do not exist in a networkx graph and are ignored) —
unreachable cycles and everything behind them included. -/
theorem filter_dead_exact {E : List Edge} {entry : Node} {nodes r : List Node}
    (h : filterDeadFull E entry nodes = some r) (n : Node) :
    n ∈ r ↔ n ∈ nodes ∧ Reach (induced E nodes) entry n := by
  have hentry : entry ∈ nodes := by
    have hne : ¬ filterDeadFull E entry nodes = none := by simp [h]
    exact Classical.not_not.1 (fun hc => hne ((filterDeadFull_eq_none_iff E entry nodes).2 hc))
  rw [mem_filterDeadFull_iff h]
  exact ⟨fun hr => ⟨reach_mem_nodes hentry hr, hr⟩, fun hr => hr.2⟩

/-- For a well-formed graph (every edge joins two nodes) this is plain reachability along `E`. -/
theorem filter_dead_exact_wf {E : List Edge} {entry : Node} {nodes r : List Node}
    (hwf : ∀ e ∈ E, e.src ∈ nodes ∧ e.dst ∈ nodes)
    (h : filterDeadFull E entry nodes = some r) (n : Node) : n ∈ r ↔ Reach E entry n := by
  have := mem_filterDeadFull_iff h n
  rwa [induced_eq_self hwf] at this

/-- The property's clause *every block reachable from the entry*, in the graph that is left: each
remaining node is reachable from the entry through remaining nodes only. -/
theorem cfg_every_node_reachable {E : List Edge} {entry : Node} {nodes r : List Node}
    (h : filterDeadFull E entry nodes = some r) (n : Node) (hn : n ∈ r) :
    Reach (induced E r) entry n := by
  have hr := (mem_filterDeadFull_iff h n).1 hn
  clear hn
  induction hr with
  | refl => exact Reach.refl
  | step hp he ih =>
    exact Reach.step ih (mem_induced.2 ⟨(mem_induced.1 he).1, (mem_filterDeadFull_iff h _).2 hp,
      (mem_filterDeadFull_iff h _).2 (Reach.step hp he)⟩)

/-- The breadth-first closure used for `nx.descendants` is exact. -/
theorem reach_exact (E : List Edge) (entry n : Node) : n ∈ reach E entry ↔ Reach E entry n :=
  mem_reach_iff E entry n

/-- Before the repair (/repo commit "loops that cannot be reached from the entry node are dead code …")
the function was the loop alone, which removes predecessor-less nodes only: the unreachable cycle
`2 ⇄ 3` survived it (DESIGN D22); the repaired function removes it. -/
theorem filter_dead_legacy_cex :
    filterDead [⟨0, 1, none⟩, ⟨2, 3, none⟩, ⟨3, 2, none⟩] 0 4 [0, 1, 2, 3] = [0, 1, 2, 3] ∧
    filterDeadFull [⟨0, 1, none⟩, ⟨2, 3, none⟩, ⟨3, 2, none⟩] 0 [0, 1, 2, 3] = some [0, 1] := by decide

/-- Non-vacuity: `try: return` / handler with a loop (`4 → 5 ⇄ 6 → 7`, not connected to the first block
`2`), a dead block `8` feeding the live block `3`, entry `0`, exit `1`. -/
example : filterDeadFull [⟨0, 2, none⟩, ⟨2, 3, none⟩, ⟨3, 1, none⟩, ⟨4, 5, none⟩, ⟨5, 6, some true⟩,
    ⟨6, 5, none⟩, ⟨5, 7, some false⟩, ⟨7, 1, none⟩, ⟨8, 3, none⟩] 0 [2, 3, 4, 5, 6, 7, 8, 0, 1] =
    some [2, 3, 0, 1] := by decide
example : filterDeadFull [⟨2, 3, none⟩] 0 [2, 3] = none := by decide

/-! ### Non-vacuity: the diamond `0 → {1,2} → 3 = exit` with its post-dominator tree -/

private def dE : List Edge := [⟨0, 1, some true⟩, ⟨0, 2, some false⟩, ⟨1, 3, none⟩, ⟨2, 3, none⟩]
private def dUp : Node → List Node := fun v => if v = 3 then [] else if v ≤ 2 then [3] else []

example : cdgAlgo dE dUp = [(0, 1, some true), (0, 2, some false)] := by decide
example : TreeOK dUp := by
  intro v p rest hv
  unfold dUp at hv ⊢
  split at hv
  · cases hv
  · split at hv
    · simp only [List.cons.injEq] at hv; obtain ⟨rfl, rfl⟩ := hv; simp
    · cases hv
example : decidePdom dE [0, 1, 2, 3] 3 3 0 = some true ∧ decidePdom dE [0, 1, 2, 3] 3 1 0 = some false := by
  decide

end PynguinModel.Cdg

namespace PynguinModel.Cdg

/-! ### The driver's executable hypothesis checks are sound -/

theorem labelConsistentb_sound {es : List (Node × Node × Label)} (h : labelConsistentb es = true) :
    LabelConsistent es := by
  intro x hx y hy h1 h2
  simp only [labelConsistentb, List.all_eq_true, Bool.or_eq_true, Bool.not_eq_true',
    Bool.and_eq_false_iff, beq_eq_false_iff_ne, beq_iff_eq] at h
  rcases h x hx y hy with (h' | h') | h'
  · exact absurd h1 h'
  · exact absurd h2 h'
  · exact h'

theorem treeOKb_sound {tbl : List (Node × List Node)} (h : treeOKb tbl = true) : TreeOK (upOf tbl) := by
  intro v p rest hv
  simp only [treeOKb, Bool.and_eq_true, List.all_eq_true] at h
  unfold upOf at hv
  split at hv
  · rename_i x hx
    have hmem := List.mem_of_find?_eq_some hx
    have := h.1 x hmem
    rw [hv] at this
    simpa using this
  · cases hv

end PynguinModel.Cdg

namespace PynguinModel.Cdg

/-! ### Loops that consist of one basic block -/

/-- A CFG edge from a block to itself (`while True: f()`: head and body are one block) always yields
the self dependence `A → A` with the label of that edge: the ancestor filter of `compute` is *strict*
(`target ∉ ancestors(source)`), so a self loop is never filtered out. -/
theorem self_loop_dependence {up} (h : TreeOK up) (E : List Edge) (a : Node) (l : Label)
    (he : (⟨a, a, l⟩ : Edge) ∈ E) : (a, a, l) ∈ cdgAlgo E up :=
  (mem_cdgAlgo_iff h E a a l).2 ⟨a, he, by simp [chain], not_mem_up_self h a⟩

/-- …and it survives in the stored graph (the node is neither ENTRY nor EXIT). -/
theorem self_loop_dependence_stored {up} (h : TreeOK up) (E : List Edge) (entry exit a : Node) (l : Label)
    (hc : LabelConsistent (cdgAlgo E up)) (he : (⟨a, a, l⟩ : Edge) ∈ E) (h1 : a ≠ entry) (h2 : a ≠ exit) :
    (a, a, l) ∈ cdgImpl E up entry exit :=
  (cdgImpl_mem_iff E up entry exit hc a a l).2 ⟨self_loop_dependence h E a l he, h1, h2, h1, h2⟩

/-- The infinite loop `ENTRY(0) → A(3) → A`, with the artificial edge `A → EXIT(1)` pynguin adds for a
loop without exit and the augmented entry `2`: `A` depends on the root and on itself. -/
example : cdgImpl [⟨3, 3, none⟩, ⟨3, 1, none⟩, ⟨0, 3, none⟩, ⟨2, 0, none⟩, ⟨2, 1, none⟩]
    (fun v => if v = 1 then [] else if v = 0 then [3, 1] else [1]) 0 1 = [(3, 3, none), (2, 3, none)] := by
  decide

/-! ### `get_control_dependencies` -/

/-- **The dependencies reported for a node are exactly the (branch, outcome) pairs the CDG defines**:
`(A, v)` is reported for `n` iff walking CDG edges backwards from `n`, through edges that are not
labelled edges out of a basic block (root, try-begin and yield blocks fork without a branch value),
meets the edge `A →v ·` out of the basic block `A`.  In particular a node that hangs on *both*
outcomes of one branch gets both pairs: the `handled` set of the walk is keyed by edge, not by node.
Holds for every graph with one label per (source, target) pair. -/
theorem control_dependencies_exact {g : CG} {isBlock : Node → Bool} (hg : LabelConsistent g)
    (n : Node) (d : Node × Bool) : d ∈ controlDeps g isBlock n ↔ DepReach g isBlock n d :=
  ⟨controlDeps_sound, controlDeps_complete hg⟩

/-- The stored CDG always has one label per pair (`nx.DiGraph`), so no hypothesis is left. -/
theorem control_dependencies_exact_stored (E : List Edge) (up : Node → List Node) (entry exit : Node)
    (isBlock : Node → Bool) (n : Node) (d : Node × Bool) :
    d ∈ controlDeps (cdgImpl E up entry exit) isBlock n ↔ DepReach (cdgImpl E up entry exit) isBlock n d :=
  control_dependencies_exact (labelConsistent_cdgImpl E up entry exit) n d

/-- The generator `for k in it: if k: yield k` as a CDG (`2` root, `3` loop head, `4` the `if`,
`5` the block before the `yield`, which forks without a branch value): the loop head depends on the
`if` being False (directly) *and* True (through block 5). -/
private def yE : CG := [(2, 3, none), (3, 4, some true), (4, 3, some false), (4, 5, some true), (5, 3, none),
  (3, 3, some true)]
example : controlDeps yE (fun n => decide (3 ≤ n)) 3 = [(4, false), (4, true), (3, true)] := by decide
example : DepReach yE (fun n => decide (3 ≤ n)) 3 (4, true) :=
  .through (p := 5) (l := none) (by decide) (Or.inr rfl) (.direct (by decide) (by decide))

/-! ### `is_control_dependent_on_root` -/

/-- A reported root dependence is real: an edge out of the root is reachable backwards over pass
edges. -/
theorem root_dependence_sound {g : CG} {isBlock : Node → Bool} {root n : Node}
    (h : rootDep g isBlock root n = true) : RootReach g isBlock root n := rootDep_sound h

/-- …and, when every node's outgoing edges are all dependencies or all pass edges (`Uniform`, the case
for the CDG of a CFG; evaluated by the driver on every graph), every real root dependence is found. -/
theorem root_dependence_exact {g : CG} {isBlock : Node → Bool} {root : Node} (hu : Uniform g isBlock)
    (n : Node) : rootDep g isBlock root n = true ↔ RootReach g isBlock root n :=
  ⟨rootDep_sound, rootDep_complete hu⟩

/-- `n` is reachable from the root in the CDG. -/
inductive CReach (g : CG) (root : Node) : Node → Prop
  | edge {n : Node} {l : Label} : (root, n, l) ∈ g → CReach g root n
  | step {p n : Node} {l : Label} : CReach g root p → (p, n, l) ∈ g → CReach g root n

/-- **Root dependence for nodes not dependent on any branch**: a node of the CDG (reachable from its
root) for which `get_control_dependencies` reports nothing is reported root dependent. -/
theorem root_dependence_of_no_branch {g : CG} {isBlock : Node → Bool} {root n : Node}
    (hg : LabelConsistent g) (hu : Uniform g isBlock) (hr : CReach g root n)
    (hd : controlDeps g isBlock n = []) : rootDep g isBlock root n = true := by
  apply rootDep_complete hu
  have hnone : ∀ d, ¬ DepReach g isBlock n d := fun d h => by
    have := controlDeps_complete hg h
    rw [hd] at this; cases this
  clear hd
  induction hr with
  | edge he => exact RootReach.direct he
  | @step p n l _ he ih =>
    cases hb : isBlock p with
    | false =>
      exact RootReach.through he (Or.inl hb) (ih fun d h => hnone d (DepReach.through he (Or.inl hb) h))
    | true =>
      cases l with
      | none =>
        exact RootReach.through he (Or.inr rfl) (ih fun d h => hnone d (DepReach.through he (Or.inr rfl) h))
      | some b => exact absurd (DepReach.direct he hb) (hnone (p, b))

/-- Without `Uniform` the search is incomplete (its `visited` set also swallows nodes first met over a
labelled edge): node 5 hangs off the root through the pass edge `3 → 5`, but 3 was visited over `3 →T 4`.
Only CDGs re-linked by DynaMOSA's `_create_covered_cdg` have this shape (C07 deals with it). -/
theorem rootDep_mixed_cex :
    rootDep [(2, 3, none), (3, 4, some true), (4, 5, none), (3, 5, none)] (fun n => decide (3 ≤ n)) 2 5 = false ∧
    RootReach [(2, 3, none), (3, 4, some true), (4, 5, none), (3, 5, none)] (fun n => decide (3 ≤ n)) 2 5 :=
  ⟨by decide, .through (p := 3) (l := none) (by decide) (Or.inr rfl) (.direct (l := none) (by decide))⟩

example : Uniform yE (fun n => decide (3 ≤ n)) := uniformb_sound (by decide)
example : rootDep yE (fun n => decide (3 ≤ n)) 2 3 = true ∧ rootDep yE (fun n => decide (3 ≤ n)) 2 5 = false := by
  decide

end PynguinModel.Cdg
