import PynguinModel.Lemmas.AssertTrace
/-!
# C20 — Rendered assertions are valid Python and hold for the observed value

Property theorems only.  The model (`Model/AssertRender.lean`) mirrors
`pynguin.assertion.assertion_to_ast`, `type_utils.is_assertable` and the observer's choice of
assertion, *with the repairs* `proposed_fixes/C20-float-sign-complex-call.diff` (sign bit in
`_make_float_literal`, complex rendered as `complex(re, im)`) and
`proposed_fixes/C20-isinstance-only-resolvable-types.diff` (`_is_type_importable` requires the
qualified name to resolve to the class object itself: `World.walk` + identity).  The unchanged tree's behaviour is kept in `…Old` definitions with
`C20_old_cex_…` theorems.

For every value the observer asserts on (`checkValue`), the rendered statement is valid and
executing it against the observed value passes (`C20_observed_partial`), except for the input
classes excluded by explicit hypotheses, each with a counterexample theorem and a known finding:
a NaN (`float`, or a component of a `complex`), an enum member whose class is not bound under its
bare name in the namespace, an `int` beyond CPython's 4300-digit `str()` limit.
-/
namespace PynguinModel.AssertRender
open PynguinModel.Literals

/-- The source expression is a plain variable of the test, bound to the observed value. -/
structure Observed (ns : Namespace) (src : String) (v : AVal) : Prop where
  nonempty : (src != "") = true
  not_keyword : src ≠ "None" ∧ src ≠ "True" ∧ src ≠ "False"
  bound : lookup src ns.vars = some v

theorem aeval_source {ns : Namespace} {src : String} {v : AVal} (h : Observed ns src v) :
    aeval ns (.name src) = some v := by
  simp [aeval, h.not_keyword.1, h.not_keyword.2.1, h.not_keyword.2.2, h.bound]

theorem source_valid {ns : Namespace} {src : String} {v : AVal} (h : Observed ns src v) :
    (Expr.name src).valid = true := by
  simpa [Expr.valid] using h.nonempty

/-! ## Object assertions (`is_assertable` values) -/

/-- For every assertable value (nested lists/tuples/sets/dicts up to depth 4, ints of any size,
bools, `None`, `str`/`bytes` with arbitrary characters, complex, enum members): the rendered
`assert var == <value>` / `assert var is <value>` is a valid tree and passes on the observed value —
provided no complex component is NaN and the enum classes are bound in the namespace. -/
theorem C20_object_partial (env : RenderEnv) (prec : PyFloat) (ns : Namespace) (src : String)
    (v : AVal) (hobs : Observed ns src v) (ha : isAssertable 0 v = true)
    (hnan : v.nanFree = true) (henum : v.enumsOk ns.enumClasses = true) :
    (render env prec (.object src v)).valid = true ∧
    evalStmt ns (render env prec (.object src v)) = some true := by
  have hop := noOpaque_of_isAssertable 0 v ha
  have hval := valueToCst_valid ns.enumClasses v henum hop
  have hev := aeval_valueToCst ns v hnan henum hop
  have hsrc := aeval_source hobs
  have hsv := source_valid hobs
  cases v with
  | none => simp [render, Stmt.valid, evalStmt, hsv, hsrc, hval, hev, pyIs]
  | bool b => simp [render, Stmt.valid, evalStmt, hsv, hsrc, hval, hev, pyIs]
  | float f => simp [isAssertable] at ha
  | obj t l => simp [isAssertable] at ha
  | int z =>
    refine ⟨by simp [render, Stmt.valid, hsv, hval], ?_⟩
    simp [render, evalStmt, hsrc, hev, pyEq_self _ hnan hop]
  | complex re im =>
    refine ⟨by simp [render, Stmt.valid, hsv, hval], ?_⟩
    simp [render, evalStmt, hsrc, hev, pyEq_self _ hnan hop]
  | str s =>
    refine ⟨by simp [render, Stmt.valid, hsv, hval], ?_⟩
    simp [render, evalStmt, hsrc, hev, pyEq_self _ hnan hop]
  | bytes s =>
    refine ⟨by simp [render, Stmt.valid, hsv, hval], ?_⟩
    simp [render, evalStmt, hsrc, hev, pyEq_self _ hnan hop]
  | enum c m =>
    refine ⟨by simp [render, Stmt.valid, hsv, hval], ?_⟩
    simp [render, evalStmt, hsrc, hev, pyEq_self _ hnan hop]
  | list xs =>
    refine ⟨by simp [render, Stmt.valid, hsv, hval], ?_⟩
    simp [render, evalStmt, hsrc, hev, pyEq_self _ hnan hop]
  | tuple xs =>
    refine ⟨by simp [render, Stmt.valid, hsv, hval], ?_⟩
    simp [render, evalStmt, hsrc, hev, pyEq_self _ hnan hop]
  | set xs =>
    refine ⟨by simp [render, Stmt.valid, hsv, hval], ?_⟩
    simp [render, evalStmt, hsrc, hev, pyEq_self _ hnan hop]
  | dict kvs =>
    refine ⟨by simp [render, Stmt.valid, hsv, hval], ?_⟩
    simp [render, evalStmt, hsrc, hev, pyEq_self _ hnan hop]

/-- Non-vacuity: a nested value with a negative int, a `-0.0` complex part, an enum member, an empty
set, a one-element tuple and arbitrary code points satisfies the hypotheses. -/
example :
    let v : AVal := .dict [(.tuple [.int (-3)], .list [.complex (.fin true 0) (.inf true),
      .enum "Color" "RED", .set [], .str [39, 92, 1114111], .none])]
    isAssertable 0 v = true ∧ v.nanFree = true ∧ v.enumsOk ["Color"] = true := by
  simp [isAssertable, isAssertableList, isAssertablePairs, AVal.nanFree, nanFreeList, nanFreePairs,
    AVal.enumsOk, enumsOkList, enumsOkPairs, PyFloat.isNan]

/-- **The emission order of a set's members is immaterial.**  `_value_to_cst` emits the members of a
set sorted by their rendered source text; whatever permutation `ys` of the observed members `xs` is
emitted, the assertion is valid and passes on the observed set. -/
theorem C20_set_any_order (env : RenderEnv) (prec : PyFloat) (ns : Namespace) (src : String)
    (xs ys : List AVal) (hperm : xs.Perm ys) (hobs : Observed ns src (.set xs))
    (ha : isAssertable 0 (.set ys) = true) (hnan : (AVal.set ys).nanFree = true)
    (henum : (AVal.set ys).enumsOk ns.enumClasses = true) :
    (render env prec (.object src (.set ys))).valid = true ∧
    evalStmt ns (render env prec (.object src (.set ys))) = some true := by
  have hop := noOpaque_of_isAssertable 0 _ ha
  have hval := valueToCst_valid ns.enumClasses _ henum hop
  have hev := aeval_valueToCst ns _ hnan henum hop
  have hsrc := aeval_source hobs
  have hsv := source_valid hobs
  refine ⟨by simp [render, Stmt.valid, hsv, hval], ?_⟩
  have hn : nanFreeList xs = true := by
    rw [nanFreeList_perm hperm]; simpa [AVal.nanFree] using hnan
  have ho : noOpaqueList xs = true := by
    rw [noOpaqueList_perm hperm]; simpa [AVal.noOpaque] using hop
  have hsub := subsetEq_of_subset xs ys hn ho (fun x hx => hperm.subset hx)
  simp [render, evalStmt, hsrc, hev, pyEq, hperm.length_eq, hsub]

/-- Non-vacuity: `{2, 'a', None}` iterated as `2, 'a', None`, emitted as `None, 2, 'a'`. -/
example : [AVal.int 2, .str [97], .none].Perm [.none, .int 2, .str [97]] ∧
    isAssertable 0 (.set [.none, .int 2, .str [97]]) = true :=
  ⟨List.perm_append_comm (l₁ := [AVal.int 2, AVal.str [97]]) (l₂ := [AVal.none]),
   by simp [isAssertable, isAssertableList]⟩
/-! ## Float assertions -/

/-- For every float that is not NaN (all signs, `-0.0`, `±inf`, subnormals): the rendered
`assert var == pytest.approx(<value>, abs=<p>, rel=<p>)` is valid and passes. -/
theorem C20_float_partial (env : RenderEnv) (ns : Namespace) (src : String) (f : PyFloat)
    (pm : Nat) (hobs : Observed ns src (.float f)) (hpytest : ns.hasPytest = true)
    (hnan : f.isNan = false) :
    (render env (.fin false pm) (.float src f)).valid = true ∧
    evalStmt ns (render env (.fin false pm) (.float src f)) = some true := by
  have hsrc := aeval_source hobs
  have hsv := source_valid hobs
  refine ⟨by simp [render, Stmt.valid, hsv, makeFloatLiteral_valid], ?_⟩
  have hp : aeval ns (makeFloatLiteral (.fin false pm)) = some (.float (.fin false pm)) :=
    aeval_makeFloatLiteral ns _ (by simp [PyFloat.isNan])
  simp [render, evalStmt, hpytest, hsrc, aeval_makeFloatLiteral ns f hnan, hp, validTolerance, approxEq,
    PyFloat.pyEq_self f hnan]

example : (PyFloat.fin true 0).isNan = false ∧ (PyFloat.inf true).isNan = false := by
  simp [PyFloat.isNan]

/-! ## Type-name, isinstance and length assertions -/

/-- The type-name assertion built from `type(v)` is valid and passes, for every value. -/
theorem C20_typeName (env : RenderEnv) (prec : PyFloat) (ns : Namespace) (src : String) (v : AVal)
    (hobs : Observed ns src v) :
    (render env prec (.typeName src v.typeOf)).valid = true ∧
    evalStmt ns (render env prec (.typeName src v.typeOf)) = some true := by
  simp [render, Stmt.valid, evalStmt, aeval_source hobs, source_valid hobs]

/-- The length assertion built from `len(v)` is valid and passes. -/
theorem C20_len (env : RenderEnv) (prec : PyFloat) (ns : Namespace) (src : String) (v : AVal)
    (n : Nat) (hobs : Observed ns src v) (hl : v.len? = some n) :
    (render env prec (.collectionLength src n)).valid = true ∧
    evalStmt ns (render env prec (.collectionLength src n)) = some true := by
  have hn : aeval ns (.integer (toDigits n)) = some (.int (n : Int)) := by
    simp [aeval, ofDigits_toDigits]
  have hnv : (Expr.integer (toDigits n)).valid = true := by simp [Expr.valid, validDigits_toDigits]
  simp [render, Stmt.valid, evalStmt, aeval_source hobs, source_valid hobs, hn, hnv, hl]

/-- The namespace of the exported file, seen from the observer: the same interpreter state (the
module objects the observer walked are the ones the test file imports), the module under test is
bound under its alias and nothing else is bound there that could shadow a name of `builtins`; the
alias and the parts of an importable type's qualified name are identifiers. -/
structure EnvOk (te : TypeEnv) (env : RenderEnv) (ns : Namespace) : Prop where
  alias_ok : validIdent (env.alias te.moduleName) = true
  parts_ok : ∀ t, isTypeImportable te t = true → ∀ p ∈ t.qual, validIdent p = true
  builtins_flat : ∀ t, isTypeImportable te t = true → t.module = "builtins" → ∃ n, t.qual = [n]
  same_world : ns.world = te.world
  alias_bound : ∀ m, te.sutModule = some m → lookup (env.alias te.moduleName) ns.globals = some m
  only_alias : ∀ n o, lookup n ns.globals = some o → n = env.alias te.moduleName
  alias_no_builtin : te.world.getattr te.world.builtins (env.alias te.moduleName) = none

/-- **Resolution by qualified name + identity.**  When `_is_type_importable` accepts a type, the type
expression `_isinstance_assertion_to_cst` renders for it (`Name` for builtins,
`alias.Outer.Inner` otherwise) evaluates, in the exported file, to *that very class object* — not
merely to something. -/
theorem C20_importable_resolves (te : TypeEnv) (env : RenderEnv) (ns : Namespace)
    (hok : EnvOk te env ns) (t : TypeId) (himp : isTypeImportable te t = true) :
    (exprPath (typeExpr env t)).bind ns.resolve = some (.cls t) := by
  rw [exprPath_typeExpr]
  simp only [Option.bind_some]
  unfold typePath
  split
  · rename_i hb
    obtain ⟨n, hn⟩ := hok.builtins_flat t himp hb
    have hwalk : te.world.getattr te.world.builtins n = some (.cls t) := by
      simp only [isTypeImportable, typeOwner, hb, beq_self_eq_true, if_true, hn, World.walk] at himp
      cases hg : te.world.getattr te.world.builtins n with
      | none => simp [hg] at himp
      | some o => simpa [hg, World.walk] using himp
    have hfree : lookup n ns.globals = none := by
      cases hl : lookup n ns.globals with
      | none => rfl
      | some o =>
        have := hok.only_alias n o hl
        rw [this, hok.alias_no_builtin] at hwalk
        cases hwalk
    simp [hn, joinDots, Namespace.resolve, hfree, hok.same_world, hwalk, World.walk]
  · rename_i hb
    have hb' : (t.module == "builtins") = false := by simpa using hb
    simp only [isTypeImportable, typeOwner, hb', Bool.false_eq_true, if_false] at himp
    by_cases hm : (t.module == te.moduleName) = true
    · simp only [hm, if_true] at himp
      cases hs : te.sutModule with
      | none => simp [hs] at himp
      | some m =>
        simp only [hs, beq_iff_eq] at himp
        have hm' : t.module = te.moduleName := by simpa using hm
        simp [Namespace.resolve, hm', hok.alias_bound m hs, hok.same_world, himp]
    · simp [hm] at himp

/-- The isinstance assertion on an importable type is valid (every name is an identifier) and
passes on a value of that type. -/
theorem C20_isInstance (te : TypeEnv) (env : RenderEnv) (prec : PyFloat) (ns : Namespace)
    (src : String) (v : AVal) (hobs : Observed ns src v) (hok : EnvOk te env ns)
    (himp : isTypeImportable te v.typeOf = true) :
    (render env prec (.isInstance src v.typeOf)).valid = true ∧
    evalStmt ns (render env prec (.isInstance src v.typeOf)) = some true := by
  have hmod : v.typeOf.module = "builtins" ∨ v.typeOf.module = te.moduleName := by
    simp only [isTypeImportable, typeOwner] at himp
    by_cases h1 : (v.typeOf.module == "builtins") = true
    · exact Or.inl (by simpa using h1)
    · by_cases h2 : (v.typeOf.module == te.moduleName) = true
      · exact Or.inr (by simpa using h2)
      · simp [h1, h2] at himp
  have hparts := hok.parts_ok _ himp
  constructor
  · simp only [render, Stmt.valid, source_valid hobs, Bool.true_and, Bool.and_eq_true]
    unfold typeExpr
    split
    · rename_i hb
      obtain ⟨n, hn⟩ := hok.builtins_flat _ himp hb
      have hn' : validIdent n = true := hparts n (by simp [hn])
      have hne := validIdent_ne_empty hn'
      simp only [bne_iff_ne, ne_eq] at hne
      simp [hn, joinDots, Expr.valid, namesValid, hn', hne]
    · rename_i hb
      have hm : v.typeOf.module = te.moduleName := by
        rcases hmod with h | h
        · exact absurd h hb
        · exact h
      have ha : validIdent (env.alias v.typeOf.module) = true := by rw [hm]; exact hok.alias_ok
      exact ⟨valid_foldl _ _ (by simp [Expr.valid, validIdent_ne_empty ha]) hparts,
        namesValid_foldl _ _ (by simp [namesValid, ha]) hparts⟩
  · simp [render, evalStmt, aeval_source hobs, C20_importable_resolves te env ns hok _ himp, instanceOf]

/-- **An isinstance assertion is only recorded for a type that the exported namespace resolves to
that very type**: whatever `_check_value` records about a value, an `IsInstanceAssertion` among it is
about the value's own class, and the rendered reference evaluates to that class object. -/
theorem C20_isinstance_only_resolving (te : TypeEnv) (env : RenderEnv) (ns : Namespace)
    (hok : EnvOk te env ns) (src : String) (v : AVal) (src' : String) (t : TypeId)
    (hmem : Assertion.isInstance src' t ∈ checkValue te src v) :
    src' = src ∧ t = v.typeOf ∧ (exprPath (typeExpr env t)).bind ns.resolve = some (.cls t) := by
  obtain ⟨h1, h2, h3⟩ := mem_checkValue_isInstance te src v src' t hmem
  exact ⟨h1, h2, C20_importable_resolves te env ns hok t h3⟩

/-- The module of the counterexample: `@singleton class Registry` (the name is rebound to the
accessor function, object 7), `class Point` defined twice (the name denotes the second class). -/
def cexWorld : World :=
  { getattr := fun o n =>
      if o = .other 1 ∧ n = "Registry" then some (.other 7)
      else if o = .other 1 ∧ n = "Point" then some (.cls ⟨"sut", ["Point"], 1⟩)
      else none,
    builtins := .other 0 }

/-- Why the identity test is needed: resolution by name alone accepts the hidden `Registry` class and
the first `Point` class; the rendered `isinstance(var_0, sut_.Registry)` raises (`TypeError`: the
name denotes a function), `isinstance(var_0, sut_.Point)` is false for an instance of the first
class — while `_is_type_importable` rejects both and the type-name assertion passes
(`C20_typeName`). -/
theorem C20_resolution_without_identity_cex :
    let te : TypeEnv := ⟨"sut", cexWorld, some (.other 1)⟩
    let registry : TypeId := ⟨"sut", ["Registry"], 0⟩
    let point0 : TypeId := ⟨"sut", ["Point"], 0⟩
    let ns (t : TypeId) : Namespace :=
      { vars := [("var_0", .obj t none)], enumClasses := [], globals := [("sut_", .other 1)],
        world := cexWorld, hasPytest := true }
    isTypeImportableByName te registry = true ∧ isTypeImportable te registry = false ∧
    isTypeImportableByName te point0 = true ∧ isTypeImportable te point0 = false ∧
    isTypeImportable te ⟨"sut", ["Point"], 1⟩ = true ∧
    evalStmt (ns registry) (render ⟨fun m => m ++ "_"⟩ (.fin false 1) (.isInstance "var_0" registry)) = none ∧
    evalStmt (ns point0) (render ⟨fun m => m ++ "_"⟩ (.fin false 1) (.isInstance "var_0" point0))
      = some false := by
  refine ⟨by decide, by decide, by decide, by decide, by decide, ?_, ?_⟩
  · simp [render, evalStmt, aeval, lookup, typeExpr, exprPath, Namespace.resolve, cexWorld, World.walk]
  · simp [render, evalStmt, aeval, lookup, typeExpr, exprPath, Namespace.resolve, cexWorld, World.walk,
      instanceOf, AVal.typeOf, builtinType]

/-! ## Everything the observer emits -/

/-- **C20 (partial).**  Every assertion `_check_value` produces for an observed value renders to a
valid statement that passes on that value, for all values except: a NaN float / NaN complex
component, an enum member whose class is not bound under its bare name. -/
theorem C20_observed_partial (te : TypeEnv) (env : RenderEnv) (ns : Namespace) (src : String)
    (v : AVal) (pm : Nat) (hobs : Observed ns src v) (hok : EnvOk te env ns)
    (hpytest : ns.hasPytest = true) (hnan : v.nanFree = true)
    (henum : v.enumsOk ns.enumClasses = true) :
    ∀ a ∈ checkValue te src v,
      (render env (.fin false pm) a).valid = true ∧ evalStmt ns (render env (.fin false pm) a) = some true := by
  intro a ha
  have key : ∀ w : AVal, w = v → (∀ f, w ≠ .float f) →
      a ∈ (if isAssertable 0 w then [Assertion.object src w] else checkTypeAndLen te src w) →
      (render env (.fin false pm) a).valid = true ∧
        evalStmt ns (render env (.fin false pm) a) = some true := by
    intro w hw _ hmem
    subst hw
    split at hmem
    · rename_i hass
      simp only [List.mem_singleton] at hmem
      subst hmem
      exact C20_object_partial env _ ns src w hobs hass hnan henum
    · simp only [checkTypeAndLen, List.mem_append] at hmem
      rcases hmem with hmem | hmem
      · split at hmem
        · rename_i himp
          simp only [List.mem_singleton] at hmem
          subst hmem
          exact C20_isInstance te env _ ns src w hobs hok himp
        · simp only [List.mem_singleton] at hmem
          subst hmem
          exact C20_typeName env _ ns src w hobs
      · cases hl : w.len? with
        | none => simp [hl] at hmem
        | some n =>
          simp only [hl, List.mem_singleton] at hmem
          subst hmem
          exact C20_len env _ ns src w n hobs hl
  cases v with
  | float f =>
    simp only [checkValue, List.mem_singleton] at ha
    subst ha
    have : f.isNan = false := by simpa [AVal.nanFree] using hnan
    exact C20_float_partial env ns src f pm hobs hpytest this
  | none => exact key _ rfl (by intro f h; cases h) (by simpa [checkValue] using ha)
  | bool b => exact key _ rfl (by intro f h; cases h) (by simpa [checkValue] using ha)
  | int z => exact key _ rfl (by intro f h; cases h) (by simpa [checkValue] using ha)
  | complex re im => exact key _ rfl (by intro f h; cases h) (by simpa [checkValue] using ha)
  | str s => exact key _ rfl (by intro f h; cases h) (by simpa [checkValue] using ha)
  | bytes s => exact key _ rfl (by intro f h; cases h) (by simpa [checkValue] using ha)
  | enum c m => exact key _ rfl (by intro f h; cases h) (by simpa [checkValue] using ha)
  | obj t l => exact key _ rfl (by intro f h; cases h) (by simpa [checkValue] using ha)
  | list xs => exact key _ rfl (by intro f h; cases h) (by simpa [checkValue] using ha)
  | tuple xs => exact key _ rfl (by intro f h; cases h) (by simpa [checkValue] using ha)
  | set xs => exact key _ rfl (by intro f h; cases h) (by simpa [checkValue] using ha)
  | dict kvs => exact key _ rfl (by intro f h; cases h) (by simpa [checkValue] using ha)

/-! ## The full-strength statement and its counterexamples -/

/-- Full strength: like `C20_observed_partial` without the NaN and enum-binding hypotheses. -/
def C20_full : Prop :=
  ∀ (te : TypeEnv) (env : RenderEnv) (ns : Namespace) (src : String) (v : AVal) (pm : Nat),
    Observed ns src v → EnvOk te env ns → ns.hasPytest = true →
    ∀ a ∈ checkValue te src v,
      (render env (.fin false pm) a).valid = true ∧ evalStmt ns (render env (.fin false pm) a) = some true

/-- The namespace of an exported test: one variable, `pytest`, no bare enum class names. -/
def exportNs (src : String) (v : AVal) : Namespace :=
  { vars := [(src, v)], enumClasses := [], globals := [], world := ⟨fun _ _ => none, .other 0⟩,
    hasPytest := true }

theorem observed_exportNs (v : AVal) : Observed (exportNs "var_0" v) "var_0" v :=
  ⟨by decide, by decide, by simp [exportNs, lookup]⟩

/-- Witness 1: an observed NaN renders to `assert var_0 == pytest.approx(float('nan'), …)`, which is
false (`nan_ok` is not set). -/
theorem C20_nan_float_cex :
    evalStmt (exportNs "var_0" (.float (.nan false)))
      (render ⟨fun m => m ++ "_"⟩ (.fin false 1) (.float "var_0" (.nan false))) = some false := by
  simp [render, evalStmt, exportNs, aeval, aevalList, lookup, makeFloatLiteral, floatOfText, strNan,
    strInf, strNegInf, validTolerance, approxEq, PyFloat.pyEq, PyFloat.isNan]

/-- Witness 2: a complex value with a NaN component is assertable, and the rendered equality is
false. -/
theorem C20_nan_complex_cex :
    isAssertable 0 (.complex (.nan false) (.fin false 0)) = true ∧
    evalStmt (exportNs "var_0" (.complex (.nan false) (.fin false 0)))
      (render ⟨fun m => m ++ "_"⟩ (.fin false 1)
        (.object "var_0" (.complex (.nan false) (.fin false 0)))) = some false := by
  simp [isAssertable, render, evalStmt, exportNs, aeval, aevalList, lookup, valueToCst, makeFloatLiteral,
    floatOfText, strNan, strInf, strNegInf, pyEq, PyFloat.pyEq]

/-- Witness 3: an enum member renders to `Color.RED`; the exported file binds only the module alias,
so evaluating the assertion raises (`NameError`). -/
theorem C20_enum_unbound_cex :
    isAssertable 0 (.enum "Color" "RED") = true ∧
    evalStmt (exportNs "var_0" (.enum "Color" "RED"))
      (render ⟨fun m => m ++ "_"⟩ (.fin false 1) (.object "var_0" (.enum "Color" "RED"))) = none := by
  simp [isAssertable, render, evalStmt, exportNs, aeval, lookup, valueToCst]

theorem C20_full_cex : ¬ C20_full := by
  intro h
  have hni : ∀ t, isTypeImportable ⟨"m", ⟨fun _ _ => none, .other 0⟩, none⟩ t = false := by
    intro t
    simp only [isTypeImportable, typeOwner]
    split
    · rename_i o ho
      split at ho
      · cases t with
        | mk m q k => cases q <;> simp_all [World.walk] <;> (subst ho; simp)
      · split at ho <;> simp at ho
    · rfl
  have := h ⟨"m", ⟨fun _ _ => none, .other 0⟩, none⟩ ⟨fun m => m ++ "_"⟩
    (exportNs "var_0" (.float (.nan false))) "var_0"
    (.float (.nan false)) 1 (observed_exportNs _)
    ⟨by decide, by intro t ht; simp [hni] at ht, by intro t ht; simp [hni] at ht, rfl,
     by intro m hm; simp at hm, by intro n o hl; simp [exportNs, lookup] at hl, rfl⟩
    rfl (.float "var_0" (.nan false)) (by simp [checkValue])
  rw [C20_nan_float_cex] at this
  simp at this

/-- With the digit limit `lim > 0`, rendering an object assertion on an `int` succeeds exactly for
`|z| < 10^lim` (otherwise `str(value)` raises `ValueError`). -/
theorem C20_int_limit_iff (lim : Nat) (hl : 0 < lim) (env : RenderEnv) (prec : PyFloat) (src : String)
    (z : Int) :
    renderLim lim env prec (.object src (.int z)) = some (render env prec (.object src (.int z)))
      ↔ z.natAbs < 10 ^ lim := by
  have hne : (lim == 0) = false := by simp; omega
  simp only [renderLim, AVal.intsWithin, digitsWithinLimit, hne, Bool.false_or]
  rw [← toDigits_length_le_iff _ _ hl]
  simp

theorem C20_int_limit_cex (env : RenderEnv) (prec : PyFloat) :
    renderLim 4300 env prec (.object "var_0" (.int (10 ^ 4300))) = none := by
  have e : ((10 : Int) ^ 4300).natAbs = 10 ^ 4300 := by rw [Int.natAbs_pow]; rfl
  have hlt : ¬ ((10 : Int) ^ 4300).natAbs < 10 ^ 4300 := by rw [e]; exact Nat.lt_irrefl _
  have h := mt (C20_int_limit_iff 4300 (by omega) env prec "var_0" ((10 : Int) ^ 4300)).1 hlt
  simp only [renderLim] at h ⊢
  split
  · rename_i hw; simp [hw] at h
  · rfl

/-! ## The unchanged tree (before the proposed fixes) -/

/-- Unchanged tree, defect 1: a float assertion on `-0.0` builds `cst.Float("-0.0")`
(`CSTValidationError`). -/
theorem C20_old_cex_negzero :
    (renderFloatOld "var_0" (.fin false 1) (.fin true 0)).valid = false := by
  simp [renderFloatOld, makeFloatLiteralOld, PyFloat.ltZero, Stmt.valid, Expr.valid]

/-- Unchanged tree, defect 2: a complex value is assertable but renders to
`cst.SimpleString("(1+2j)")` (`CSTValidationError`). -/
theorem C20_old_cex_complex (re im : PyFloat) :
    isAssertable 0 (.complex re im) = true ∧ (scalarToCstOld (.complex re im)).valid = false := by
  simp [isAssertable, scalarToCstOld, Expr.valid]

/-- Unchanged tree, defect 3: `_is_type_importable` accepts every `builtins` type, e.g. `dict_keys`,
whose name is not bound in `builtins` (the rendered `isinstance(var_0, dict_keys)` raises
`NameError`), and every class of the module under test, e.g. one defined inside a function, whose
qualified name contains `<locals>` (`cst.Name("<locals>")` is a `CSTValidationError`). -/
theorem C20_old_cex_isinstance :
    let te : TypeEnv := ⟨"sut", ⟨fun _ _ => none, .other 0⟩, some (.other 1)⟩
    let dictKeys : TypeId := ⟨"builtins", ["dict_keys"], 0⟩
    let loc : TypeId := ⟨"sut", ["mk", "<locals>", "Loc"], 0⟩
    isTypeImportableOld te dictKeys = true ∧ isTypeImportable te dictKeys = false ∧
    evalStmt (exportNs "var_0" (.obj dictKeys (some 0)))
      (render ⟨fun m => m ++ "_"⟩ (.fin false 1) (.isInstance "var_0" dictKeys)) = none ∧
    isTypeImportableOld te loc = true ∧
    (render ⟨fun m => m ++ "_"⟩ (.fin false 1) (.isInstance "var_0" loc)).valid = false := by
  refine ⟨by decide, by decide, ?_, by decide, ?_⟩
  · simp [render, evalStmt, exportNs, aeval, lookup, typeExpr, exprPath, Namespace.resolve, joinDots]
  · simp [render, Stmt.valid, typeExpr, namesValid, validIdent, Expr.valid]

/-! ## The observer path: assertions recorded over a whole test case

`RemoteAssertionTraceObserver` looks at the namespace after every statement and stores, per
position, the assertions `_check_value` makes on the freshly bound variable (if primitive), on every
watched variable and its public attributes, on the public attributes of the module under test and on
the class attributes of the watched objects' classes.  The assertions are rendered when the test case
is over.  `Snapshot` = the namespace after one statement with every value deep-copied (which is what
`copy.deepcopy` in `_check_value` does); `HSnapshot` = the live namespace (items in a heap). -/

/-- The snapshot of one position lies inside the domain of the partial property: distinct, non-empty
reference paths that are no keywords; no NaN; enum classes bound; the exported namespace resolves the
importable types. -/
structure SnapshotOk (te : TypeEnv) (env : RenderEnv) (enums : List String)
    (globals : List (String × PyRef)) (s : Snapshot) : Prop where
  keys_nodup : ((s.flat (env.alias te.moduleName)).map Prod.fst).Nodup
  srcs_ok : ∀ p, p ∈ s.flat (env.alias te.moduleName) →
    (p.1 != "") = true ∧ p.1 ≠ "None" ∧ p.1 ≠ "True" ∧ p.1 ≠ "False"
  nan_free : ∀ p, p ∈ s.flat (env.alias te.moduleName) → p.2.nanFree = true
  enums_ok : ∀ p, p ∈ s.flat (env.alias te.moduleName) → p.2.enumsOk enums = true
  env_ok : EnvOk te env (nsAt (env.alias te.moduleName) enums globals te.world s)

/-- One position: whatever the watch list is, every assertion `_handle` records after a statement is
valid and passes in the namespace of the exported test *right after that statement*. -/
theorem C20_position_partial (te : TypeEnv) (env : RenderEnv) (enums : List String)
    (globals : List (String × PyRef)) (pm : Nat) (s : Snapshot)
    (hok : SnapshotOk te env enums globals s) (w : List String) :
    ∀ a, a ∈ (handle te (env.alias te.moduleName) w s).2 →
      (render env (.fin false pm) a).valid = true ∧
      evalStmt (nsAt (env.alias te.moduleName) enums globals te.world s) (render env (.fin false pm) a) = some true := by
  intro a ha
  obtain ⟨p, hp, hpa⟩ := mem_handle te _ w s a ha
  have hs := hok.srcs_ok p hp
  have hobs : Observed (nsAt (env.alias te.moduleName) enums globals te.world s) p.1 p.2 :=
    ⟨hs.1, hs.2, lookup_of_mem_nodup _ p.1 p.2 hok.keys_nodup hp⟩
  exact C20_observed_partial te env _ p.1 p.2 pm hobs hok.env_ok rfl (hok.nan_free p hp)
    (hok.enums_ok p hp) a hpa

/-- **C20 on the observer path (partial).**  For a test case whose statements all succeed: every
assertion recorded for position `i` is valid and passes in the namespace of position `i` — the
positions are paired with their own snapshots. -/
theorem C20_trace_partial (te : TypeEnv) (env : RenderEnv) (enums : List String)
    (globals : List (String × PyRef)) (pm : Nat) :
    ∀ (ss : List Snapshot) (w : List String), (∀ s, s ∈ ss → SnapshotOk te env enums globals s) →
    ∀ p, p ∈ ss.zip (traceFrom te (env.alias te.moduleName) w ss) → ∀ a, a ∈ p.2 →
      (render env (.fin false pm) a).valid = true ∧
      evalStmt (nsAt (env.alias te.moduleName) enums globals te.world p.1) (render env (.fin false pm) a) = some true
  | [], _, _, p, hp, _, _ => by simp at hp
  | s :: r, w, hok, p, hp, a, ha => by
      simp only [traceFrom, List.zip_cons_cons, List.mem_cons] at hp
      rcases hp with hp | hp
      · subst hp
        exact C20_position_partial te env enums globals pm s (hok s (by simp)) w a ha
      · exact C20_trace_partial te env enums globals pm r (nextWatch w s)
          (fun s' hs' => hok s' (by simp [hs'])) p hp a ha

/-- Later statements do not change what is recorded for earlier positions. -/
theorem C20_trace_prefix (te : TypeEnv) (alias : String) (w : List String) (ss later : List Snapshot) :
    (traceFrom te alias w (ss ++ later)).take ss.length = traceFrom te alias w ss := by
  rw [traceFrom_append]
  exact List.take_left' (traceFrom_length te alias w ss)

/-- The same on live heaps: whatever the heaps of later positions look like (any in-place mutation of
any container), the assertions recorded for the first positions are those of the shorter run —
position `i` is a deep snapshot taken in heap `i`. -/
theorem C20_record_prefix (fuel : Nat) (te : TypeEnv) (alias : String) (hs later : List HSnapshot)
    (r : List (List Assertion)) (h : recordHistory fuel te alias (hs ++ later) = some r) :
    recordHistory fuel te alias hs = some (r.take hs.length) := by
  simp only [recordHistory, List.map_append, Option.map_eq_some_iff] at h ⊢
  obtain ⟨ss, hss, hr⟩ := h
  obtain ⟨a, b, ha, hb, hab⟩ := allSome_append _ _ ss hss
  refine ⟨a, ha, ?_⟩
  have hl : a.length = hs.length := by simpa using allSome_length _ a ha
  rw [← hr, hab, ← hl]
  exact (C20_trace_prefix te alias [] a b).symm

/-- A deep copy is the observed value, whatever the heap looks like when the assertion is rendered. -/
theorem C20_deep_snapshot (fuel : Nat) (hObs hEnd : Heap) (it : Item) :
    expectedAtRender fuel .deep hObs hEnd it = reify hObs fuel it := rfl

/-- Why flat collections are indifferent to the copy depth: a container that holds only immutable
values is the same under a shallow and a deep copy. -/
theorem C20_shallow_eq_deep_of_flat (fuel : Nat) (hObs hEnd : Heap) (a : Nat) (c : Cell)
    (hc : hObs.get a = some c) (hflat : ∀ it, it ∈ c.items → ∃ v, it = .imm v) :
    expectedAtRender (fuel + 1) .shallow hObs hEnd (.ref a) =
      expectedAtRender (fuel + 1) .deep hObs hEnd (.ref a) := by
  simp only [expectedAtRender, reify, hc, Option.bind_some]
  apply reifyCell_congr
  intro it hit
  obtain ⟨v, hv⟩ := hflat it hit
  rw [hv, reify_imm, reify_imm]

/-- `obj.rows == [[1], [2]]` observed after statement 0 … -/
def cexHeapObs : Heap :=
  [(0, .list [.ref 1, .ref 2]), (1, .list [.imm (.int 1)]), (2, .list [.imm (.int 2)])]
/-- … and a later statement does `obj.rows[0].append(2)`. -/
def cexHeapEnd : Heap :=
  [(0, .list [.ref 1, .ref 2]), (1, .list [.imm (.int 1), .imm (.int 2)]), (2, .list [.imm (.int 2)])]

/-- Why the copy must be deep: with a shallow copy (or none) the assertion recorded for position 0
shows the *later* inner list, and the rendered `assert var_0.rows == [[1, 2], [2]]` is false for the
value observed at position 0. -/
theorem C20_shallow_copy_cex :
    let observed : AVal := .list [.list [.int 1], .list [.int 2]]
    let later : AVal := .list [.list [.int 1, .int 2], .list [.int 2]]
    reify cexHeapObs 4 (.ref 0) = some observed ∧
    expectedAtRender 4 .deep cexHeapObs cexHeapEnd (.ref 0) = some observed ∧
    expectedAtRender 4 .shallow cexHeapObs cexHeapEnd (.ref 0) = some later ∧
    expectedAtRender 4 .alias cexHeapObs cexHeapEnd (.ref 0) = some later ∧
    evalStmt (exportNs "var_0.rows" observed)
      (render ⟨fun m => m ++ "_"⟩ (.fin false 1) (.object "var_0.rows" later)) = some false := by
  refine ⟨rfl, rfl, rfl, rfl, ?_⟩
  simp [render, evalStmt, exportNs, aeval, aevalList, lookup, valueToCst, valuesToCst, intLiteral, pyEq,
    pyEqList, toDigits, ofDigits]

/-- A flat list mutated in place: a shallow copy still protects it, no copy at all does not. -/
theorem C20_no_copy_cex :
    let hObs : Heap := [(0, .list [.imm (.int 1)])]
    let hEnd : Heap := [(0, .list [.imm (.int 1), .imm (.int 2)])]
    expectedAtRender 4 .shallow hObs hEnd (.ref 0) = reify hObs 4 (.ref 0) ∧
    expectedAtRender 4 .alias hObs hEnd (.ref 0) = some (.list [.int 1, .int 2]) ∧
    reify hObs 4 (.ref 0) = some (.list [.int 1]) := ⟨rfl, rfl, rfl⟩

/-- Non-vacuity of `SnapshotOk` / `C20_trace_partial`: an object with a nested list attribute, a class
attribute and a module attribute. -/
example :
    let te : TypeEnv := ⟨"sut", ⟨fun o n => if o = .other 1 ∧ n = "Grid" then some (.cls ⟨"sut", ["Grid"], 0⟩)
      else if o = .other 0 ∧ n = "list" then some (.cls ⟨"builtins", ["list"], 0⟩) else none, .other 0⟩, some (.other 1)⟩
    let s : Snapshot := ⟨"var_0",
      [("var_0", .inst ⟨"sut", ["Grid"], 0⟩ none [("rows", .list [.list [.int 1], .list [.int 2]])])],
      [("REG", .plain (.dict [(.str [107], .list [.none])]))],
      [(⟨"sut", ["Grid"], 0⟩, [("count", .plain (.int 3))])]⟩
    (handle te "sut_" [] s).2.length = 4 ∧
    ((s.flat "sut_").map Prod.fst).Nodup := by
  refine ⟨by decide, by decide⟩

end PynguinModel.AssertRender
