import PynguinModel.Lemmas.TestCaseAppend
import PynguinModel.Lemmas.TestCaseRegistry
import PynguinModel.Lemmas.TestCaseUnusedKeep
/-!
# C15 — Variation operators keep every test case well-formed

Property theorems only.  `WF tc` (in `Lemmas/TestCase.lean`): every variable read is bound by an earlier
statement, bound names are pairwise distinct, every bound name is a `var_k` with `k` below the
fresh-name counter, and the per-type registry is what `_rebuild_registry` computes.  Every editing
primitive of `TestCase` and every composite that edits by name keeps `WF`, for all inputs, all
indices and all outcomes of the random draws; statements produced by `TestFactory` enter through the
contracts `InsertOK` / `ReplaceOK` (validated against the real factory on every run, not proved);
`histories_WF` puts it together for arbitrary histories over a population (`Reach`).
-/
namespace PynguinModel.TestCase

/-! ### the executable checks are the propositions -/

theorem readsOKb_iff (bs : List Name) (l : List Stmt) : readsOKb bs l = true ↔ readsOK bs l := by
  induction l generalizing bs with
  | nil => simp [readsOKb, readsOK]
  | cons s rest ih =>
    simp only [readsOKb, readsOK, Bool.and_eq_true, List.all_eq_true, Bool.or_eq_true,
      Bool.not_eq_true', decide_eq_true_eq, ih]
    constructor
    · rintro ⟨h1, h2⟩
      exact ⟨fun u hu hv => by rcases h1 u hu with h | h; simp [h] at hv; exact h, h2⟩
    · rintro ⟨h1, h2⟩
      refine ⟨fun u hu => ?_, h2⟩
      cases hv : u.isVar
      · exact Or.inl rfl
      · exact Or.inr (h1 u hu hv)

theorem below_iff (c : Nat) (v : Name) : v.below c = true ↔ ∃ k, v = Name.var k ∧ k < c := by
  cases v with
  | var k => simp [Name.below]
  | ext s => simp [Name.below]

/-- the driver's check `wfB` decides exactly `WF` -/
theorem wfB_iff (tc : TC) : wfB tc = true ↔ WF tc := by
  simp only [wfB, Bool.and_eq_true, decide_eq_true_eq, List.all_eq_true, readsOKb_iff, below_iff]
  constructor
  · rintro ⟨⟨⟨h1, h2⟩, h3⟩, h4⟩; exact ⟨h1, h2, h3, h4⟩
  · rintro ⟨h1, h2, h3, h4⟩; exact ⟨⟨⟨h1, h2⟩, h3⟩, h4⟩

theorem insertOKb_iff (tc : TC) (i : Nat) (s : Stmt) : insertOKb tc i s = true ↔ InsertOK tc i s := by
  simp only [insertOKb, Bool.and_eq_true, List.all_eq_true, Bool.or_eq_true, Bool.not_eq_true',
    decide_eq_true_eq]
  constructor
  · rintro ⟨h1, h2⟩
    refine ⟨fun u hu hv => by rcases h1 u hu with h | h; simp [h] at hv; exact h, ?_, ?_⟩
    · intro v hb; simp [hb] at h2; exact h2.1
    · intro v hb; simp [hb] at h2; exact (below_iff _ _).1 h2.2
  · rintro ⟨h1, h2, h3⟩
    refine ⟨fun u hu => ?_, ?_⟩
    · cases hv : u.isVar
      · exact Or.inl rfl
      · exact Or.inr (h1 u hu hv)
    · cases hb : s.bound with
      | none => rfl
      | some v => simp [h2 v hb, (below_iff _ _).2 (h3 v hb)]

/-- **registry matches the statements**: `variables_of_type(t)` is exactly the list of names bound with
type `t`, in statement order. -/
theorem registry_spec {tc : TC} (h : WF tc) (t : Ty) : tc.variablesOfType t = typedNames t tc.stmts := by
  unfold TC.variablesOfType
  rw [h.reg, rebuild, regGet_foldl]
  simp [regGet]

theorem replaceOKb_iff (tc : TC) (i : Nat) (s : Stmt) : replaceOKb tc i s = true ↔ ReplaceOK tc i s := by
  simp only [replaceOKb, Bool.and_eq_true, List.all_eq_true, Bool.or_eq_true, Bool.not_eq_true',
    decide_eq_true_eq]
  constructor
  · rintro ⟨h1, h2⟩
    refine ⟨fun u hu hv => by rcases h1 u hu with h | h; simp [h] at hv; exact h, ?_⟩
    intro o ho
    simp only [ho, Bool.or_eq_true, decide_eq_true_eq, Bool.and_eq_true] at h2
    rcases h2 with h2 | ⟨h2, h3⟩
    · exact Or.inl h2
    · refine Or.inr ⟨h2, ?_, ?_⟩
      · intro v hb; simp [hb] at h3; exact h3.1
      · intro v hb; simp [hb] at h3; exact (below_iff _ _).1 h3.2
  · rintro ⟨h1, h2⟩
    refine ⟨fun u hu => ?_, ?_⟩
    · cases hv : u.isVar
      · exact Or.inl rfl
      · exact Or.inr (h1 u hu hv)
    · cases ho : tc.stmts[i]? with
      | none => rfl
      | some o =>
        simp only [Bool.or_eq_true, decide_eq_true_eq, Bool.and_eq_true]
        rcases h2 o ho with h | ⟨h, h3, h4⟩
        · exact Or.inl h
        · refine Or.inr ⟨h, ?_⟩
          cases hb : s.bound with
          | none => rfl
          | some v => simp [h3 v hb, (below_iff _ _).2 (h4 v hb)]

/-! ### primitives -/

theorem empty_WF : WF TC.empty := WF_empty

theorem clone_preserves_WF {tc : TC} (h : WF tc) : WF tc.clone := h.clone

/-- `next_var_name()` hands out a name that no statement binds, and keeps the test case well-formed -/
theorem next_var_fresh {tc : TC} (h : WF tc) :
    tc.nextVar.1 ∉ boundNames tc.stmts ∧ WF tc.nextVar.2 := ⟨h.counter_fresh, h.nextVar⟩

/-- contract of the factory for appended statements -/
theorem add_fresh_preserves_WF {tc : TC} (h : WF tc) {s : Stmt} (ok : InsertOK tc tc.stmts.length s) :
    WF (tc.add s) := h.add ok

/-- contract of the factory for inserted statements: reads only names bound before the insertion
point, binds a new name handed out by `next_var_name()` -/
theorem insert_fresh_preserves_WF {tc : TC} (h : WF tc) {i : Nat} {s : Stmt} (ok : InsertOK tc i s) :
    WF (tc.insert i s) := h.insert ok

/-- replacing a statement by one with the same binder (value / call / type change, local search) -/
theorem replace_same_binder_preserves_WF {tc tc' : TC} (h : WF tc) {i : Nat} {s : Stmt}
    (ok : ReplaceOK tc i s) (hr : tc.replace i s = some tc') : WF tc' := h.replace ok hr

/-- `remove_statements_batch` of any index set that is closed under "reads a removed variable" -/
theorem remove_batch_closed_preserves_WF {tc : TC} (h : WF tc) (idxs : List Nat)
    (hc : closedD [] tc.stmts (idxMaskFrom idxs 0 tc.stmts.length)) : WF (tc.removeBatch idxs) :=
  h.maskFilter hc

theorem chop_preserves_WF {tc : TC} (h : WF tc) (position : Int) : WF (tc.chop position) := h.chop position

/-- `chop(position)` keeps exactly statements `0..position` -/
theorem chop_spec (tc : TC) (position : Int) :
    (tc.chop position).stmts = if position < 0 then [] else tc.stmts.take (position.toNat + 1) :=
  chop_stmts tc position

/-- `forward_dependencies` terminates (the fuel of the `while changed` loop is never exhausted) and
raises exactly when the index is out of range -/
theorem forward_deps_total (tc : TC) (index : Nat) :
    (tc.forwardDeps index).isSome = decide (index < tc.size) := by
  unfold TC.forwardDeps TC.size
  by_cases hi : index < tc.stmts.length
  · obtain ⟨m, hm, _⟩ := closureMask_spec false tc.stmts index hi
    simp [hm, hi]
  · simp [closureMask_none false tc.stmts index hi, hi]

theorem remove_fwd_preserves_WF {tc tc' : TC} {removed : List Nat} (h : WF tc) {index : Nat}
    (hr : tc.removeFwd index = some (tc', removed)) : WF tc' := by
  unfold TC.removeFwd at hr
  by_cases hi : index < tc.stmts.length
  · obtain ⟨m, hm, hc⟩ := closureMask_spec false tc.stmts index hi
    simp only [hm, Option.some.injEq, Prod.mk.injEq] at hr
    rw [← hr.1]
    exact h.maskFilter hc
  · simp [closureMask_none false tc.stmts index hi] at hr

theorem remove_fwd_total (tc : TC) (index : Nat) :
    (tc.removeFwd index).isSome = decide (index < tc.size) := by
  unfold TC.removeFwd TC.size
  by_cases hi : index < tc.stmts.length
  · obtain ⟨m, hm, _⟩ := closureMask_spec false tc.stmts index hi
    simp [hm, hi]
  · simp [closureMask_none false tc.stmts index hi, hi]

/-- `delete_statement_gracefully` always terminates ... -/
theorem delete_gracefully_total (tc : TC) (position : Nat) : (tc.deleteGracefully position).isSome = true := by
  unfold TC.deleteGracefully TC.size
  by_cases hi : position < tc.stmts.length
  · obtain ⟨m, hm, _⟩ := closureMask_spec true tc.stmts position hi
    simp [hm, hi]
  · simp [hi]

/-- ... and removes the statement together with every statement that (transitively) reads it -/
theorem delete_gracefully_preserves_WF {tc tc' : TC} {b : Bool} (h : WF tc) {position : Nat}
    (hr : tc.deleteGracefully position = some (tc', b)) : WF tc' := by
  unfold TC.deleteGracefully TC.size at hr
  by_cases hi : position < tc.stmts.length
  · obtain ⟨m, hm, hc⟩ := closureMask_spec true tc.stmts position hi
    simp only [hi, if_true, hm, Option.some.injEq, Prod.mk.injEq] at hr
    rw [← hr.1]
    exact h.maskFilter hc
  · simp only [hi, if_false, Option.some.injEq, Prod.mk.injEq] at hr
    rw [← hr.1]; exact h

theorem remove_unused_preserves_WF {tc : TC} (h : WF tc) : WF tc.removeUnused := h.removeUnused

/-- ... in both versions of the pass: the snapshot's (`keep = false`) and the one with C19's repair, where
variables read by a statement's assertions stay alive and the unbound statement keeps its assertions -/
theorem remove_unused_v_preserves_WF {tc : TC} (h : WF tc) (keep : Bool) : WF (tc.removeUnusedV keep) :=
  h.removeUnusedV keep

/-- crossover building block: fresh names for the appended tail, references into the other parent's
head remapped to variables of this test case, statements whose references cannot be satisfied are
dropped together with their readers — never a dangling read, whatever `randomness.choice` returns -/
theorem append_from_preserves_WF {tc other : TC} (h : WF tc) (ho : WF other) (start : Nat)
    (draws : List Nat) : WF (tc.appendFrom other.stmts start draws) :=
  h.appendFrom ho.reads ho.nodup
    (fun v hv => by obtain ⟨k, e, _⟩ := ho.fresh v hv; rw [e]; rfl) start draws

/-! ### composites -/

theorem splice_preserves_WF {parent other : TC} (hp : WF parent) (ho : WF other) (chromLen p1 p2 : Nat)
    (draws : List Nat) : WF (splice chromLen parent other p1 p2 draws).1 := by
  unfold splice
  simp only
  apply append_from_preserves_WF _ ho
  split
  · rw [removeBatch_pyRange]; exact hp.clone.take _
  · exact hp.clone

theorem splice_result_preserves_WF {parent other : TC} (hp : WF parent) (ho : WF other)
    (chromLen p1 p2 : Nat) (draws : List Nat) : WF (spliceResult chromLen parent other p1 p2 draws) := by
  unfold spliceResult
  simp only
  split
  · exact splice_preserves_WF hp ho chromLen p1 p2 draws
  · exact hp

/-- crossover never produces a test case of `chromosome_length` or more statements: the parent is
either replaced by a strictly shorter offspring or left alone -/
theorem crossover_length (chromLen : Nat) (parent other : TC) (p1 p2 : Nat) (draws : List Nat) :
    (spliceResult chromLen parent other p1 p2 draws).size < chromLen ∨
      spliceResult chromLen parent other p1 p2 draws = parent := by
  unfold spliceResult
  simp only
  split
  · rename_i h
    left
    simpa [splice] using h
  · exact Or.inr rfl

theorem mutate_chop_preserves_WF {tc : TC} (h : WF tc) (chopMax : Bool) (chromLen : Nat)
    (last : Option Nat) : WF (mutateChop chopMax chromLen last tc) := by
  unfold mutateChop
  split
  · cases last with
    | none => exact h
    | some p => simp only; rw [removeBatch_pyRange]; exact h.take _
  · exact h

/-- insertion mutation: an insertion that would push the test case beyond `chromosome_length` is undone -/
theorem insert_guard_length (chromLen : Nat) (before after : TC) (hb : before.size ≤ chromLen) :
    (insertGuard chromLen before after).size ≤ chromLen := by
  unfold insertGuard
  split
  · exact hb
  · omega

theorem insert_guard_preserves_WF {before after : TC} (hb : WF before) (ha : WF after) (chromLen : Nat) :
    WF (insertGuard chromLen before after) := by
  unfold insertGuard
  split
  · exact hb
  · exact ha

/-! ### histories -/

/-- Test cases reachable by any history of the modelled operations over a population: factory
insertions / replacements obey their contract, everything else is unconstrained (any index, any
position, any random draw, any other reachable test case as crossover partner). -/
inductive Reach : TC → Prop
  | empty : Reach TC.empty
  | nextVar {tc} : Reach tc → Reach tc.nextVar.2
  | clone {tc} : Reach tc → Reach tc.clone
  | add {tc s} : Reach tc → InsertOK tc tc.stmts.length s → Reach (tc.add s)
  | insert {tc i s} : Reach tc → InsertOK tc i s → Reach (tc.insert i s)
  | replace {tc tc' i s} : Reach tc → ReplaceOK tc i s → tc.replace i s = some tc' → Reach tc'
  | chop {tc} (p : Int) : Reach tc → Reach (tc.chop p)
  | removeBatch {tc} (idxs : List Nat) :
      Reach tc → closedD [] tc.stmts (idxMaskFrom idxs 0 tc.stmts.length) → Reach (tc.removeBatch idxs)
  | removeFwd {tc tc' i r} : Reach tc → tc.removeFwd i = some (tc', r) → Reach tc'
  | deleteGracefully {tc tc' p b} : Reach tc → tc.deleteGracefully p = some (tc', b) → Reach tc'
  | removeUnused {tc} (keep : Bool) : Reach tc → Reach (tc.removeUnusedV keep)
  | appendFrom {tc other} (start : Nat) (draws : List Nat) :
      Reach tc → Reach other → Reach (tc.appendFrom other.stmts start draws)
  | crossover {parent other} (chromLen p1 p2 : Nat) (draws : List Nat) :
      Reach parent → Reach other → Reach (spliceResult chromLen parent other p1 p2 draws)
  | mutateChop {tc} (chopMax : Bool) (chromLen : Nat) (last : Option Nat) :
      Reach tc → Reach (mutateChop chopMax chromLen last tc)
  | insertGuard {before after} (chromLen : Nat) :
      Reach before → Reach after → Reach (insertGuard chromLen before after)

/-- **C15**: after any history of insertion, deletion, value/call/type change, crossover, local-search
replacement, chopping and unused-variable removal, every test case is well-formed. -/
theorem histories_WF {tc : TC} (h : Reach tc) : WF tc := by
  induction h with
  | empty => exact WF_empty
  | nextVar _ ih => exact ih.nextVar
  | clone _ ih => exact ih.clone
  | add _ ok ih => exact ih.add ok
  | insert _ ok ih => exact ih.insert ok
  | replace _ ok hr ih => exact ih.replace ok hr
  | chop p _ ih => exact ih.chop p
  | removeBatch idxs _ hc ih => exact ih.maskFilter hc
  | removeFwd _ hr ih => exact remove_fwd_preserves_WF ih hr
  | deleteGracefully _ hr ih => exact delete_gracefully_preserves_WF ih hr
  | removeUnused keep _ ih => exact ih.removeUnusedV keep
  | appendFrom start draws _ _ ih1 ih2 => exact append_from_preserves_WF ih1 ih2 start draws
  | crossover chromLen p1 p2 draws _ _ ih1 ih2 => exact splice_result_preserves_WF ih1 ih2 chromLen p1 p2 draws
  | mutateChop cm cl last _ ih => exact mutate_chop_preserves_WF ih cm cl last
  | insertGuard cl _ _ ih1 ih2 => exact insert_guard_preserves_WF ih1 ih2 cl

/-! ### non-vacuity: concrete instances of the hypotheses, and D21 -/

/-- `var_0 = 5` -/
def exS0 : Stmt := ⟨some (.var 0), some 0, [], [], true⟩
/-- `var_1 = mod.Point(x = var_0)` -/
def exS1 : Stmt := ⟨some (.var 1), some 1, [.ext "mod", .ext "Point", .ext "x", .var 0], [], true⟩
/-- `var_2 = var_1.name()` -/
def exS2 : Stmt := ⟨some (.var 2), some 2, [.var 1, .ext "name"], [.var 2], true⟩
/-- a well-formed three-statement test case -/
def exTC : TC := ((TC.empty.nextVar.2.add exS0).nextVar.2.add exS1).nextVar.2.add exS2

example : WF exTC := (wfB_iff _).1 (by decide)
example : InsertOK (TC.empty.nextVar.2.add exS0).nextVar.2 1 exS1 := (insertOKb_iff _ _ _).1 (by decide)
example : ReplaceOK exTC 1 { exS1 with btype := some 7 } := (replaceOKb_iff _ _ _).1 (by decide)
/-- deleting `var_0 = 5` gracefully removes all three statements; the forward closure of statement 1 is {1,2} -/
example : (exTC.deleteGracefully 0).map (fun r => r.1.size) = some 0 := by decide
example : exTC.forwardDeps 1 = some [1, 2] := by decide
/-- `remove_unused_variables` unbinds the unread `var_2` (and drops its assertion — C19's concern) -/
example : (exTC.removeUnused.stmts.map (fun s => (s.bound, s.asserts))) =
    [(some (.var 0), []), (some (.var 1), []), (none, [])] := by decide
/-- with C19's repair the asserted `var_2` stays bound (its own assertion reads it) -/
example : ((exTC.removeUnusedV true).stmts.map (fun s => (s.bound, s.asserts))) =
    [(some (.var 0), []), (some (.var 1), []), (some (.var 2), [.var 2])] := by decide
/-- crossover of `exTC` with itself at (1, 2): the tail statement reads `var_1` of the other parent's head,
no `Point`-typed variable exists in the offspring head, so the statement is dropped, not left dangling -/
example : (splice 10 exTC exTC 1 2 []).1.stmts = [exS0] := by decide
/-- ... and at (2, 2) the reference is remapped to the offspring's own `var_1` and a fresh name is used -/
example : ((splice 10 exTC exTC 2 2 [0]).1.stmts.map (fun s => (s.bound, s.uses))) =
    [(some (.var 0), []), (some (.var 1), [.ext "mod", .ext "Point", .ext "x", .var 0]),
     (some (.var 3), [.var 1, .ext "name"])] := by decide

/-- D21 (unrepaired `_mutation_insert`): the loop guard `size < chromosome_length` is checked before an
insertion that brings its dependency statements along, so contract-abiding insertions from a test case
below the limit end above it; `insertGuard` (the repair) undoes exactly that. -/
theorem insert_unguarded_cex :
    ∃ (before after : TC), before.size < 2 ∧ WF before ∧ WF after ∧
      after = (before.nextVar.2.insert 1 exS1).nextVar.2.insert 2 exS2 ∧
      InsertOK before.nextVar.2 1 exS1 ∧ InsertOK (before.nextVar.2.insert 1 exS1).nextVar.2 2 exS2 ∧
      after.size > 2 ∧ (insertGuard 2 before after).size ≤ 2 := by
  refine ⟨TC.empty.nextVar.2.add exS0, _, by decide, (wfB_iff _).1 (by decide), (wfB_iff _).1 (by decide), rfl,
    (insertOKb_iff _ _ _).1 (by decide), (insertOKb_iff _ _ _).1 (by decide), by decide, by decide⟩

end PynguinModel.TestCase
