import PynguinModel.Lemmas.BranchInstr
import PynguinModel.Generated.C03Jumps
import PynguinModel.Props.C04
/-!
# C03 — Reported branch outcomes equal the branches actually taken

Property theorems only (model: `Model/BranchInstr.lean`, lemmas: `Lemmas/BranchInstr.lean`).

* `label_agrees`, `dispatch_total` — generated obligations, `decide`d on the table that the
  translator regenerates from the live version module on every run
  (`Generated/C03Jumps.lean`): for every conditional jump the CFG edge the interpreter follows
  carries exactly the outcome the inserted tracer call reports, and the opcodes the CFG treats as
  conditional jumps are exactly those for which `visit_node` registers a predicate
  (= `COND_BRANCH_NAMES` = the opcodes with a branch type).  `label_agrees_meaning` spells the
  Boolean check out as a statement for all facts.
* `placed_before_compare`, `placed_before_exception_match`, `placed_before_jump` — the placement
  lemma in full (D24 repaired): the snippet is inserted at the raw-block position of the comparison /
  `CHECK_EXC_MATCH` / jump, whatever pseudo-instructions or earlier snippets the block holds, so the
  values it copies are the operands of that instruction.
* `every_cond_registered`, `pool_has_both_outcomes`, `pool_branchless_iff` — for every list of
  blocks, every duplicate-free visiting order and every table in which `END_FOR` is no conditional
  jump: after the transformer loop the registry holds exactly one predicate for every visited node
  whose block ends in a conditional jump (and none for other nodes), ids are consecutive, the pool
  holds both outcomes of every predicate exactly once, and a branch-less goal exists iff the code
  object has no predicate.
* `reported_iff_taken`, `entry_reported_iff_entered` — over every execution history whose recorded
  distances satisfy C04: `BranchGoal.is_covered` holds for `(p, v)` iff some evaluation of `p` took
  outcome `v`; `BranchlessCodeObjectGoal.is_covered` iff the code object was entered.
  `c04_compare_record_good` / `c04_bool_record_good` discharge the hypothesis from C04's theorems.
* `isclose_default_iff_zero` (+ `isclose_abs_tol_cex`) — the closeness test of `BranchGoal.is_covered`
  is `distance == 0` (and would not be with an absolute tolerance).
* `tracer_enabled_after_callbacks`, `reported_iff_taken_with_raises` (+ `no_restore_loses_cex`) — the
  callbacks with the tracer's `enabled` flag: evaluations that raise inside a callback leave the tracer
  enabled, so reported ⇔ taken also holds for everything the program does after catching the exception.
-/
namespace PynguinModel.BranchInstr
open PynguinModel.Distances (CmpOp Num)
open Generated

set_option linter.unusedSimpArgs false

/-! ## Generated obligations (live tables) -/

/-- For every conditional jump of the running Python version: the successor labelled `True` is the
one CPython transfers to exactly when the value reported to the tracer is truthy / the comparison
holds / the value `is (not) None` / the iterator yielded. -/
theorem label_agrees : labelAgrees liveTable = true := by decide

/-- The CFG's conditional jumps = the opcodes `visit_node` registers a predicate for
= `COND_BRANCH_NAMES` = the opcodes with a branch type; opcodes are listed once; `END_FOR` is none
of them. -/
theorem dispatch_total :
    dispatchTotal liveTable = true ∧ noDupOpcodes liveTable = true
      ∧ liveTable.registers liveTable.endFor = false := by decide

/-- What `labelAgrees` says, for an arbitrary table. -/
theorem label_agrees_meaning (t : Table) (h : labelAgrees t = true) (o : OpInfo) (ho : o ∈ t.ops)
    (hc : o.versionCond = true) :
    ∃ sem bt, jumpSem o.name = some sem ∧ o.branchType = some bt ∧
      ∀ f : Bool, reportedOutcome t o sem f = some (labelTaken bt (jumps sem f)) := by
  have hr : rowAgrees t o = true := (List.all_eq_true.mp h) o ho
  unfold rowAgrees at hr
  simp only [hc, Bool.not_true, Bool.false_or] at hr
  cases hs : jumpSem o.name with
  | none => simp [hs] at hr
  | some sem =>
    cases hb : o.branchType with
    | none => simp [hs, hb] at hr
    | some bt =>
      simp only [hs, hb, List.all_cons, List.all_nil, Bool.and_true, Bool.and_eq_true,
        beq_iff_eq] at hr
      refine ⟨sem, bt, rfl, rfl, fun f => ?_⟩
      cases f
      · exact hr.2
      · exact hr.1

/-- With a consistent table, `visit_node` registers for an opcode iff the CFG treats it as a
conditional jump. -/
theorem registers_iff_versionCond (t : Table) (h : dispatchTotal t = true) (opc : Nat) (o : OpInfo)
    (ho : t.info opc = some o) : t.registers opc = o.versionCond := by
  have hmem : o ∈ t.ops := List.mem_of_find?_eq_some ho
  have hop : o.opcode = opc := by
    have := List.find?_some ho
    simpa using this
  have hr := (List.all_eq_true.mp h) o hmem
  simp only [Bool.and_eq_true, beq_iff_eq] at hr
  simp only [Table.registers, Table.noneCmp, Table.bytecodeCond, ho]
  rw [hr.1.1, hop]

/-! ## Placement (D24 repaired) -/

/-- **Compare-based predicates.**  Whatever the block holds, the snippet lands at the raw-block
position of the comparison, which is the second-to-last original instruction; directly behind the
snippet sits that comparison, so `SECOND`/`FIRST` are its two operands, and the reported operator is
the comparison's. -/
theorem placed_before_compare (t : Table) (b : Blk) (idx : Nat) (op : CmpOp)
    (h : decideAction t b = .act (.cmpPred idx op)) (s : Snip) :
    ∃ c, secondLastOrig b.entries = some (idx, c) ∧ t.compareNames.contains c.opc = true ∧
      extractComparison t c = some op ∧
      (insertAt b.entries idx (.art s))[idx]? = some (.art s) ∧
      (insertAt b.entries idx (.art s))[idx + 1]? = some (.orig c) := by
  unfold decideAction at h
  split at h
  · rename_i j hl
    split at h
    · cases h
    · split at h
      · cases h
      · split at h
        · cases h
        · split at h
          · cases h
          · split at h
            · rename_i idx' c hs
              split at h
              · rename_i hcn
                split at h
                · rename_i op' he
                  cases h
                  have hg := secondLastOrig_get hs
                  have hlen : idx ≤ b.entries.length := by
                    rcases Nat.lt_or_ge idx b.entries.length with h1 | h1
                    · exact Nat.le_of_lt h1
                    · simp [List.getElem?_eq_none h1] at hg
                  exact ⟨c, hs, hcn, he, insertAt_get_self _ _ _ hlen,
                    by rw [insertAt_get_succ _ _ _ hlen]; exact hg⟩
                · cases h
              · split at h <;> cases h
            · cases h
  · cases h

/-- **Exception-match predicates**: the snippet sits directly before `CHECK_EXC_MATCH`. -/
theorem placed_before_exception_match (t : Table) (b : Blk) (idx : Nat)
    (h : decideAction t b = .act (.excPred idx)) (s : Snip) :
    ∃ c, secondLastOrig b.entries = some (idx, c) ∧ c.opc = t.checkExcMatch ∧
      (insertAt b.entries idx (.art s))[idx]? = some (.art s) ∧
      (insertAt b.entries idx (.art s))[idx + 1]? = some (.orig c) := by
  unfold decideAction at h
  split at h
  · rename_i j hl
    split at h
    · cases h
    · split at h
      · cases h
      · split at h
        · cases h
        · split at h
          · cases h
          · split at h
            · rename_i idx' c hs
              split at h
              · split at h <;> cases h
              · split at h
                · rename_i hce
                  cases h
                  have hg := secondLastOrig_get hs
                  have hlen : idx ≤ b.entries.length := by
                    rcases Nat.lt_or_ge idx b.entries.length with h1 | h1
                    · exact Nat.le_of_lt h1
                    · simp [List.getElem?_eq_none h1] at hg
                  exact ⟨c, hs, by simpa using hce, insertAt_get_self _ _ _ hlen,
                    by rw [insertAt_get_succ _ _ _ hlen]; exact hg⟩
                · cases h
            · cases h
  · cases h

/-- The jump is the last raw entry of its block (construction of `bytecode.ControlFlowGraph`:
a new block starts behind every conditional jump; checked by the driver on every exported block). -/
def JumpIsLast (b : Blk) : Prop := b.entries.getLast? = lastInstr b.entries

/-- **Bool- and None-based predicates** (`before(JUMP_OP_POS)`): the snippet sits directly before
the conditional jump, so `FIRST` is the value the jump pops. -/
theorem placed_before_jump (t : Table) (b : Blk) (a : Action)
    (h : decideAction t b = .act a) (_ha : a = .boolPred ∨ ∃ op, a = .nonePred op)
    (hw : JumpIsLast b) (s : Snip) :
    ∃ j, lastInstr b.entries = some (.orig j) ∧ t.registers j.opc = true ∧
      (insertAt b.entries (b.entries.length - 1) (.art s))[b.entries.length - 1]? = some (.art s) ∧
      (insertAt b.entries (b.entries.length - 1) (.art s))[b.entries.length - 1 + 1]? = some (.orig j) := by
  have hp : isPredBlock t b = true := by
    cases hq : isPredBlock t b with
    | true => rfl
    | false => rw [(decideAction_skip_iff t b).mpr hq] at h; cases h
  unfold isPredBlock isPredEntries at hp
  cases hl : lastInstr b.entries with
  | none => simp [hl] at hp
  | some e =>
    cases e with
    | pseudo x => simp [hl] at hp
    | art s' => simp [hl] at hp
    | orig j =>
      simp only [hl, Bool.and_eq_true] at hp
      unfold JumpIsLast at hw
      rw [hl, List.getLast?_eq_getElem?] at hw
      have hlen : b.entries.length - 1 ≤ b.entries.length := Nat.sub_le _ _
      exact ⟨j, rfl, hp.2, insertAt_get_self _ _ _ hlen,
        by rw [insertAt_get_succ _ _ _ hlen]; exact hw⟩

/-! ## Registration -/

/-- **Every conditional jump and for-loop is registered exactly once**: for any blocks, any
duplicate-free visiting order (the iteration order of the node *set*), predicate ids `0, 1, …` are
given, in visiting order, to exactly the visited nodes whose (original) block is a predicate block
— its last instruction is an original instruction for which the dispatch registers, i.e. (by
`dispatch_total`, `registers_iff_versionCond`) a conditional jump or `FOR_ITER` — and to no other
node; in particular no node gets two predicates and the duplicate-node assertion of
`register_predicate` never fires. -/
theorem every_cond_registered (t : Table) (hE : t.registers t.endFor = false)
    (blocks : List Blk) (coid : Nat) (order : List Nat) (hnd : order.Nodup) (st : St)
    (h : instrument t blocks coid order = some st) :
    st.preds = order.filter (fun n => predAt t blocks n == some true) ∧ st.preds.Nodup := by
  unfold instrument at h
  have := visitAll_spec t hE order _ st hnd (by simp) h
  simp only [List.nil_append] at this
  have hc : order.filter (fun n => predAt t (visitCfg blocks coid) n == some true)
      = order.filter (fun n => predAt t blocks n == some true) := by
    apply List.filter_congr
    intro n _
    rw [predAt_visitCfg]
  rw [hc] at this
  exact ⟨this, this ▸ hnd.filter _⟩

/-- A node has a predicate iff it was visited and ends in a registering jump. -/
theorem predicate_iff (t : Table) (hE : t.registers t.endFor = false)
    (blocks : List Blk) (coid : Nat) (order : List Nat) (hnd : order.Nodup) (st : St)
    (h : instrument t blocks coid order = some st) (n : Nat) :
    n ∈ st.preds ↔ n ∈ order ∧ ∃ b, blocks[n]? = some b ∧ isPredBlock t b = true := by
  rw [(every_cond_registered t hE blocks coid order hnd st h).1, List.mem_filter]
  constructor
  · rintro ⟨h1, h2⟩
    refine ⟨h1, ?_⟩
    simp only [predAt, beq_iff_eq] at h2
    cases hb : blocks[n]? with
    | none => simp [hb] at h2
    | some b => exact ⟨b, rfl, by simpa [hb] using h2⟩
  · rintro ⟨h1, b, hb, hp⟩
    exact ⟨h1, by simp [predAt, hb, hp]⟩

/-- The goal pool holds both outcomes of every registered predicate, each exactly once, and
nothing else. -/
theorem pool_has_both_outcomes (coid : Nat) (preds : List Nat) (pid : Nat) (v : Bool) :
    ((pid, v) ∈ (mkPool coid preds).branch ↔ pid < preds.length) ∧ (mkPool coid preds).branch.Nodup := by
  constructor
  · simp only [mkPool, List.mem_flatMap, List.mem_range, List.mem_cons, Prod.mk.injEq,
      List.not_mem_nil, or_false]
    constructor
    · rintro ⟨a, ha, h | h⟩ <;> (rw [h.1]; exact ha)
    · intro h
      refine ⟨pid, h, ?_⟩
      cases v <;> simp
  · simp only [mkPool, List.Nodup, List.pairwise_flatMap]
    refine ⟨fun a _ => by simp, ?_⟩
    have hr : List.Pairwise (· ≠ ·) (List.range preds.length) := List.nodup_range
    refine hr.imp ?_
    intro a b hab x hx y hy
    simp only [List.mem_cons, List.not_mem_nil, or_false] at hx hy
    rcases hx with rfl | rfl <;> rcases hy with rfl | rfl <;> simp [hab]

/-- A code object contributes a branch-less goal iff it has no predicate. -/
theorem pool_branchless_iff (coid : Nat) (preds : List Nat) :
    ((mkPool coid preds).branchless = [coid] ↔ preds = []) ∧
    ((mkPool coid preds).branchless = [] ↔ preds ≠ []) := by
  cases preds <;> simp [mkPool]

/-! ## Reported iff taken -/

/-- **`BranchGoal.is_covered` ⇔ the outcome was taken at least once**, for every execution
history (any interleaving of code-object entries and predicate evaluations) whose recorded distances
satisfy C04; never a `KeyError`. -/
theorem reported_iff_taken (hist : List Obs) (hg : ∀ o ∈ hist, o.good) (p : Nat) (v : Bool) :
    branchCovered (Trace.empty.run (hist.map Obs.ev)) p v = some (hist.any (took p v)) := by
  have inv := TInv.run hist TInv.empty hg
  simp only [List.nil_append] at inv
  unfold branchCovered
  rw [inv.exec p]
  cases hs : hist.any (evald p) with
  | false => simp [any_took_false hs]
  | true =>
    simp only [if_true]
    cases v with
    | true =>
      obtain ⟨x, hx1, _, hx3⟩ := (inv.dT p).2 hs
      simp [hx1, iscloseZero_eq, hx3]
    | false =>
      obtain ⟨x, hx1, _, hx3⟩ := (inv.dF p).2 hs
      simp [hx1, iscloseZero_eq, hx3]

/-- **`BranchlessCodeObjectGoal.is_covered` ⇔ the code object was entered.** -/
theorem entry_reported_iff_entered (hist : List Obs) (hg : ∀ o ∈ hist, o.good) (c : Nat) :
    codeObjectCovered (Trace.empty.run (hist.map Obs.ev)) c = hist.any (enteredP c) := by
  have inv := TInv.run hist TInv.empty hg
  simp only [List.nil_append] at inv
  exact inv.cos c

/-- **`math.isclose(d, 0.0, rel_tol, abs_tol=0.0)` is `d == 0.0`** for every relative tolerance below 1
(the default is 1e-9) and every distance, finite or not: the closeness test in `BranchGoal.is_covered`
reports exactly the distances that are zero. -/
theorem isclose_default_iff_zero (rel : Rat) (h0 : 0 ≤ rel) (h1 : rel < 1) (x : Num) :
    isclose rel 0 x = x.eqZero := isclose_zero_iff rel h0 h1 x

/-- … and this needs `abs_tol = 0`: with any positive absolute tolerance there is an acceptable
distance of an outcome that was *not* taken (it is not zero) which the test reports as covered. -/
theorem isclose_abs_tol_cex (rel absTol : Rat) (h : 0 < absTol) :
    NonNeg (.fin absTol) ∧ (Num.fin absTol).eqZero = false ∧ isclose rel absTol (.fin absTol) = true := by
  have h1 : ¬ absTol < 0 := by grind
  have h2 : absTol ≠ 0 := by grind
  refine ⟨⟨?_, rfl⟩, ?_, ?_⟩
  · simp only [Num.geZero, Num.le, Num.lt, Num.eq, Bool.or_eq_true, decide_eq_true_eq]
    exact Or.inl h
  · simp [Num.eqZero, Num.eq, h2]
  · simp [isclose, h1]

/-- **The tracer is enabled again after every callback**, whatever the callbacks did: evaluations that
raise inside the callback (`1 < "a"`, `x in 5`, a raising `__eq__`), nested callbacks made by operator
code of the module under test.  So no later callback is dropped by `_early_return`. -/
theorem tracer_enabled_after_callbacks (cs : List Call) (tr : Trace) (s' : TState)
    (h : TState.calls true ⟨true, tr⟩ cs = some s') : s'.enabled = true := by
  rw [calls_enabled_eq_run cs tr s' h]

/-- **Reported ⇔ taken, over histories in which evaluations raise.**  For every history of code-object
entries, predicate evaluations (with the outcome the interpreter takes) and predicate evaluations that
raise (the interpreter takes no outcome; the module under test may catch the exception and go on), with
arbitrary nested callbacks arriving while the tracer evaluates the operands: the callbacks are all
accepted, the tracer ends enabled, `BranchGoal.is_covered(p, v)` ⇔ some evaluation of `p` took `v`, and
`BranchlessCodeObjectGoal.is_covered(c)` ⇔ `c` was entered — nothing after a raising evaluation is lost. -/
theorem reported_iff_taken_with_raises (hist : List CObs) (hw : ∀ o ∈ hist, o.wf)
    (hg : ∀ o ∈ hist.filterMap CObs.obs, o.good) :
    ∃ s', TState.calls true TState.init (hist.map CObs.call) = some s' ∧ s'.enabled = true ∧
      (∀ p v, branchCovered s'.trace p v = some ((hist.filterMap CObs.obs).any (took p v))) ∧
      (∀ c, codeObjectCovered s'.trace c = (hist.filterMap CObs.obs).any (enteredP c)) := by
  obtain ⟨s', hs⟩ := calls_cobs_total hist Trace.empty hw
  refine ⟨s', hs, tracer_enabled_after_callbacks _ _ _ hs, ?_, ?_⟩
  · intro p v
    rw [calls_enabled_eq_run _ _ _ hs, cobs_top]
    exact reported_iff_taken _ hg p v
  · intro c
    rw [calls_enabled_eq_run _ _ _ hs, cobs_top]
    exact entry_reported_iff_entered _ hg c

/-- Why the restore must happen in a `finally`: with a bare `disable()` … `enable()` pair around the
evaluation (`restore = false`), after predicate 0's comparison raised the tracer stays disabled: the
callback for the next evaluation of predicate 1 (the interpreter takes an outcome of it) can only be
dropped (`skipped`; a record with distances is impossible), and `is_covered(1, ·)` is `False`. -/
theorem no_restore_loses_cex :
    (TState.calls false TState.init [.pred 0 [] .raised, .pred 1 [] .skipped]).map
      (fun s => (s.enabled, branchCovered s.trace 1 true, branchCovered s.trace 1 false))
      = some (false, some false, some false) ∧
    (TState.calls false TState.init [.pred 0 [] .raised, .pred 1 [] (.ok (.fin 0) (.fin 1))]).isNone = true ∧
    (TState.calls true TState.init [.pred 0 [] .raised, .pred 1 [] .skipped]).isNone = true := by
  decide +kernel

/-- C04 discharges the hypothesis of `reported_iff_taken` for compare predicates: whatever the
operands, a recorded evaluation is good for the outcome of the comparison Python performs. -/
theorem c04_compare_record_good (rd : Distances.Rounding) (op : CmpOp) (same : Bool)
    (v1 v2 : Distances.PyVal) (b : Bool) (dT dF : Num)
    (hpy : Distances.pyOperator op same v1 v2 = .ok b)
    (hrec : Distances.executedComparePredicate .repaired rd op same v1 v2 = .ok (dT, dF)) :
    GoodRec b dT dF := by
  obtain ⟨x, y, hxy, h1, h2, h3, h4, h5, h6⟩ := (Distances.C04_full rd op same v1 v2).1 b hpy
  rw [hrec] at hxy
  cases hxy
  exact ⟨⟨h1, h3⟩, ⟨h2, h4⟩, h5, h6⟩

/-- … and for truthiness predicates. -/
theorem c04_bool_record_good (rd : Distances.Rounding) (v : Distances.PyVal) (dT dF : Num)
    (hrec : Distances.executedBoolPredicate .repaired rd v = .ok (dT, dF)) :
    GoodRec (Distances.truthy v) dT dF := by
  obtain ⟨x, y, hxy, h1, h2, h3, h4, h5, h6⟩ := (Distances.C04_bool rd v).1 _ rfl
  rw [hrec] at hxy
  cases hxy
  exact ⟨⟨h1, h3⟩, ⟨h2, h4⟩, h5, h6⟩

/-! ## Non-vacuity -/

/-- D24's block: a `TryEnd` pseudo-instruction, then `LOAD_FAST x; LOAD_FAST y; COMPARE_OP >;
POP_JUMP_IF_FALSE`. -/
def d24Block : Blk :=
  { entries := [.pseudo none, .orig ⟨124, 0⟩, .orig ⟨124, 0⟩, .orig ⟨107, 4⟩, .orig ⟨114, 0⟩],
    next := some 1, target := some 2, cover := true }

example : decideAction liveTable d24Block = .act (.cmpPred 3 .gt) := by decide

example : JumpIsLast d24Block := by unfold JumpIsLast; decide

/-- A for-loop whose body is a compare-based `if`: three blocks, visited in the order 2, 0, 1. -/
def loopBlocks : List Blk :=
  [ { entries := [.orig ⟨93, 0⟩], next := some 1, target := some 2, cover := true },
    { entries := [.orig ⟨124, 0⟩, .orig ⟨124, 0⟩, .orig ⟨107, 0⟩, .orig ⟨114, 0⟩],
      next := some 0, target := some 0, cover := true },
    { entries := [.orig ⟨4, 0⟩, .orig ⟨121, 0⟩], next := none, target := none, cover := true } ]

example : (instrument liveTable loopBlocks 7 [2, 0, 1]).map (·.preds) = some [0, 1] := by decide

example : (instrument liveTable loopBlocks 7 [2, 0, 1]).map (fun s => s.blocks.map (·.entries)) = some
    [ [.art (.codeObject 7), .orig ⟨93, 0⟩],
      [.art (.forPred true 0), .orig ⟨124, 0⟩, .orig ⟨124, 0⟩, .art (.cmpPred 1 .lt), .orig ⟨107, 0⟩,
       .orig ⟨114, 0⟩],
      [.orig ⟨4, 0⟩, .art (.forPred false 0), .orig ⟨121, 0⟩] ] := by decide

/-- A history satisfying the hypotheses: predicate 0 evaluated false then true. -/
example : branchCovered (Trace.empty.run
    [.enter 0, .pred 0 (.fin 1) (.fin 0), .pred 0 (.fin 0) (.fin 3)]) 0 true = some true := by
  decide +kernel

/-- … and the hypothesis of `reported_iff_taken` is satisfiable: such a history is good. -/
example : ∀ o ∈ [Obs.enter 0, .eval ⟨0, false, .fin 1, .fin 0⟩, .eval ⟨0, true, .fin 0, .fin 1⟩], o.good := by
  intro o ho
  simp only [List.mem_cons, List.not_mem_nil, or_false] at ho
  rcases ho with rfl | rfl | rfl
  · trivial
  · exact ⟨⟨by decide, by decide⟩, ⟨by decide, by decide⟩, by decide, by decide⟩
  · exact ⟨⟨by decide, by decide⟩, ⟨by decide, by decide⟩, by decide, by decide⟩

/-- A history with a raising comparison satisfying the hypotheses of `reported_iff_taken_with_raises`:
`try: if 1 < "a": … except TypeError: …` then `if r > 1:` taken true, with a dropped nested callback. -/
def raisingHist : List CObs :=
  [.enter 0, .raised 0 [.enter 3, .pred 7 [] .skipped], .eval ⟨1, true, .fin 0, .fin 1⟩ []]

example : (∀ o ∈ raisingHist, o.wf) ∧ (∀ o ∈ raisingHist.filterMap CObs.obs, o.good) := by
  refine ⟨?_, ?_⟩
  · intro o ho
    simp only [raisingHist, List.mem_cons, List.not_mem_nil, or_false] at ho
    rcases ho with rfl | rfl | rfl <;> simp [CObs.wf, Call.isSkip]
  · intro o ho
    simp only [raisingHist, List.filterMap_cons, CObs.obs, List.filterMap_nil, List.mem_cons,
      List.not_mem_nil, or_false] at ho
    rcases ho with rfl | rfl
    · trivial
    · exact ⟨⟨by decide, by decide⟩, ⟨by decide, by decide⟩, by decide, by decide⟩

example : (TState.calls true TState.init (raisingHist.map CObs.call)).map
    (fun s => (s.enabled, branchCovered s.trace 1 true, branchCovered s.trace 0 true,
      codeObjectCovered s.trace 3)) = some (true, some true, some false, false) := by
  decide +kernel

/-- `math.isclose(5.6e-17, 0.0)` is `False`, with `abs_tol=1e-9` it would be `True`. -/
example : iscloseZero (.fin (mkRat 1 18014398509481984)) = false ∧
    isclose defaultRelTol (mkRat 1 1000000000) (.fin (mkRat 1 18014398509481984)) = true := by
  decide +kernel

end PynguinModel.BranchInstr
