import PynguinModel.Lemmas.ClusterFilter
import PynguinModel.Generated.C27Visibility
/-!
# C27 — the test cluster holds exactly the module's eligible callables

Property theorems about `Model/ClusterFilter.lean` instantiated with the predicates that the translator
re-emits from the live `pynguin/analyses/module.py` (`Generated/C27Visibility.lean`):

* `is_private_spec`, `is_protected_spec`, `is_name_mangled_spec`, `eligible_spec`: the regenerated
  predicates decide exactly the naming convention (`Lemmas`: `Dunder`, `PrivateName`, `NonPublicName`,
  `MangledShape`), for every name.
* `skip_monotone`, `visibility_monotone`: PUBLIC ⊆ PROTECTED ⊆ ALL.
* `nothing_foreign`, `ignored_excluded`, `under_test_not_skipped`, `C27_sound`: whatever is under test is
  defined in the module under test, occurs in the project, has an eligible name and is not ignored —
  for every project (`Env`), configuration and traversal depth.
* `method_defined_in_own_class`: a method under test is defined in (resolved by object identity to) the class
  of the module under test it is listed under — inherited members of same-named foreign bases are not.
* `C27_complete`: every eligible, non-ignored function / constructor / method of the namespace of the
  module under test is under test.

The theorems describe the code WITH the three proposed repairs (lambda name, method blacklist, mangling
pattern); the `_cex` theorems at the end show what the unrepaired shapes do on concrete witnesses.
-/
set_option linter.unusedSimpArgs false
namespace PynguinModel.ClusterFilter
open Generated

theorem is_private_spec (n : Name) : is_private n = true ↔ PrivateName n := by
  simp [is_private, PrivateName, startsWith_iff, endsWith_false_iff]

theorem is_protected_spec (n : Name) : is_protected n = true ↔ (['_'] <+: n ∧ ¬ ['_', '_'] <+: n) := by
  simp [is_protected, startsWith_iff, startsWith_false_iff]

theorem is_name_mangled_spec (n : Name) : is_name_mangled n = true ↔ MangledShape n := by
  simp only [is_name_mangled, NAME_MANGLED_PATTERN, fullmatch, Bool.and_eq_true, Bool.not_eq_eq_eq_not,
    Bool.not_true, matchItems_one, matchItems_star, matchItems_plus, matchItems_nil, CClass.test,
    MangledShape, Letter, Word, beq_iff_eq, List.all_eq_true, endsWith_iff]
  constructor
  · rintro ⟨⟨x, t, rfl, rfl, c, t2, rfl, hc, cls, suf, rfl, hcls, u1, t3, rfl, rfl, u2, t4, rfl, rfl, a, pre, suf2, rfl, ha, hpre, rfl⟩, hend⟩
    refine ⟨c, cls, a, pre, by simp, hc, hcls, ha, hpre, ?_⟩
    intro h; rw [← endsWith_iff] at h; simp_all
  · rintro ⟨c, cls, a, attr, rfl, hc, hcls, ha, hattr, hend⟩
    refine ⟨⟨'_', _, rfl, rfl, c, _, rfl, hc, cls, _, rfl, hcls, '_', _, rfl, rfl, '_', _, rfl, rfl, a, attr, [], by simp, ha, hattr, rfl⟩, ?_⟩
    cases h : endsWith ('_' :: c :: (cls ++ '_' :: '_' :: a :: attr)) ['_', '_'] with
    | false => rfl
    | true => exact absurd ((endsWith_iff _ _).mp h) hend
/-- **eligible_spec** — `__should_skip_by_visibility` (as regenerated from the source) skips exactly the
names the naming convention excludes: outside the module under test and under PUBLIC every name with a
leading underscore that is not a dunder name; under PROTECTED the private names `__x` and their mangled
forms `_Cls__x`; under ALL nothing. -/
theorem eligible_spec (vis : Vis) (n : Name) (addToTest : Bool) :
    should_skip_by_visibility vis n addToTest = true ↔
      (if addToTest = false then NonPublicName n
       else match vis with
         | .PUBLIC => NonPublicName n
         | .PROTECTED => PrivateName n ∨ MangledShape n
         | .ALL => False) := by
  cases addToTest <;> cases vis <;>
    simp [should_skip_by_visibility, is_private_spec, is_protected_spec, is_name_mangled_spec, nonpublic_iff]

/-- skip decisions are monotone in the visibility: ALL ⊆ PROTECTED ⊆ PUBLIC (as sets of skipped names) -/
theorem skip_monotone (n : Name) :
    (should_skip_by_visibility .ALL n true = true → should_skip_by_visibility .PROTECTED n true = true) ∧
    (should_skip_by_visibility .PROTECTED n true = true → should_skip_by_visibility .PUBLIC n true = true) := by
  simp only [eligible_spec, nonpublic_iff]
  refine ⟨by simp, ?_⟩
  rintro (h | h)
  · exact Or.inl h
  · exact Or.inr (mangled_protected h)

/-! ## the cluster -/
section cluster
variable (P : Preds) (cfg : Cfg) (env : Env) (root : Name) (fuel : Nat)

/-- **nothing_foreign** — whatever is marked as under test was defined in the module under test (its
`__module__`, resp. the `__module__` of its class, is the root module) and is a member of the inspected
project. For every project, configuration and predicate table. -/
theorem nothing_foreign {accs : List Acc} (h : underTest P cfg env root fuel = some accs) :
    ∀ a ∈ accs, a.module = root ∧ a.InEnv env := by
  intro a ha
  obtain ⟨vs, v, hvs, hv, hav⟩ := mem_underTest P cfg env root fuel h ha
  have hok := visits_ok P cfg env root fuel vs hvs v hv
  cases v with
  | cls c att =>
    obtain ⟨hatt, hc⟩ := hok
    simp only [analyseVisit, mem_analyseClass] at hav
    obtain ⟨-, (⟨-, h2, rfl⟩ | ⟨m, hm, hmm⟩)⟩ := hav
    · have : c.module = root := by subst hatt; simpa using h2
      split <;> exact ⟨this, hc⟩
    · rw [mem_analyseMethod] at hmm
      obtain ⟨-, -, -, -, -, -, h2, rfl⟩ := hmm
      have : c.module = root := by subst hatt; simpa using h2
      exact ⟨this, hc, hm⟩
  | fn f att =>
    obtain ⟨hatt, -, hmd⟩ := hok
    simp only [analyseVisit, mem_analyseFunction] at hav
    obtain ⟨vn, cn, -, -, -, -, h2, rfl⟩ := hav
    have : f.module = root := by subst hatt; simpa using h2
    exact ⟨this, hmd⟩

/-- **method_defined_in_own_class** — a method under test is *defined in* a class of the module under test:
the class object that `get_class_that_defined_method` resolves for it (`Meth.definer`, an object identity) is
the very class it is listed under, and that class was defined in the module under test. In particular a method
a class of the module under test merely inherits from a class of another module — even from a base class with
the same name (`class Handler(base.Handler)`) — is never under test. -/
theorem method_defined_in_own_class {accs : List Acc} (h : underTest P cfg env root fuel = some accs) :
    ∀ c m, Acc.meth c m ∈ accs → m.definer = some c.id ∧ c.module = root ∧ m ∈ c.methods := by
  intro c m ha
  have hf := nothing_foreign P cfg env root fuel h _ ha
  obtain ⟨vs, v, hvs, hv, hav⟩ := mem_underTest P cfg env root fuel h ha
  cases v with
  | cls c' att =>
    simp only [analyseVisit, mem_analyseClass] at hav
    obtain ⟨-, (⟨-, -, h3⟩ | ⟨m', hm', hmm⟩)⟩ := hav
    · split at h3 <;> cases h3
    · rw [mem_analyseMethod] at hmm
      obtain ⟨-, -, -, hd, -, -, -, heq⟩ := hmm
      cases heq
      refine ⟨by simpa [Meth.definedIn] using hd, hf.1, hm'⟩
  | fn f att =>
    simp only [analyseVisit, mem_analyseFunction] at hav
    obtain ⟨vn, cn, -, -, -, -, -, h3⟩ := hav
    cases h3

/-- **ignored_excluded** — nothing that the configuration (or the built-in blacklists) ignores is under
test: the module of every accessible under test is not ignored, and the qualified name of every function /
method under test is neither in `ignore_methods` nor in `METHOD_BLACKLIST`. -/
theorem ignored_excluded {accs : List Acc} (h : underTest P cfg env root fuel = some accs) :
    ∀ a ∈ accs, a.module ∉ cfg.ignoreModules ∧ a.module ∉ P.moduleBlacklist ∧
      ∀ q, a.qualified = some q → q ∉ cfg.ignoreMethods ∧ q ∉ P.methodBlacklist := by
  intro a ha
  have hroot := (nothing_foreign P cfg env root fuel h a ha).1
  obtain ⟨vs, v, hvs, hv, hav⟩ := mem_underTest P cfg env root fuel h ha
  have hnb : moduleBlacklisted P cfg root = false := by
    cases hb : moduleBlacklisted P cfg root with
    | false => rfl
    | true =>
      have := visits_root_blacklisted P cfg env root fuel vs hb hvs
      subst this; simp at hv
  have hmod : a.module ∉ cfg.ignoreModules ∧ a.module ∉ P.moduleBlacklist := by
    rw [hroot]; simp [moduleBlacklisted] at hnb; exact ⟨hnb.2, hnb.1⟩
  refine ⟨hmod.1, hmod.2, ?_⟩
  have hok := visits_ok P cfg env root fuel vs hvs v hv
  cases v with
  | cls c att =>
    simp only [analyseVisit, mem_analyseClass] at hav
    obtain ⟨-, (⟨-, -, rfl⟩ | ⟨m, hm, hmm⟩)⟩ := hav
    · intro q hq; split at hq <;> simp [Acc.qualified] at hq
    · rw [mem_analyseMethod] at hmm
      obtain ⟨-, -, -, -, hl, -, -, rfl⟩ := hmm
      intro q hq
      simp only [Acc.qualified, Option.some.injEq] at hq; subst hq
      simp [methodListed] at hl; exact ⟨hl.2, hl.1⟩
  | fn f att =>
    obtain ⟨-, hfb, -⟩ := hok
    simp only [analyseVisit, mem_analyseFunction] at hav
    obtain ⟨vn, cn, -, -, -, -, -, rfl⟩ := hav
    intro q hq
    simp only [Acc.qualified, Option.some.injEq] at hq; subst hq
    simp [funcBlacklisted, methodListed] at hfb; exact ⟨hfb.2.2, hfb.2.1⟩

/-- every function / method under test has a name that the visibility rule does not skip, is synchronous,
and (methods) is defined in its class and is neither `__init__` nor `__annotate_func__` -/
theorem under_test_not_skipped {accs : List Acc} (h : underTest P cfg env root fuel = some accs) :
    ∀ a ∈ accs, ∀ vn, a.visibleName = some vn → P.shouldSkip cfg.visibility vn true = false := by
  intro a ha
  obtain ⟨vs, v, hvs, hv, hav⟩ := mem_underTest P cfg env root fuel h ha
  cases v with
  | cls c att =>
    simp only [analyseVisit, mem_analyseClass] at hav
    obtain ⟨-, (⟨-, -, rfl⟩ | ⟨m, hm, hmm⟩)⟩ := hav
    · intro vn hq; split at hq <;> simp [Acc.visibleName] at hq
    · rw [mem_analyseMethod] at hmm
      obtain ⟨-, hs, -, -, -, -, h2, rfl⟩ := hmm
      intro vn hq
      simp only [Acc.visibleName, Option.some.injEq] at hq; subst hq; subst h2; exact hs
  | fn f att =>
    simp only [analyseVisit, mem_analyseFunction] at hav
    obtain ⟨vn', cn, hvn, -, hs, -, h2, rfl⟩ := hav
    intro vn hq
    simp only [Acc.visibleName] at hq; rw [hvn] at hq
    simp only [Option.some.injEq] at hq; subst hq; subst h2; exact hs
end cluster

/-- **visibility_monotone** — for the same project and ignore lists, what is under test with PUBLIC is under
test with PROTECTED, and what is under test with PROTECTED is under test with ALL. -/
theorem visibility_monotone (env : Env) (root : Name) (fuel : Nat) (ignM ignF : List Name)
    {pub prot all : List Acc}
    (h1 : underTest preds ⟨.PUBLIC, ignM, ignF⟩ env root fuel = some pub)
    (h2 : underTest preds ⟨.PROTECTED, ignM, ignF⟩ env root fuel = some prot)
    (h3 : underTest preds ⟨.ALL, ignM, ignF⟩ env root fuel = some all) :
    (∀ a ∈ pub, a ∈ prot) ∧ (∀ a ∈ prot, a ∈ all) := by
  have key : ∀ (v1 v2 : Vis) (l1 l2 : List Acc),
      (∀ n, preds.shouldSkip v2 n true = true → preds.shouldSkip v1 n true = true) →
      underTest preds ⟨v1, ignM, ignF⟩ env root fuel = some l1 →
      underTest preds ⟨v2, ignM, ignF⟩ env root fuel = some l2 → ∀ a ∈ l1, a ∈ l2 := by
    intro v1 v2 l1 l2 hskip e1 e2 a ha
    obtain ⟨vs, v, hvs, hv, hav⟩ := mem_underTest _ _ _ _ _ e1 ha
    rw [visits_congr preds env root ⟨v1, ignM, ignF⟩ ⟨v2, ignM, ignF⟩ rfl rfl] at hvs
    simp only [underTest, hvs, Option.map_some, Option.some.injEq] at e2
    subst e2
    exact List.mem_flatMap.mpr ⟨v, hv, analyseVisit_mono preds ⟨v1, ignM, ignF⟩ ⟨v2, ignM, ignF⟩ rfl hskip v a hav⟩
  exact ⟨key .PUBLIC .PROTECTED pub prot (fun n => (skip_monotone n).2) h1 h2,
         key .PROTECTED .ALL prot all (fun n => (skip_monotone n).1) h2 h3⟩

section complete
variable (P : Preds) (cfg : Cfg) (env : Env) (root : Name) (fuel : Nat)

/-- **C27_complete** — if the module under test is not ignored, its namespace is analysed completely:
every function of `vars(module)` that is defined in the module, not blacklisted, synchronous, named and
not skipped by the visibility rule is under test; for every class of `vars(module)` defined in the module
(except an enum without members) the constructor / enum is under test unless the class is abstract, and so
is every method `inspect.getmembers` lists that is defined in the class, is not `__init__` /
`__annotate_func__`, not ignored, synchronous and not skipped by the visibility rule. -/
theorem C27_complete {accs : List Acc} (h : underTest P cfg env root fuel = some accs)
    (hroot : moduleBlacklisted P cfg root = false) :
    ∃ md, env.findModule root = some md ∧
      (∀ f ∈ md.funcs, f.module = root → funcBlacklisted P cfg f = false → f.isCoroutine = false →
        ∀ vn cn, f.visibleName = some vn → f.clusterName = some cn →
          P.shouldSkip cfg.visibility vn true = false → Acc.func f cn ∈ accs) ∧
      (∀ id ∈ md.classes, ∀ c, env.findClass id = some c → c.module = root →
        (c.isEnum && c.enumNames == 0) = false →
          (c.isAbstract = false → (if c.isEnum then Acc.enum c else Acc.ctor c) ∈ accs) ∧
          (∀ m ∈ c.methods, P.isAnnotate m.name = false → P.isConstructor m.name = false →
            m.definedIn c = true → methodListed P cfg m.qualified = false → m.isCoroutine = false →
            P.shouldSkip cfg.visibility (lastSegment m.name) true = false → Acc.meth c m ∈ accs)) := by
  unfold underTest at h
  cases hv : visits P cfg env root fuel with
  | none => simp [hv] at h
  | some vs =>
    simp [hv] at h; subst h
    obtain ⟨md, hmd, hcls, hfn⟩ := visits_complete P cfg env root fuel vs hv hroot
    refine ⟨md, hmd, ?_, ?_⟩
    · intro f hf hm hb hco vn cn hvn hcn hs
      refine List.mem_flatMap.mpr ⟨_, hfn f hf hb, ?_⟩
      simp only [analyseVisit, mem_analyseFunction]
      exact ⟨vn, cn, hvn, hcn, by simpa [hm] using hs, hco, by simp [hm], rfl⟩
    · intro id hid c hc hm he
      have hvis := hcls id hid c hc (by simpa [classBlacklisted, hm] using hroot)
      constructor
      · intro hab
        refine List.mem_flatMap.mpr ⟨_, hvis, ?_⟩
        simp only [analyseVisit, mem_analyseClass]
        exact ⟨he, Or.inl ⟨hab, by simp [hm], trivial⟩⟩
      · intro m hmem a1 a3 a4 a5 a6 a2
        refine List.mem_flatMap.mpr ⟨_, hvis, ?_⟩
        simp only [analyseVisit, mem_analyseClass]
        refine ⟨he, Or.inr ⟨m, hmem, ?_⟩⟩
        rw [mem_analyseMethod]
        exact ⟨a1, by simpa [hm] using a2, a3, a4, a5, a6, by simp [hm], rfl⟩
end complete


/-- **C27_sound** — the property's "only" direction in its own words, for the regenerated predicates:
every accessible under test belongs to the inspected project, was defined in the module under test, is not
ignored by `ignore_modules` / `ignore_methods`, and the name the visibility applies to is eligible:
under PUBLIC no leading underscore unless it is a dunder name, under PROTECTED neither private (`__x`) nor
a mangled private name (`_Cls__x`). -/
theorem C27_sound (cfg : Cfg) (env : Env) (root : Name) (fuel : Nat) {accs : List Acc}
    (h : underTest preds cfg env root fuel = some accs) :
    ∀ a ∈ accs, a.InEnv env ∧ a.module = root ∧ a.module ∉ cfg.ignoreModules ∧
      (∀ q, a.qualified = some q → q ∉ cfg.ignoreMethods) ∧
      (∀ vn, a.visibleName = some vn →
        match cfg.visibility with
        | .PUBLIC => ¬ NonPublicName vn
        | .PROTECTED => ¬ PrivateName vn ∧ ¬ MangledShape vn
        | .ALL => True) := by
  intro a ha
  have h1 := nothing_foreign preds cfg env root fuel h a ha
  have h2 := ignored_excluded preds cfg env root fuel h a ha
  have h3 := under_test_not_skipped preds cfg env root fuel h a ha
  refine ⟨h1.2, h1.1, h2.1, fun q hq => (h2.2.2 q hq).1, ?_⟩
  intro vn hvn
  have hs : should_skip_by_visibility cfg.visibility vn true = false := h3 vn hvn
  have hspec := eligible_spec cfg.visibility vn true
  rw [hs] at hspec
  cases hv : cfg.visibility <;> simp [hv] at hspec ⊢ <;> exact hspec

/-! ## non-vacuity and sensitivity (concrete instances, `decide`) -/
section examples
/-- module under test `r`: `f`, `_g`, `__h`, a lambda bound to `_lam`, an imported `dep.k`, a class `My_C`
with `m`, `_p`, `_My_C__q` (= `__q`), an ignored method `ign`, an inherited method; `dep` has class `B`. -/
private def exEnv : Env :=
  { classes :=
      [{ id := 0, module := ['r'], qualname := ['M', 'y', '_', 'C'], isAbstract := false, isEnum := false, enumNames := 0,
         methods := [⟨['m'], ['r', '.', 'M', 'y', '_', 'C', '.', 'm'], some 0, false⟩,
                     ⟨['_', 'p'], ['r', '.', 'M', 'y', '_', 'C', '.', '_', 'p'], some 0, false⟩,
                     ⟨['_', 'M', 'y', '_', 'C', '_', '_', 'q'], ['r', '.', 'M', 'y', '_', 'C', '.', '_', '_', 'q'], some 0, false⟩,
                     ⟨['i', 'g', 'n'], ['r', '.', 'M', 'y', '_', 'C', '.', 'i', 'g', 'n'], some 0, false⟩,
                     ⟨['b', 'm'], ['d', '.', 'B', '.', 'b', 'm'], some 1, false⟩,
                     ⟨['_', '_', 'i', 'n', 'i', 't', '_', '_'], ['r', '.', 'M', 'y', '_', 'C', '.', '_', '_', 'i', 'n', 'i', 't', '_', '_'], some 0, false⟩],
         bases := [1] },
       { id := 1, module := ['d'], qualname := ['B'], isAbstract := false, isEnum := false, enumNames := 0,
         methods := [⟨['b', 'm'], ['d', '.', 'B', '.', 'b', 'm'], some 1, false⟩], bases := [] }],
    modules :=
      [{ name := ['r'], classes := [0, 1],
         funcs := [⟨0, ['r'], ['f'], false, false, none⟩, ⟨1, ['r'], ['_', 'g'], false, false, none⟩,
                   ⟨2, ['r'], ['_', '_', 'h'], false, false, none⟩,
                   ⟨3, ['r'], ['<', 'l', 'a', 'm', 'b', 'd', 'a', '>'], false, true, some ['_', 'l', 'a', 'm']⟩,
                   ⟨4, ['d'], ['k'], false, false, none⟩],
         submodules := [['d']] },
       { name := ['d'], classes := [1], funcs := [⟨4, ['d'], ['k'], false, false, none⟩], submodules := [] }] }

private def exCfg (v : Vis) : Cfg :=
  { visibility := v, ignoreModules := [], ignoreMethods := [['r', '.', 'M', 'y', '_', 'C', '.', 'i', 'g', 'n']] }

private def names (o : Option (List Acc)) : Option (List (List Char)) :=
  o.map (fun l => l.map (fun a => match a with
    | .func _ n => n | .ctor c => c.qualname | .enum c => c.qualname | .meth _ m => m.name))

/-- PUBLIC: the constructor, `m`, `f` — not the protected / private members, not the ignored method, not the
inherited or imported members, not the lambda bound to a protected name. -/
example : names (underTest preds (exCfg .PUBLIC) exEnv ['r'] 10)
    = some [['M', 'y', '_', 'C'], ['m'], ['f']] := by decide +kernel
/-- PROTECTED adds `_p`, `_g`, `_lam` — not the mangled `_My_C__q` (class name with an underscore). -/
example : names (underTest preds (exCfg .PROTECTED) exEnv ['r'] 10)
    = some [['M', 'y', '_', 'C'], ['m'], ['_', 'p'], ['f'], ['_', 'g'], ['_', 'l', 'a', 'm']] := by decide +kernel
/-- ALL adds the private ones. -/
example : names (underTest preds (exCfg .ALL) exEnv ['r'] 10)
    = some [['M', 'y', '_', 'C'], ['m'], ['_', 'p'], ['_', 'M', 'y', '_', 'C', '_', '_', 'q'], ['f'], ['_', 'g'],
            ['_', '_', 'h'], ['_', 'l', 'a', 'm']] := by decide +kernel
/-- a class of the module under test named like its foreign base (`class B(d.B)` in `r`): the inherited `bm`
is resolved to the class object `d.B` (id 1), not to `r.B` (id 2), and is not under test — only the constructor
and the method written in `r` are. -/
private def exSameName : Env :=
  { classes :=
      [{ id := 1, module := ['d'], qualname := ['B'], isAbstract := false, isEnum := false, enumNames := 0,
         methods := [⟨['b', 'm'], ['d', '.', 'B', '.', 'b', 'm'], some 1, false⟩], bases := [] },
       { id := 2, module := ['r'], qualname := ['B'], isAbstract := false, isEnum := false, enumNames := 0,
         methods := [⟨['b', 'm'], ['d', '.', 'B', '.', 'b', 'm'], some 1, false⟩,
                     ⟨['o', 'w', 'n'], ['r', '.', 'B', '.', 'o', 'w', 'n'], some 2, false⟩], bases := [1] }],
    modules :=
      [{ name := ['r'], classes := [2], funcs := [], submodules := [['d']] },
       { name := ['d'], classes := [1], funcs := [], submodules := [] }] }
example : names (underTest preds (exCfg .ALL) exSameName ['r'] 10) = some [['B'], ['o', 'w', 'n']] := by decide +kernel
/-- the hypotheses of `C27_complete` hold on this instance -/
example : moduleBlacklisted preds (exCfg .PUBLIC) ['r'] = false := by decide +kernel
/-- an ignored module under test: nothing is under test -/
example : underTest preds { visibility := .ALL, ignoreModules := [['r']], ignoreMethods := [] } exEnv ['r'] 10 = some [] := by
  decide +kernel
/-- the shapes of the specification are inhabited -/
example : MangledShape ['_', 'A', '_', '_', 'x'] :=
  (is_name_mangled_spec _).mp (by decide +kernel)
example : PrivateName ['_', '_', 'x'] := (is_private_spec _).mp (by decide +kernel)
example : Dunder ['_', '_', 'e', 'q', '_', '_'] := ⟨⟨['e', 'q', '_', '_'], rfl⟩, ⟨['_', '_', 'e', 'q'], rfl⟩⟩
example : ¬ NonPublicName ['_', '_', 'e', 'q', '_', '_'] :=
  fun h => h.2 ⟨⟨['e', 'q', '_', '_'], rfl⟩, ⟨['_', '_', 'e', 'q'], rfl⟩⟩
end examples

/-! ## what the unrepaired code does (witnesses of the three findings; replayed by the harness) -/

/-- the pattern before the repair: no underscore inside the class part -/
def oldMangledPattern : List RItem :=
  [.one (.lit '_'), .one (.ranges [('A', 'Z'), ('a', 'z')]), .star (.ranges [('A', 'Z'), ('a', 'z'), ('0', '9')]),
   .one (.lit '_'), .one (.lit '_'), .plus (.word)]

/-- finding 1: `My_Class.__secret` is mangled to `_My_Class__secret`; the old pattern does not recognise it
(so PROTECTED does not skip it), the repaired one does. -/
theorem old_pattern_misses_underscore_class_cex :
    fullmatch oldMangledPattern ['_', 'M', 'y', '_', 'C', 'l', 'a', 's', 's', '_', '_', 's', 'e', 'c', 'r', 'e', 't'] = false ∧
    is_name_mangled ['_', 'M', 'y', '_', 'C', 'l', 'a', 's', 's', '_', '_', 's', 'e', 'c', 'r', 'e', 't'] = true := by decide +kernel

/-- finding 2: applying the visibility rule to a lambda's `__qualname__` never skips anything -/
theorem lambda_qualname_never_skipped_cex (vis : Vis) (addToTest : Bool) :
    should_skip_by_visibility vis ['<', 'l', 'a', 'm', 'b', 'd', 'a', '>'] addToTest = false := by
  cases vis <;> cases addToTest <;> decide +kernel

end PynguinModel.ClusterFilter
