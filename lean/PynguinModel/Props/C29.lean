import PynguinModel.Lemmas.FsIsolationRun
import PynguinModel.Lemmas.FsIsolationPath
import PynguinModel.Lemmas.FsCwd
/-!
# C29 — Filesystem isolation never modifies or deletes pre-existing paths

Property theorems about `Model/FsIsolation.lean`, the model of `FilesystemIsolation` **with
`proposed_fixes/C29-record-only-new-paths.diff` applied**, and about `Model/FsCwd.lean` (working directory,
relative names, consecutive isolations of one process) **with `proposed_fixes/C29-abspath-cache-respects-cwd.diff`
applied**.  They hold for every initial tree in which
every ancestor of an existing path exists (`PrefixClosed`, true of any real directory tree) and for every
sequence of operations, whatever their arguments and outcomes (refused, failed or successful).
-/

namespace PynguinModel.FsIsolation

/-- The full property: after enter – arbitrary operations – exit, the tree is exactly the initial tree. -/
def C29_full : Prop :=
  ∀ (init : FS) (ops : List Op), PrefixClosed init → ∀ r, get (isolatedRun init ops) r = get init r

theorem C29_isolation_restores_tree : C29_full := by
  intro init ops hpc r
  exact exit_restores hpc (run_inv hpc ops _ (Inv.start init)) r

/-- every path that existed before the execution exists afterwards with unchanged content -/
theorem C29_preexisting_unchanged (init : FS) (ops : List Op) (hpc : PrefixClosed init) (r : Path) (n : Node)
    (h : get init r = some n) : get (isolatedRun init ops) r = some n :=
  (C29_isolation_restores_tree init ops hpc r).trans h

/-- every path created during the execution is gone afterwards -/
theorem C29_created_gone (init : FS) (ops : List Op) (hpc : PrefixClosed init) (r : Path)
    (h : get init r = none) : get (isolatedRun init ops) r = none :=
  (C29_isolation_restores_tree init ops hpc r).trans h

/-- already DURING the execution no pre-existing path is modified, and nothing pre-existing is ever recorded -/
theorem C29_preexisting_untouched_during (init : FS) (ops : List Op) (hpc : PrefixClosed init) :
    (∀ r, get init r ≠ none → get (run ops ⟨init, []⟩).fs r = get init r) ∧
    (∀ c ∈ (run ops ⟨init, []⟩).created, get init c = none) :=
  let h := run_inv hpc ops _ (Inv.start init)
  ⟨h.kept, h.fresh⟩

/-- every path that exists during the execution and did not exist before is at or below a recorded path -/
theorem C29_new_paths_recorded (init : FS) (ops : List Op) (hpc : PrefixClosed init) (r : Path)
    (h : get (run ops ⟨init, []⟩).fs r ≠ none) (hnew : get init r = none) :
    covered (run ops ⟨init, []⟩).created r = true :=
  ((run_inv hpc ops _ (Inv.start init)).cov r h).resolve_left (fun h' => h' hnew)

/-- the exit cleanup removes exactly the recorded subtrees (independent of the order of deletion) -/
theorem C29_exit_removes_recorded (s : St) (r : Path) :
    get (exitCleanup s) r = if covered s.created r = true then none else get s.fs r :=
  get_exitCleanup s r

/-- a write to a pre-existing, non-isolated path is refused, by every open-like wrapper -/
theorem C29_write_to_preexisting_refused (init : FS) (ops : List Op) (hpc : PrefixClosed init) (p : Path)
    (h : get init p ≠ none) (inner : St → St × Res) :
    trackedOpen true p inner (run ops ⟨init, []⟩) = (run ops ⟨init, []⟩, .refused) := by
  have hinv := run_inv hpc ops _ (Inv.start init)
  have ho : owns (run ops ⟨init, []⟩) p = false := by
    cases hb : owns (run ops ⟨init, []⟩) p with
    | false => rfl
    | true => exact absurd (hinv.owns_fresh hpc hb) h
  simp [trackedOpen, ho]

/-! ## containment is by path components, not by characters

`_is_isolated` works on path STRINGS (`Model/FsPathStr.lean`: `render`, `dirnameC`, `isolatedWalk`).  On real
file names its ancestor walk decides exactly the component-wise containment the invariant is stated with, so a
pre-existing sibling whose NAME merely extends a created name (`report` / `report.bak`, `out` / `output`) is
never isolated.  Character-wise containment (`commonprefix`, `startswith` without the separator) is not. -/

/-- the string walk of `_is_isolated` answers "some recorded path is a component-wise prefix" -/
theorem C29_walk_is_component_containment (cr : List Path) (r : Path)
    (hcr : ∀ c ∈ cr, CleanPath c) (hr : CleanPath r) :
    isIsolatedStr cr r = true ↔ ∃ c ∈ cr, ∃ t, r = c ++ t := by
  rw [isIsolatedStr_eq_covered hcr hr, covered_iff_prefix]

/-- whatever has been created so far, the string walk of `_is_isolated` never declares a pre-existing path
isolated — in particular not a sibling whose name has a created name as a character prefix -/
theorem C29_preexisting_never_isolated (init : FS) (ops : List Op) (hpc : PrefixClosed init)
    (hcl : ∀ c ∈ (run ops ⟨init, []⟩).created, CleanPath c) (r : Path) (hr : CleanPath r)
    (h : get init r ≠ none) : isIsolatedStr (run ops ⟨init, []⟩).created r = false := by
  rw [isIsolatedStr_eq_covered hcl hr]
  cases hc : covered (run ops ⟨init, []⟩).created r with
  | false => rfl
  | true => exact absurd ((run_inv hpc ops _ (Inv.start init)).covered_fresh hpc hc) h

/-- character-wise containment accepts everything the component-wise one accepts … -/
theorem C29_char_containment_weaker (cr : List Path) (r : Path) (h : covered cr r = true) :
    charCovered (cr.map render) (render r) = true :=
  charCovered_of_covered h

/-- … and more: after `open("report", "w")` the pre-existing sibling `report.bak` counts as isolated
character-wise, the open wrapper deciding that way lets `open("report.bak", "w")` through, the file is
overwritten and the exit deletes it; the real wrapper refuses. -/
theorem C29_char_prefix_containment_cex :
    let init : FS := [([], .dir), (["report.bak"], .file [1])]
    let s1 := (builtinOpen ["report"] .w [2] ⟨init, []⟩).1
    let wr := liftRaw (fun fs => rawOpen (modeSpec .w) fs ["report.bak"] [3])
    let bad := (charTrackedOpen true ["report.bak"] wr s1).1
    s1.created = [["report"]] ∧
    covered s1.created ["report.bak"] = false ∧ isIsolatedStr s1.created ["report.bak"] = false ∧
    charCovered (s1.created.map render) (render ["report.bak"]) = true ∧
    (trackedOpen true ["report.bak"] wr s1).2 = .refused ∧
    get bad.fs ["report.bak"] = some (.file [3]) ∧ get (exitCleanup bad) ["report.bak"] = none := by
  refine ⟨by decide, by decide, by decide, by decide, by decide, by decide, ?_⟩
  rw [get_exitCleanup]
  decide

/-- the same one level down: a created directory `out` does not isolate what lies in the pre-existing `output` -/
example : covered [["out"]] ["output", "keep.txt"] = false ∧ isIsolatedStr [["out"]] ["output", "keep.txt"] = false ∧
    charCovered ([["out"]].map render) (render ["output", "keep.txt"]) = true ∧
    isIsolatedStr [["out"]] ["out", "put"] = true := by decide

/-! ## spelled arguments (`d/`, `d//x`, `d/./x`, `d/sub/../x`, relative to the working directory) -/

/-- the full property for operations whose arguments are spelled in any way the operating system resolves
like `_abspath` does; an operation spelled otherwise is outside the model (`stepSp`) -/
theorem C29_spelled_run_restores_tree (init : FS) (ops : List SpOp) (hpc : PrefixClosed init) (r : Path) :
    get (exitCleanup (runSp ops ⟨init, []⟩)) r = get init r :=
  exit_restores hpc (runSp_inv hpc ops _ (Inv.start init)) r

/-- a normal form spells itself: `_abspath` leaves it alone and it resolves like itself in every tree -/
theorem C29_normal_form_spells_itself (fs : FS) (p : Path) (h : cleanPathB p = true) :
    normSegs p = p ∧ resolvesLikeNorm fs [] p = true :=
  ⟨normSegs_clean h, resolvesLikeNorm_clean fs [] p h⟩

/-! ## the working directory: `os.chdir`, relative names, consecutive isolations in one process

The code under test may change the working directory and name files relative to it; one process runs one
isolation after the other.  `resolve` (= the repaired `_abspath` = what the operating system does) resolves a
relative spelling against the working directory OF THE CALL, so every operation runs on some pair of paths and
the invariant argument goes through unchanged; every exit hands the initial tree to the next isolation. -/

/-- The full property for a process: every isolation it runs — whatever was executed, `chdir`s included, in
this and in all earlier isolations — leaves exactly the initial tree behind. -/
def C29_process_full : Prop :=
  ∀ (init : FS) (cops : List COp) (cwd : Path), PrefixClosed init →
    ∀ t ∈ exitTrees cops (startC init cwd), ∀ r, get t r = get init r

theorem C29_every_isolation_restores_tree : C29_process_full := by
  intro init cops cwd hpc t ht r
  exact exitTrees_restore hpc cops (startC init cwd) (Inv.start init) t ht r

/-- in particular the last one (a single isolation with `chdir`s when there is no `reenter`) -/
theorem C29_chdir_run_restores_tree (init : FS) (cops : List COp) (cwd : Path) (hpc : PrefixClosed init)
    (r : Path) : get (exitCleanup (runC cops (startC init cwd)).st) r = get init r :=
  C29_every_isolation_restores_tree init cops cwd hpc _ (exitTrees_last cops _) r

/-- already during such a process no pre-existing path is modified and none is ever recorded -/
theorem C29_chdir_preexisting_untouched_during (init : FS) (cops : List COp) (cwd : Path)
    (hpc : PrefixClosed init) :
    (∀ r, get init r ≠ none → get (runC cops (startC init cwd)).st.fs r = get init r) ∧
    (∀ c ∈ (runC cops (startC init cwd)).st.created, get init c = none) :=
  let h := runC_inv hpc cops (startC init cwd) (Inv.start init)
  ⟨h.kept, h.fresh⟩

/-- a successful `chdir` moves the working directory to an existing directory, and from then on a relative
file name denotes the path below THAT directory (not below the directory of an earlier call) -/
theorem C29_relative_name_follows_chdir (s : CSt) (sp : Spell) (h : (stepC (.chdir sp) s).2 = .ok) :
    ∃ d, resolve s.cwd sp = some d ∧ isDir s.st.fs d = true ∧ (stepC (.chdir sp) s).1.cwd = some d ∧
      ∀ segs, cleanPathB segs = true → resolve (stepC (.chdir sp) s).1.cwd ⟨true, segs⟩ = some (d ++ segs) := by
  simp only [stepC] at h ⊢
  cases hr : resolve s.cwd sp with
  | none => simp [hr] at h
  | some d =>
    simp only [hr] at h ⊢
    by_cases hw : walkOk s.st.fs s.cwd sp = true
    · by_cases hd : isDir s.st.fs d = true
      · simp only [hw, hd, Bool.not_true, Bool.false_eq_true, if_false, if_true]
        exact ⟨d, rfl, hd, rfl, fun segs hc => resolve_rel_clean d segs hc⟩
      · simp [hw, hd] at h
    · simp [hw] at h

/-- an absolute name is untouched by the working directory (these strings are the only ones still memoised) -/
theorem C29_absolute_name_ignores_cwd (c1 c2 : Option Path) (segs : List String) :
    resolve c1 ⟨false, segs⟩ = resolve c2 ⟨false, segs⟩ :=
  resolve_abs_cwd c1 c2 segs

/-- the memo of the unrepaired `_abspath` is harmless exactly as long as it is not hit by a stale entry: for
a spelling not used before, or whose memoised resolution is still the current one, the legacy `open` wrapper
is the modelled one -/
theorem C29_legacy_memo_current_agrees (sp : Spell) (m : Mode) (data : List Nat) (s : CSt) (memo : Memo)
    (p : Path) (hr : resolve s.cwd sp = some p) (hm : memoGet memo sp = none ∨ memoGet memo sp = some p) :
    (legacyOpenC sp m data (s, memo)).1.1.st = (builtinOpen p m data s.st).1 ∧
    (legacyOpenC sp m data (s, memo)).2 = (builtinOpen p m data s.st).2 :=
  legacyOpenC_current sp m data s memo p hr hm

/-- the defect of the unrepaired `_normalize_path_cached` (`lru_cache` keyed by the string): `"f"`, first
resolved in `d1`, is still `d1/f` after `chdir("../d2")`, where it denotes `d2/f` -/
theorem C29_stale_abspath_cex :
    let f : Spell := ⟨true, ["f"]⟩
    let memo := (legacyAbspath [] (some ["d1"]) f).2
    (legacyAbspath [] (some ["d1"]) f).1 = some ["d1", "f"] ∧
    (legacyAbspath memo (some ["d2"]) f).1 = some ["d1", "f"] ∧
    resolve (some ["d2"]) f = some ["d2", "f"] := by decide

/-- … which breaks the property across two isolations of one process: isolation 1 runs `chdir("d1");
open("f", "w")` and cleans up; isolation 2 (it starts from the initial tree again) runs `chdir("../d2");
open("f", "w")`: the bookkeeping looks at `d1/f` (absent, hence "new"), the operating system truncates the
PRE-EXISTING `d2/f`, the exit removes nothing: the file stays overwritten.  The repaired code refuses. -/
theorem C29_stale_cache_overwrites_preexisting_cex :
    let init : FS := [([], .dir), (["d1"], .dir), (["d2"], .dir), (["d2", "f"], .file [1])]
    let f : Spell := ⟨true, ["f"]⟩
    let a := legacyOpenC f .w [2] (⟨⟨init, []⟩, some ["d1"]⟩, [])
    let b := legacyOpenC f .w [3] (⟨⟨init, []⟩, some ["d2"]⟩, a.1.2)
    a.2 = .ok ∧ (∀ r, get (exitCleanup a.1.1.st) r = get init r) ∧
    b.2 = .ok ∧ get init ["d2", "f"] = some (.file [1]) ∧
    get (exitCleanup b.1.1.st) ["d2", "f"] = some (.file [3]) ∧
    (stepC (.op (.fopen .builtin [] .w [3]) f f) ⟨⟨init, []⟩, some ["d2"]⟩).2 = .refused := by
  refine ⟨by decide, ?_, by decide, by decide, ?_, by decide⟩
  · intro r
    have hpc : PrefixClosed ([([], .dir), (["d1"], .dir), (["d2"], .dir), (["d2", "f"], .file [1])] : FS) :=
      prefixClosed_of_check (by decide)
    have h := legacyOpenC_current ⟨true, ["f"]⟩ .w [2]
      ⟨⟨[([], .dir), (["d1"], .dir), (["d2"], .dir), (["d2", "f"], .file [1])], []⟩, some ["d1"]⟩ []
      ["d1", "f"] (by decide) (Or.inl rfl)
    rw [h.1]
    exact exit_restores hpc (builtinOpen_pres hpc _ _ _ _ (Inv.start _)) r
  · rw [get_exitCleanup]
    decide

/-- … and inside ONE isolation: `chdir("d1"); open("f", "w"); chdir("../d2"); open("f", "w")` records `d1/f`
twice and leaves the created `d2/f` behind -/
theorem C29_stale_cache_leaves_created_behind_cex :
    let init : FS := [([], .dir), (["d1"], .dir), (["d2"], .dir)]
    let f : Spell := ⟨true, ["f"]⟩
    let a := legacyOpenC f .w [2] (⟨⟨init, []⟩, some ["d1"]⟩, [])
    let b := legacyOpenC f .w [3] (⟨a.1.1.st, some ["d2"]⟩, a.1.2)
    a.2 = .ok ∧ b.2 = .ok ∧ b.1.1.st.created = [["d1", "f"], ["d1", "f"]] ∧
    get init ["d2", "f"] = none ∧ get (exitCleanup b.1.1.st) ["d2", "f"] = some (.file [3]) := by
  refine ⟨by decide, by decide, by decide, by decide, ?_⟩
  rw [get_exitCleanup]
  decide

/-- non-vacuity: a process with `chdir`s and relative names really does something — `f` is created in `d1`,
the same name is refused in `d2` (pre-existing there), `../g` lands in the root -/
example :
    let init : FS := [([], .dir), (["d1"], .dir), (["d2"], .dir), (["d2", "f"], .file [1])]
    let nop : Spell := ⟨false, []⟩
    let cops : List COp :=
      [.chdir ⟨true, ["d1"]⟩, .op (.fopen .builtin [] .w [2]) ⟨true, ["f"]⟩ nop,
       .chdir ⟨true, ["..", "d2"]⟩, .op (.fopen .builtin [] .w [3]) ⟨true, ["f"]⟩ nop,
       .op (.writeText [] [4]) ⟨true, ["..", "g"]⟩ nop, .chdir ⟨false, ["d2", "f"]⟩]
    (runLogC cops (startC init [])).2 = [.ok, .ok, .ok, .refused, .ok, .failed] ∧
    (runLogC cops (startC init [])).1.cwd = some ["d2"] ∧
    (runLogC cops (startC init [])).1.st.created = [["d1", "f"], ["g"], ["g"], ["g"]] := by decide

/-! ## non-vacuity and the defect of the unrepaired wrapper -/

def demoInit : FS := [([], .dir), (["d"], .dir), (["d", "f"], .file [1, 2]), (["g"], .file [])]

def demoOps : List Op :=
  [.fopen .builtin ["d", "f"] .a [3], .makedirs ["d"] true, .mkdir ["x"], .writeText ["x", "y"] [4],
   .rename .osRename ["x"] ["z"], .copy .copy ["d", "f"] ["z"], .writeText ["n"] [5], .move ["n"] ["d"],
   .rmtree ["z"], .rename .osReplace ["d", "n"] ["g"]]

example : PrefixClosed demoInit := prefixClosed_of_check (by decide)

/-- the demo run really does something: the append to the pre-existing `d/f` and the replacement of the
pre-existing `g` are refused, the other operations succeed and leave `d/n` behind, which only the exit removes -/
example : (runLog demoOps ⟨demoInit, []⟩).2 =
    [.refused, .ok, .ok, .ok, .ok, .ok, .ok, .ok, .ok, .refused] ∧
    get (run demoOps ⟨demoInit, []⟩).fs ["d", "n"] = some (.file [5]) ∧
    get (run demoOps ⟨demoInit, []⟩).fs ["d", "f"] = some (.file [1, 2]) := by decide

/-- D12 as it was: the unrepaired `open` wrapper let `open(pre, "a")` modify a pre-existing file and
recorded it, so that the exit deleted it. -/
theorem C29_legacy_open_existing_cex :
    let init : FS := [([], .dir), (["f"], .file [1])]
    let s := (legacyTrackedOpen true ["f"] (liftRaw (fun fs => rawOpen (modeSpec .a) fs ["f"] [2])) ⟨init, []⟩).1
    get init ["f"] = some (.file [1]) ∧ get s.fs ["f"] = some (.file [1, 2]) ∧ get (exitCleanup s) ["f"] = none := by
  refine ⟨by decide, by decide, ?_⟩
  rw [get_exitCleanup]
  decide

/-- spellings: normalisation, resolution through existing directories only, in and out of the model -/
example : normSegs ["d0", "", "sub", "..", ".", "out.txt", ""] = ["d0", "out.txt"] ∧
    resolvesLikeNorm demoInit [] ["d", "..", "g"] = true ∧ resolvesLikeNorm demoInit [] ["g", "..", "d"] = false ∧
    (stepSp ⟨.mkdir ["d", "x"], some ["d", "..", "d", "x"], none⟩ ⟨demoInit, []⟩).2 = .ok ∧
    (stepSp ⟨.mkdir ["x"], some ["nope", "..", "x"], none⟩ ⟨demoInit, []⟩).2 = .unmodelled := by decide

end PynguinModel.FsIsolation
