import PynguinModel.Lemmas.FsIsolationRun
/-!
# C29 — Filesystem isolation never modifies or deletes pre-existing paths

Property theorems about `Model/FsIsolation.lean`, the model of `FilesystemIsolation` **with
`proposed_fixes/C29-record-only-new-paths.diff` applied**.  They hold for every initial tree in which
every ancestor of an existing path exists (`PrefixClosed`, true of any real directory tree) and for every
sequence of operations, whatever their arguments and outcomes (refused, failed or successful).
-/

namespace PynguinModel.FsIsolation

/-- The full property: after enter – arbitrary operations – exit, the tree is exactly the initial tree. -/
def C29_full : Prop :=
  ∀ (init : FS) (ops : List Op), PrefixClosed init → ∀ r, get (isolatedRun init ops) r = get init r

theorem C29_isolation_restores_tree : C29_full := by
  intro init ops hpc r
  exact exit_restores hpc (run_inv hpc ops _ (Inv.start init)) r

/-- every path that existed before the execution exists afterwards with unchanged content -/
theorem C29_preexisting_unchanged (init : FS) (ops : List Op) (hpc : PrefixClosed init) (r : Path) (n : Node)
    (h : get init r = some n) : get (isolatedRun init ops) r = some n :=
  (C29_isolation_restores_tree init ops hpc r).trans h

/-- every path created during the execution is gone afterwards -/
theorem C29_created_gone (init : FS) (ops : List Op) (hpc : PrefixClosed init) (r : Path)
    (h : get init r = none) : get (isolatedRun init ops) r = none :=
  (C29_isolation_restores_tree init ops hpc r).trans h

/-- already DURING the execution no pre-existing path is modified, and nothing pre-existing is ever recorded -/
theorem C29_preexisting_untouched_during (init : FS) (ops : List Op) (hpc : PrefixClosed init) :
    (∀ r, get init r ≠ none → get (run ops ⟨init, []⟩).fs r = get init r) ∧
    (∀ c ∈ (run ops ⟨init, []⟩).created, get init c = none) :=
  let h := run_inv hpc ops _ (Inv.start init)
  ⟨h.kept, h.fresh⟩

/-- every path that exists during the execution and did not exist before is at or below a recorded path -/
theorem C29_new_paths_recorded (init : FS) (ops : List Op) (hpc : PrefixClosed init) (r : Path)
    (h : get (run ops ⟨init, []⟩).fs r ≠ none) (hnew : get init r = none) :
    covered (run ops ⟨init, []⟩).created r = true :=
  ((run_inv hpc ops _ (Inv.start init)).cov r h).resolve_left (fun h' => h' hnew)

/-- the exit cleanup removes exactly the recorded subtrees (independent of the order of deletion) -/
theorem C29_exit_removes_recorded (s : St) (r : Path) :
    get (exitCleanup s) r = if covered s.created r = true then none else get s.fs r :=
  get_exitCleanup s r

/-- a write to a pre-existing, non-isolated path is refused, by every open-like wrapper -/
theorem C29_write_to_preexisting_refused (init : FS) (ops : List Op) (hpc : PrefixClosed init) (p : Path)
    (h : get init p ≠ none) (inner : St → St × Res) :
    trackedOpen true p inner (run ops ⟨init, []⟩) = (run ops ⟨init, []⟩, .refused) := by
  have hinv := run_inv hpc ops _ (Inv.start init)
  have ho : owns (run ops ⟨init, []⟩) p = false := by
    cases hb : owns (run ops ⟨init, []⟩) p with
    | false => rfl
    | true => exact absurd (hinv.owns_fresh hpc hb) h
  simp [trackedOpen, ho]

/-! ## non-vacuity and the defect of the unrepaired wrapper -/

def demoInit : FS := [([], .dir), (["d"], .dir), (["d", "f"], .file [1, 2]), (["g"], .file [])]

def demoOps : List Op :=
  [.fopen .builtin ["d", "f"] .a [3], .makedirs ["d"] true, .mkdir ["x"], .writeText ["x", "y"] [4],
   .rename .osRename ["x"] ["z"], .copy .copy ["d", "f"] ["z"], .writeText ["n"] [5], .move ["n"] ["d"],
   .rmtree ["z"], .rename .osReplace ["d", "n"] ["g"]]

example : PrefixClosed demoInit := prefixClosed_of_check (by decide)

/-- the demo run really does something: the append to the pre-existing `d/f` and the replacement of the
pre-existing `g` are refused, the other operations succeed and leave `d/n` behind, which only the exit removes -/
example : (runLog demoOps ⟨demoInit, []⟩).2 =
    [.refused, .ok, .ok, .ok, .ok, .ok, .ok, .ok, .ok, .refused] ∧
    get (run demoOps ⟨demoInit, []⟩).fs ["d", "n"] = some (.file [5]) ∧
    get (run demoOps ⟨demoInit, []⟩).fs ["d", "f"] = some (.file [1, 2]) := by decide

/-- D12 as it was: the unrepaired `open` wrapper let `open(pre, "a")` modify a pre-existing file and
recorded it, so that the exit deleted it. -/
theorem C29_legacy_open_existing_cex :
    let init : FS := [([], .dir), (["f"], .file [1])]
    let s := (legacyTrackedOpen true ["f"] (liftRaw (fun fs => rawOpen (modeSpec .a) fs ["f"] [2])) ⟨init, []⟩).1
    get init ["f"] = some (.file [1]) ∧ get s.fs ["f"] = some (.file [1, 2]) ∧ get (exitCleanup s) ["f"] = none := by
  refine ⟨by decide, by decide, ?_⟩
  rw [get_exitCleanup]
  decide

end PynguinModel.FsIsolation
