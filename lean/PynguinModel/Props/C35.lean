import PynguinModel.Lemmas.Report
/-!
# C35 — Coverage reports agree with the computed coverage

Property theorems only.  `getCoverageReport traces reg ms n` is the model of
`get_coverage_report(suite, subject_properties, metrics)` for a suite whose tests produced `traces`,
a module whose source has `n` lines, and the metric set `ms` (BRANCH and/or LINE).  All theorems are
about *every* registry, every list of traces and every `n`; they speak about a report that was
actually produced (`= .ok r`; the model raises what the code raises).

* `annotations_sum_to_totals` — per-line annotations sum to the totals, provided every registered
  line number is a line of the source (`LinesInSource`).  `annotations_sum_cex` shows the proviso is
  needed: a registered line whose number is `None` (the instrumentation produces one for generator
  code objects) is counted in the totals and shown on no line.
* `totals_eq_coverage` — the totals (what the Cobertura attributes and the HTML header print) are
  the numbers `compute_branch_coverage` / `compute_line_coverage` compute, for the line part under
  the hypothesis that line numbers are injective over line ids; `totals_eq_coverage_cex_two_files`
  and `…_cex_unregistered` show that the hypotheses are needed, `registerLines_single_file` shows
  that registries filled by `register_line` from one file satisfy the injectivity hypothesis.
* `line_shown_covered_iff`, `xml_line_hit_iff` — a line is shown covered exactly when some test of
  the suite covers a line id registered for that line number.
-/
namespace PynguinModel.Report

/-- Sum of one component of the per-line annotations. -/
def annSum (f : LineAnn → CovEntry) (anns : List LineAnn) : CovEntry :=
  ⟨(anns.map (fun a => (f a).covered)).sum, (anns.map (fun a => (f a).existing)).sum⟩

/-- Every line number the registries mention is one of the `n` lines of the module's source:
predicates, first lines of branch-less code objects, registered lines. -/
def LinesInSource (reg : Registry) (n : Nat) : Prop :=
  (∀ p ∈ reg.predicates, InRange p.2.lineNo 0 n) ∧
  (∀ c ∈ reg.branchLess, InRange (some c.2) 0 n) ∧
  (∀ e ∈ reg.lines, InRange e.2.lineNo 0 n)

/-- The three registries (code objects, predicates, lines) are dicts: ids are keys. -/
def RegWF (reg : Registry) : Prop :=
  (reg.codeObjects.map (·.1)).Nodup ∧ (reg.predicates.map (·.1)).Nodup ∧ (reg.lines.map (·.1)).Nodup

/-- Distances are recorded for registered predicates only (`validate_execution_trace`). -/
def TracesValid (reg : Registry) (traces : List Trace) : Prop :=
  ∀ t ∈ traces, ∀ k, (k ∈ t.trueDistances.map (·.1) ∨ k ∈ t.falseDistances.map (·.1)) →
    k ∈ reg.predicates.map (·.1)

/-! ### Per-line annotations sum to the totals -/

/-- **C35, sums.**  For every registry, suite and metric set: if every registered line number is a
line of the source, the per-line `branches`, `branchless_code_objects` and `lines` annotations of
the report sum to the report's totals, and the per-line `total`s sum to the three totals together. -/
theorem annotations_sum_to_totals {traces : List Trace} {reg : Registry} {ms : Metrics} {n : Nat}
    {r : Report} (h : getCoverageReport traces reg ms n = .ok r) (hsrc : LinesInSource reg n) :
    annSum (·.branches) r.lineAnnotations = r.branches ∧
    annSum (·.branchless) r.lineAnnotations = r.branchless ∧
    annSum (·.lines) r.lineAnnotations = r.lines ∧
    annSum (·.total) r.lineAnnotations = r.branches + r.branchless + r.lines := by
  have spec := report_spec h
  -- generic computation of one projected component sum
  have key : ∀ (p : CovEntry → Nat) (hp : Additive p),
      (r.lineAnnotations.map (fun a => p a.branches)).sum = p r.branches ∧
      (r.lineAnnotations.map (fun a => p a.branchless)).sum = p r.branchless ∧
      (p = (·.covered) ∨ p = (·.existing) →
        (r.lineAnnotations.map (fun a => p a.lines)).sum = p r.lines ∧
        (r.lineAnnotations.map (fun a => p a.total)).sum
          = p r.branches + p r.branchless + p r.lines) := by
    intro p hp
    obtain ⟨m1, m2, m3, m4⟩ := maps_spec reg (analyzeResults traces) n hp
    have m3 := m3 hsrc.1
    have m4 := m4 hsrc.2.1
    -- sums over the annotations after the BRANCH step
    have hb1 : ((anns1 reg (analyzeResults traces) n ms.branch).map (fun a => p a.branches)).sum
        = p r.branches := by
      rw [sum_anns1 _ _ _ _ (fun a => p a.branches) (fun a c => hp.add _ _)
        (blank_zero n (·.branches) p hp (fun a ha => (mem_blank ha).2.1))]
      cases hb : ms.branch
      · rw [(spec.branch_off hb).2.1, hp.zero]; rfl
      · rw [(spec.branch_on hb).2.1, ← m3]; rfl
    have hb2 : ((anns1 reg (analyzeResults traces) n ms.branch).map (fun a => p a.branchless)).sum
        = p r.branchless := by
      rw [sum_anns1 _ _ _ _ (fun a => p a.branchless) (fun a c => hp.add _ _)
        (blank_zero n (·.branchless) p hp (fun a ha => (mem_blank ha).2.2.1))]
      cases hb : ms.branch
      · rw [(spec.branch_off hb).2.2, hp.zero]; rfl
      · rw [(spec.branch_on hb).2.2, ← m4]; rfl
    have hb3 : ((anns1 reg (analyzeResults traces) n ms.branch).map (fun a => p a.lines)).sum = 0 :=
      sum_map_zero _ _ (fun a ha => by rw [(lines_anns1 ha).1]; exact hp.zero)
    have hb4 : ((anns1 reg (analyzeResults traces) n ms.branch).map (fun a => p a.total)).sum
        = p r.branches + p r.branchless := by
      rw [sum_anns1 _ _ _ _ (fun a => p a.total) (fun a c => hp.add _ _)
        (blank_zero n (·.total) p hp (fun a ha => (mem_blank ha).1))]
      cases hb : ms.branch
      · rw [(spec.branch_off hb).2.1, (spec.branch_off hb).2.2, hp.zero]; rfl
      · simp only [if_true]
        have : (fun i : Int => p (branchAnn i (lineToBranchlessCoverage reg (analyzeResults traces))
              (lineToBranchCoverage reg (analyzeResults traces))).total)
            = fun i => p ((lineToBranchlessCoverage reg (analyzeResults traces)).get (some i))
                + p ((lineToBranchCoverage reg (analyzeResults traces)).get (some i)) := by
          funext i; simp only [branchAnn, hp.add, hp.zero]; omega
        rw [this, sumFrom_add, m3, m4, (spec.branch_on hb).2.1, (spec.branch_on hb).2.2]; omega
    cases hl : ms.line
    · -- LINE off: the annotations are those of the BRANCH step, `lines` total is zero
      obtain ⟨_, hlines, hanns⟩ := spec.line_off hl
      rw [hanns, hlines]
      refine ⟨hb1, hb2, fun _ => ⟨?_, ?_⟩⟩
      · rw [hb3, hp.zero]
      · rw [hb4, hp.zero]; omega
    · obtain ⟨lc, cl, el, _, _, hcl, hel, hlines, hanns⟩ := spec.line_on hl
      rw [hanns]
      have hlen := length_anns1 reg (analyzeResults traces) n ms.branch
      refine ⟨?_, ?_, ?_⟩
      · rw [sum_annT (fun a => p a.branches) (fun a c => hp.add _ _), hb1, hlen]
        have : (fun i : Int => p (lineAnn i cl el).branches) = fun _ => 0 := by
          funext i; exact hp.zero
        rw [this, sumFrom_zero]; rfl
      · rw [sum_annT (fun a => p a.branchless) (fun a c => hp.add _ _), hb2, hlen]
        have : (fun i : Int => p (lineAnn i cl el).branchless) = fun _ => 0 := by
          funext i; exact hp.zero
        rw [this, sumFrom_zero]; rfl
      · intro hpp
        obtain ⟨hcn, hcr⟩ := linenos_in_range hsrc.2.2 hcl
        obtain ⟨hen, her⟩ := linenos_in_range hsrc.2.2 hel
        have hsum : sumFrom (fun i => p (lineAnn i cl el).lines) 0 n = p r.lines := by
          rw [hlines]
          rcases hpp with rfl | rfl
          · exact sumFrom_mem_eq_length cl 0 n hcn hcr
          · exact sumFrom_mem_eq_length el 0 n hen her
        refine ⟨?_, ?_⟩
        · rw [sum_annT (fun a => p a.lines) (fun a c => hp.add _ _), hb3, hlen, hsum]; omega
        · rw [sum_annT (fun a => p a.total) (fun a c => hp.add _ _), hb4, hlen]
          have : (fun i : Int => p (lineAnn i cl el).total) = fun i => p (lineAnn i cl el).lines := rfl
          rw [this, hsum]
  obtain ⟨c1, c2, c3⟩ := key (·.covered) additive_covered
  obtain ⟨e1, e2, e3⟩ := key (·.existing) additive_existing
  obtain ⟨c3, c4⟩ := c3 (Or.inl rfl)
  obtain ⟨e3, e4⟩ := e3 (Or.inr rfl)
  refine ⟨CovEntry.ext' c1 e1, CovEntry.ext' c2 e2, CovEntry.ext' c3 e3, CovEntry.ext' ?_ ?_⟩
  · simpa [annSum] using c4
  · simpa [annSum] using e4

/-! ### Totals equal the computed coverage -/

/-- **C35, branch totals.**  With BRANCH enabled, `branch_coverage` of the report — also printed as
`branch-rate` — is `(branches.covered + branchless.covered) / (branches.existing +
branchless.existing)` (the Cobertura `branches-covered` / `branches-valid` attributes), i.e. the
totals are exactly the numbers `compute_branch_coverage` counts. -/
theorem branch_totals_eq_coverage {traces : List Trace} {reg : Registry} {ms : Metrics} {n : Nat}
    {r : Report} (h : getCoverageReport traces reg ms n = .ok r) (hb : ms.branch = true)
    (hreg : RegWF reg) (hval : TracesValid reg traces) :
    r.branches.covered + r.branchless.covered = branchCovered (analyzeResults traces) reg ∧
    r.branches.existing + r.branchless.existing = branchExisting reg ∧
    r.branchCoverage = some (ratio (r.branches.covered + r.branchless.covered)
      (r.branches.existing + r.branchless.existing)) := by
  have spec := report_spec h
  obtain ⟨⟨bc, hbc, hrbc⟩, hbr, hbl⟩ := spec.branch_on hb
  have tinv := tinv_analyze traces
  obtain ⟨c1, c2, _, _⟩ := maps_spec reg (analyzeResults traces) n additive_covered
  obtain ⟨e1, e2, _, _⟩ := maps_spec reg (analyzeResults traces) n additive_existing
  have hblk : (reg.branchLess.map (·.1)).Nodup :=
    List.Nodup.sublist (List.Sublist.map _ List.filter_sublist) hreg.1
  -- keys of the merged distance dicts are registered predicates
  have htd : ∀ k ∈ (analyzeResults traces).trueDistances.map (·.1), k ∈ reg.predicates.map (·.1) := by
    intro k hk
    rcases keys_td_foldl traces {} k hk with h' | ⟨t, ht, hkt⟩
    · simp at h'
    · exact hval t ht k (Or.inl hkt)
  have hfd : ∀ k ∈ (analyzeResults traces).falseDistances.map (·.1), k ∈ reg.predicates.map (·.1) := by
    intro k hk
    rcases keys_fd_foldl traces {} k hk with h' | ⟨t, ht, hkt⟩
    · simp at h'
    · exact hval t ht k (Or.inr hkt)
  have hcov : r.branches.covered + r.branchless.covered = branchCovered (analyzeResults traces) reg := by
    rw [hbr, hbl, c1, c2]
    unfold branchCovered
    have hp : (reg.predicates.map (fun x => ((predCs (analyzeResults traces) x).map (·.covered)).sum)).sum
        = ((reg.predicates.map (·.1)).map
            (fun p => if zeroIn (analyzeResults traces).trueDistances p then 1 else 0)).sum
          + ((reg.predicates.map (·.1)).map
            (fun p => if zeroIn (analyzeResults traces).falseDistances p then 1 else 0)).sum := by
      rw [List.map_map, List.map_map, ← sum_map_add]
      congr 1
      apply List.map_congr_left
      intro x _
      simp only [predCs, Function.comp]
      cases zeroIn (analyzeResults traces).trueDistances x.1 <;>
        cases zeroIn (analyzeResults traces).falseDistances x.1 <;> rfl
    have hc : (reg.branchLess.map (fun c => ((blCs (analyzeResults traces) c).map (·.covered)).sum)).sum
        = (reg.branchLess.map
            (fun c => if c.1 ∈ (analyzeResults traces).executedCodeObjects then 1 else 0)).sum := by
      congr 1
      apply List.map_congr_left
      intro c _
      simp only [blCs]
      by_cases hc : c.1 ∈ (analyzeResults traces).executedCodeObjects <;> simp [hc]
    rw [hp, hc, sum_zeroIn_eq _ _ tinv.2.2.1 hreg.2.1 htd,
      sum_zeroIn_eq _ _ tinv.2.2.2 hreg.2.1 hfd,
      count_branchless_eq _ _ hblk tinv.1]
    omega
  have hex : r.branches.existing + r.branchless.existing = branchExisting reg := by
    rw [hbr, hbl, e1, e2]
    unfold branchExisting
    have hp : (reg.predicates.map (fun x => ((predCs (analyzeResults traces) x).map (·.existing)).sum)).sum
        = reg.predicates.length * 2 := by
      have : ∀ x : Nat × PredMeta, ((predCs (analyzeResults traces) x).map (·.existing)).sum = 2 := by
        intro x
        simp only [predCs]
        cases zeroIn (analyzeResults traces).trueDistances x.1 <;>
          cases zeroIn (analyzeResults traces).falseDistances x.1 <;> rfl
      simp only [this]
      induction reg.predicates with
      | nil => rfl
      | cons a t ih => simp only [List.map_cons, List.sum_cons, List.length_cons, ih]; omega
    have hc : (reg.branchLess.map (fun c => ((blCs (analyzeResults traces) c).map (·.existing)).sum)).sum
        = reg.branchLess.length := by
      have : ∀ c : Nat × Int, ((blCs (analyzeResults traces) c).map (·.existing)).sum = 1 := by
        intro c
        simp only [blCs]
        by_cases hc : c.1 ∈ (analyzeResults traces).executedCodeObjects <;> simp [hc]
      simp only [this]
      induction reg.branchLess with
      | nil => rfl
      | cons a t ih => simp only [List.map_cons, List.sum_cons, List.length_cons, ih]; omega
    rw [hp, hc]; omega
  refine ⟨hcov, hex, ?_⟩
  rw [hrbc, hcov, hex]
  unfold computeBranchCoverage at hbc
  rw [assertUnit_ok hbc]

/-- **C35, line totals.**  With LINE enabled and line numbers injective over the registered line
ids, `lines.covered` / `lines.existing` are the number of covered / registered line ids and
`line_coverage` (`line-rate`) is their quotient, as `compute_line_coverage` computes it. -/
theorem line_totals_eq_coverage {traces : List Trace} {reg : Registry} {ms : Metrics} {n : Nat}
    {r : Report} (h : getCoverageReport traces reg ms n = .ok r) (hl : ms.line = true)
    (hreg : RegWF reg) (hinj : LineNoInjective reg) :
    r.lines.covered = (analyzeResults traces).coveredLineIds.length ∧
    r.lines.existing = reg.lines.length ∧
    r.lineCoverage = some (ratio r.lines.covered r.lines.existing) := by
  have spec := report_spec h
  obtain ⟨lc, cl, el, hlc, hrlc, hcl, hel, hlines, _⟩ := spec.line_on hl
  have tinv := tinv_analyze traces
  obtain ⟨xs, hxs, rfl⟩ := lineidsToLinenos_ok hcl
  obtain ⟨ys, hys, rfl⟩ := lineidsToLinenos_ok hel
  have hxn : xs.Nodup := nodup_linenos hinj tinv.2.1 hxs
  have hyeq : ys = reg.lines.map (·.2.lineNo) := linenos_of_keys hreg.2.2 hys
  have hyn : ys.Nodup := by rw [hyeq]; exact hinj
  have h1 : r.lines.covered = (analyzeResults traces).coveredLineIds.length := by
    rw [hlines, oset_of_nodup hxn]
    have := congrArg List.length hxs
    simpa using this.symm
  have h2 : r.lines.existing = reg.lines.length := by
    rw [hlines, oset_of_nodup hyn, hyeq]; simp
  refine ⟨h1, h2, ?_⟩
  rw [hrlc, h1, h2]
  unfold computeLineCoverage at hlc
  rw [assertUnit_ok hlc]

/-- **C35, totals.**  Both parts together, in the words of the property. -/
theorem totals_eq_coverage {traces : List Trace} {reg : Registry} {ms : Metrics} {n : Nat}
    {r : Report} (h : getCoverageReport traces reg ms n = .ok r)
    (hreg : RegWF reg) (hval : TracesValid reg traces) (hinj : LineNoInjective reg) :
    (ms.branch = true →
      computeBranchCoverage (analyzeResults traces) reg
        = .ok (ratio (r.branches.covered + r.branchless.covered)
            (r.branches.existing + r.branchless.existing)) ∧
      (xmlTotals r).branchRate = some (ratio (xmlTotals r).branchesCovered (xmlTotals r).branchesValid)) ∧
    (ms.line = true →
      computeLineCoverage (analyzeResults traces) reg = .ok (ratio r.lines.covered r.lines.existing) ∧
      (xmlTotals r).lineRate = some (ratio (xmlTotals r).linesCovered (xmlTotals r).linesValid)) := by
  have spec := report_spec h
  refine ⟨fun hb => ?_, fun hl => ?_⟩
  · obtain ⟨h1, h2, h3⟩ := branch_totals_eq_coverage h hb hreg hval
    obtain ⟨⟨bc, hbc, hrbc⟩, _⟩ := spec.branch_on hb
    refine ⟨?_, h3⟩
    rw [hbc, ← Option.some.inj (hrbc.symm.trans h3)]
  · obtain ⟨h1, h2, h3⟩ := line_totals_eq_coverage h hl hreg hinj
    obtain ⟨lc, _, _, hlc, hrlc, _⟩ := spec.line_on hl
    refine ⟨?_, h3⟩
    rw [hlc, ← Option.some.inj (hrlc.symm.trans h3)]

/-- Registries filled by `register_line` with the lines of one file (what instrumenting the module
under test does) have ids that are dict keys and line numbers that are injective over the ids: the
hypotheses `RegWF` (lines part) and `LineNoInjective` of the line part hold by construction. -/
theorem registerLines_single_file (metas : List LineMeta) (f : String)
    (hf : ∀ m ∈ metas, m.file = f) :
    ((registerLines [] metas).map (·.1)).Nodup ∧
      ((registerLines [] metas).map (·.2.lineNo)).Nodup :=
  regInv_nodup (regInv_registerLines metas hf (regInv_nil f))

/-! ### A line is shown covered iff the suite covers it -/

/-- **C35, per line.**  With LINE enabled the report has exactly one annotation per source line
`1 … n`, and the annotation of line `k` says `lines = (1, ·)` exactly when some test of the suite
covered a line id registered with number `k`, and `(·, 1)` exactly when such a line id is registered;
otherwise `0`. -/
theorem line_shown_covered_iff {traces : List Trace} {reg : Registry} {ms : Metrics} {n : Nat}
    {r : Report} (h : getCoverageReport traces reg ms n = .ok r) (hl : ms.line = true) :
    r.lineAnnotations.map (·.lineNo) = (List.range n).map (fun (i : Nat) => (i : Int) + 1) ∧
    ∀ a ∈ r.lineAnnotations,
      (a.lines.covered = 1 ↔
        ∃ t ∈ traces, ∃ id ∈ t.coveredLineIds, lineNoOf reg id = some (some a.lineNo)) ∧
      (a.lines.existing = 1 ↔
        ∃ id ∈ reg.lines.map (·.1), lineNoOf reg id = some (some a.lineNo)) ∧
      (a.lines.covered = 0 ∨ a.lines.covered = 1) ∧ (a.lines.existing = 0 ∨ a.lines.existing = 1) := by
  have spec := report_spec h
  obtain ⟨lc, cl, el, _, _, hcl, hel, _, hanns⟩ := spec.line_on hl
  obtain ⟨xs, hxs, rfl⟩ := lineidsToLinenos_ok hcl
  obtain ⟨ys, hys, rfl⟩ := lineidsToLinenos_ok hel
  refine ⟨?_, ?_⟩
  · rw [hanns, lineNos_annT]
    unfold anns1
    cases ms.branch
    · simp [blankAnns]
    · simp [lineNos_annT, blankAnns]
  · intro a ha
    rw [hanns] at ha
    obtain ⟨b, hb, rfl⟩ := mem_annT (aligned_anns1 reg _ n ms.branch) ha
    have hbl := (lines_anns1 hb).1
    have hc : (b.addT (lineAnn b.lineNo (oset xs) (oset ys))).lines.covered
        = if some b.lineNo ∈ oset xs then 1 else 0 := by
      simp [LineAnn.addT, lineAnn, hbl]
    have he : (b.addT (lineAnn b.lineNo (oset xs) (oset ys))).lines.existing
        = if some b.lineNo ∈ oset ys then 1 else 0 := by
      simp [LineAnn.addT, lineAnn, hbl]
    have hno : (b.addT (lineAnn b.lineNo (oset xs) (oset ys))).lineNo = b.lineNo := rfl
    rw [hc, he, hno]
    have hmx : some b.lineNo ∈ oset xs ↔
        ∃ t ∈ traces, ∃ id ∈ t.coveredLineIds, lineNoOf reg id = some (some b.lineNo) := by
      rw [mem_oset, mem_linenos_iff hxs]
      constructor
      · rintro ⟨id, hid, hno⟩
        rcases (mem_cov_foldl traces {} id).1 hid with h' | ⟨t, ht, hit⟩
        · simp at h'
        · exact ⟨t, ht, id, hit, hno⟩
      · rintro ⟨t, ht, id, hit, hno⟩
        exact ⟨id, (mem_cov_foldl traces {} id).2 (Or.inr ⟨t, ht, hit⟩), hno⟩
    have hmy : some b.lineNo ∈ oset ys ↔
        ∃ id ∈ reg.lines.map (·.1), lineNoOf reg id = some (some b.lineNo) := by
      rw [mem_oset, mem_linenos_iff hys]
    refine ⟨?_, ?_, ?_, ?_⟩
    · rw [← hmx]
      by_cases hA : some b.lineNo ∈ oset xs <;> simp [hA]
    · rw [← hmy]
      by_cases hA : some b.lineNo ∈ oset ys <;> simp [hA]
    · split <;> simp
    · split <;> simp

/-- With LINE as the only metric, the Cobertura report has a `<line>` element with `hits="1"` for
line `k` exactly when the line is registered and covered by the suite (`hits="0"` when it is
registered and not covered, no element otherwise). -/
theorem xml_line_hit_iff {traces : List Trace} {reg : Registry} {ms : Metrics} {n : Nat}
    {r : Report} (h : getCoverageReport traces reg ms n = .ok r) (hl : ms.line = true)
    (hb : ms.branch = false) :
    ∀ a ∈ r.lineAnnotations,
      xmlLine a = if a.lines.existing = 0 then none
        else some ⟨a.lineNo, if a.lines.covered = 1 then 1 else 0, false, none⟩ := by
  have spec := report_spec h
  obtain ⟨lc, cl, el, _, _, _, _, _, hanns⟩ := spec.line_on hl
  intro a ha
  rw [hanns] at ha
  obtain ⟨b, hb', rfl⟩ := mem_annT (aligned_anns1 reg _ n ms.branch) ha
  obtain ⟨h1, h2⟩ := lines_anns1 hb'
  obtain ⟨h2, h3, h4⟩ := h2 hb
  simp only [xmlLine, LineAnn.addT, lineAnn, h1, h2, h3, h4]
  by_cases hc : some b.lineNo ∈ cl <;> by_cases he : some b.lineNo ∈ el <;> simp [hc, he] <;> rfl

/-! ### The hypotheses are needed: counterexamples (decided on literals) -/

/-- The full-strength statement of the sums (no proviso on the registered line numbers). -/
def C35_sums_full : Prop :=
  ∀ (traces : List Trace) (reg : Registry) (ms : Metrics) (n : Nat) (r : Report),
    getCoverageReport traces reg ms n = .ok r → annSum (·.lines) r.lineAnnotations = r.lines

def cexNoneReg : Registry := ⟨[], [], [(0, ⟨0, "m.py", some 1⟩), (1, ⟨1, "m.py", none⟩)]⟩
def cexNoneTrace : Trace := { coveredLineIds := [0, 1] }

/-- A registered line whose number is `None` (what the line instrumentation registers for the
line-less instructions of a generator code object): totals `2/2`, per-line sum `1/1`. -/
theorem annotations_sum_cex :
    (getCoverageReport [cexNoneTrace] cexNoneReg ⟨false, true⟩ 3).toOption.map
      (fun r => (r.lines, annSum (·.lines) r.lineAnnotations)) = some (⟨2, 2⟩, ⟨1, 1⟩) := by
  decide +kernel

theorem C35_sums_full_cex : ¬ C35_sums_full := by
  intro hfull
  cases hr : getCoverageReport [cexNoneTrace] cexNoneReg ⟨false, true⟩ 3 with
  | error e =>
    have := annotations_sum_cex
    rw [hr] at this
    cases this
  | ok r =>
    have h1 := hfull _ _ _ _ r hr
    have h2 := annotations_sum_cex
    rw [hr] at h2
    simp only [Except.toOption, Option.map_some, Option.some.injEq, Prod.mk.injEq] at h2
    rw [h1] at h2
    have := h2.1.symm.trans h2.2
    cases this

def cexTwoFiles : Registry := ⟨[], [], [(0, ⟨0, "a.py", some 1⟩), (1, ⟨0, "b.py", some 1⟩)]⟩

/-- Two files with equal line numbers in one registry: `compute_line_coverage` says 1/2, the report
totals say 1/1 (and `line_coverage` 1/2 is printed beside `lines-covered="1" lines-valid="1"`). -/
theorem totals_eq_coverage_cex_two_files :
    (getCoverageReport [{ coveredLineIds := [0] }] cexTwoFiles ⟨false, true⟩ 3).toOption.map
      (fun r => (r.lines, r.lineCoverage, ratio r.lines.covered r.lines.existing))
      = some (⟨1, 1⟩, some (ratio 1 2), ratio 1 1) ∧ ratio 1 2 ≠ ratio 1 1 ∧
    ¬ LineNoInjective cexTwoFiles := by
  refine ⟨by decide +kernel, by decide +kernel, by unfold LineNoInjective; decide +kernel⟩

def cexUnregistered : Registry := ⟨[(0, 1)], [(0, ⟨some 1, 0⟩)], []⟩

/-- A zero distance recorded for a predicate id that is not registered is counted by
`compute_branch_coverage` and not by the report. -/
theorem totals_eq_coverage_cex_unregistered :
    (getCoverageReport [{ trueDistances := [(5, .fin 0 1)] }] cexUnregistered ⟨true, false⟩ 3).toOption.map
      (fun r => (r.branches, r.branchless, r.branchCoverage)) = some (⟨0, 2⟩, ⟨0, 0⟩, some (ratio 1 2)) ∧
    ratio 1 2 ≠ ratio 0 2 := by
  refine ⟨by decide +kernel, by decide +kernel⟩

/-! ### Non-vacuity: a concrete report meets all hypotheses -/

def exReg : Registry :=
  ⟨[(0, 1), (1, 2), (2, 5)], [(0, ⟨some 3, 1⟩), (1, ⟨some 3, 1⟩)],
   registerLines [] [⟨0, "m.py", some 1⟩, ⟨1, "m.py", some 2⟩, ⟨1, "m.py", some 3⟩, ⟨1, "m.py", some 2⟩,
     ⟨2, "m.py", some 5⟩]⟩

def exTraces : List Trace :=
  [{ executedCodeObjects := [0, 1], trueDistances := [(0, .fin 0 1)], falseDistances := [(0, .fin 1 2)],
     coveredLineIds := [0, 1, 2] },
   { executedCodeObjects := [0, 1, 2], trueDistances := [(0, .fin 3 1), (1, .inf)],
     falseDistances := [(0, .fin 0 1), (1, .nan)], coveredLineIds := [0, 3] }]

example : (getCoverageReport exTraces exReg ⟨true, true⟩ 6).toOption.map
    (fun r => (r.branches, r.branchless, r.lines, r.branchCoverage, r.lineCoverage))
    = some (⟨2, 4⟩, ⟨2, 2⟩, ⟨4, 4⟩, some (ratio 4 6), some (ratio 4 4)) := by decide +kernel

example : (reg : Registry) → reg = exReg → (reg.codeObjects.map (·.1)).Nodup ∧
    (reg.predicates.map (·.1)).Nodup ∧ (reg.lines.map (·.1)).Nodup ∧ LineNoInjective reg := by
  intro reg h; subst h; unfold LineNoInjective; decide +kernel

example : TracesValid exReg exTraces := by
  have h : (exTraces.all fun t => (t.trueDistances ++ t.falseDistances).all
      fun e => decide (e.1 ∈ exReg.predicates.map (·.1))) = true := by decide
  intro t ht k hk
  simp only [List.all_eq_true, List.mem_append, decide_eq_true_eq] at h
  rcases hk with hk | hk <;> obtain ⟨e, he, rfl⟩ := List.mem_map.1 hk
  · exact h t ht e (Or.inl he)
  · exact h t ht e (Or.inr he)

example : LinesInSource exReg 6 := by
  have hl : (exReg.lines.all fun e =>
      match e.2.lineNo with | some i => decide (0 < i ∧ i ≤ ((6 : Nat) : Int)) | none => false) = true := by
    decide +kernel
  have hp : (exReg.predicates.all fun e =>
      match e.2.lineNo with | some i => decide (0 < i ∧ i ≤ ((6 : Nat) : Int)) | none => false) = true := by
    decide +kernel
  have hc : (exReg.branchLess.all fun c =>
      match (some c.2 : LineNo) with | some i => decide (0 < i ∧ i ≤ ((6 : Nat) : Int)) | none => false) = true := by
    decide +kernel
  rw [List.all_eq_true] at hl hp hc
  exact ⟨fun p h => inRange_of_bool (hp p h), fun c h => inRange_of_bool (hc c h),
    fun e h => inRange_of_bool (hl e h)⟩

end PynguinModel.Report
