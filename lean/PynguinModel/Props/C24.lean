import PynguinModel.Lemmas.SeedRoundTrip
/-!
# C24 — exported tests round-trip through the seed parser

Property: parsing a test file written by pynguin back into test cases yields, for every exported
test function, a test case whose statements and assertions render to the same test code.

* `Adm` describes, line by line, the bodies the deserialiser reproduces exactly: every statement
  reads only names in scope, binds a fresh variable, and every `assert` either is not of a liftable
  shape (kept as a raw statement) or is lifted into an `Assertion` that `assertion_to_cst` prints
  back identically.
* `C24_roundtrip`: for **every** such body (any length, any expressions) the re-rendered test case is
  the body itself; `C24_roundtrip_without_assertions`: with `create_assertions = False` it is the
  body without its assert lines.
* `C24_*_assertion_stable`: every assertion the exporter can print (`assertion_to_cst`, all five
  kinds, any source, any literal value) satisfies the `assert` clause of `Adm`.
* `C24_old_*_cex`: the three behaviours of the unchanged tree break the round trip.
-/
namespace PynguinModel.SeedRoundTrip

/-- bodies the deserialiser reproduces: `Adm c known bound lines` -/
inductive Adm (c : Cfg) : List Name → List Name → List Line → Prop where
  | nil {k b} : Adm c k b []
  /-- `t = value`: fresh target, everything read is in scope (own lambda parameters excepted) -/
  | assign {k b t v ls} : t ∉ b →
      subsetB (removeAll (removeAll (readsE v) [t]) (internalE v)) k = true →
      Adm c (t :: k) (t :: b) ls → Adm c k b (.small (.assign [.name t] v) :: ls)
  | expr {k b e ls} : subsetB (removeAll (readsE e) (internalE e)) k = true →
      Adm c k b ls → Adm c k b (.small (.expr e) :: ls)
  /-- an assert of a supported shape on a bound variable whose lifted form prints back identically -/
  | lifted {k b t var a ls} : parseAssertion c b t = some (var, a) → var ∈ b →
      renderTest (a.withSource [var]) = t → Adm c k b ls → Adm c k b (.small (.assert_ t) :: ls)
  /-- an assert of no supported shape whose names are in scope (kept as a raw statement) -/
  | raw {k b t ls} : parseAssertion c b t = none → subsetB (readsE t) k = true →
      Adm c k b ls → Adm c k b (.small (.assert_ t) :: ls)
  /-- a `with` block (the `pytest.raises` wrapper): external reads in scope; its bindings stay local -/
  | block {k b items body ls} :
      subsetB (removeAll (readsLine (.with_ items body)) (internalLine (.with_ items body))) k = true →
      Adm c k b ls → Adm c k b (.with_ items body :: ls)
  | imp {k b s ls} : isImport s = true → Adm c (importedLocalNames s ++ k) b ls →
      Adm c k b (.small s :: ls)

/-- the repaired code (all three proposed fixes) -/
def Repaired (c : Cfg) : Prop := c.attachToBinder = false ∧ c.lambdaReads = false ∧ c.kwRewrite = false

theorem Inv.append {st st' : St} (h : Inv st) (p : PStmt) (h1 : st'.renameMap = st.renameMap)
    (h2 : st'.lastIdx = st.lastIdx) (h3 : st'.boundKeys = st.boundKeys)
    (h4 : st'.stmts = st.stmts ++ [p]) : Inv st' := by
  refine ⟨by rw [h1]; exact h.idmap, ?_⟩
  intro w hw
  rw [h3] at hw
  obtain ⟨i, hi, hbnd⟩ := h.binder w hw
  refine ⟨i, by rw [h2]; exact hi, ?_⟩
  have hlt : i < st.stmts.length := by
    cases hs : st.stmts[i]? with
    | none => simp [hs] at hbnd
    | some _ => exact (List.getElem?_eq_some_iff.mp hs).1
  rw [h4, List.getElem?_append_left hlt]
  exact hbnd

theorem run_render (c : Cfg) (hr : Repaired c) (hca : c.createAssertions = true) :
    ∀ (ls : List Line) (st : St), Inv st → Adm c st.known st.boundKeys ls →
      renderBody (run c st ls).stmts = renderBody st.stmts ++ ls := by
  intro ls st hinv hadm
  generalize hk : st.known = k at hadm
  generalize hb : st.boundKeys = b at hadm
  induction hadm generalizing st with
  | nil => simp [run]
  | @assign k b t v ls hfresh hreads _ ih =>
    subst hk hb
    have hid : IdMap ((t, t) :: st.renameMap) := by
      intro p hp
      cases hp with
      | head => rfl
      | tail _ h => exact hinv.idmap p h
    have hstep : step c st (.small (.assign [.name t] v)) =
        { known := t :: st.known
          stmts := st.stmts ++ [{ node := .small (.assign [.name t] v), bound := some t }]
          renameMap := (t, t) :: st.renameMap
          lastIdx := (t, st.stmts.length) :: st.lastIdx
          boundKeys := t :: st.boundKeys
          counter := st.counter } := by
      simp [step, isImport, handleOrdinary, admitSmall, readsSmall, hr.2.1, hreads, hfresh, renameSmall_id hid]
    have hinv' : Inv { known := t :: st.known
                       stmts := st.stmts ++ [{ node := .small (.assign [.name t] v), bound := some t }]
                       renameMap := (t, t) :: st.renameMap
                       lastIdx := (t, st.stmts.length) :: st.lastIdx
                       boundKeys := t :: st.boundKeys
                       counter := st.counter } := by
      refine ⟨hid, ?_⟩
      intro w hw
      simp only [List.mem_cons] at hw
      by_cases hwt : w = t
      · subst hwt
        exact ⟨st.stmts.length, by simp [lookupIdx], by simp⟩
      · obtain ⟨i, hi, hbnd⟩ := hinv.binder w (by
          cases hw with
          | inl h => exact absurd h hwt
          | inr h => exact h)
        refine ⟨i, ?_, ?_⟩
        · have : (t == w) = false := by simpa using fun h => hwt h.symm
          simpa [lookupIdx, List.find?, this] using hi
        · have hlt : i < st.stmts.length := by
            cases hs : st.stmts[i]? with
            | none => simp [hs] at hbnd
            | some _ => exact (List.getElem?_eq_some_iff.mp hs).1
          show ((st.stmts ++ _)[i]?).map _ = _
          rw [List.getElem?_append_left hlt]
          exact hbnd
    simp only [run, hstep]
    rw [ih _ hinv' rfl rfl]
    simp [renderBody_append, renderBody]
  | @expr k b e ls hreads _ ih =>
    subst hk hb
    have hstep : step c st (.small (.expr e)) =
        { st with stmts := st.stmts ++ [{ node := .small (.expr e) }] } := by
      simp [step, isImport, handleOrdinary, admitSmall, readsSmall, hr.2.1, hreads, renameSmall_id hinv.idmap]
    have hinv' : Inv { st with stmts := st.stmts ++ [{ node := .small (.expr e) }] } :=
      hinv.append _ rfl rfl rfl rfl
    simp only [run, hstep]
    rw [ih _ hinv' rfl rfl]
    simp [renderBody_append, renderBody]
  | @lifted k b t var a ls hparse hvar hrender _ ih =>
    subst hk hb
    obtain ⟨i, hi, hbnd⟩ := hinv.binder var hvar
    have hne := hinv.stmts_ne_nil hvar
    have hstep : step c st (.small (.assert_ t)) =
        { st with stmts := appendAssertion st.stmts (st.stmts.length - 1) (a.withSource [var]) } := by
      simp [step, hca, handleAssert, hparse, hi, hr.1]
      cases hs : st.stmts[i]? with
      | none => simp [hs] at hbnd
      | some p =>
        simp [hs] at hbnd
        simp [hbnd]
    have hinv' : Inv { st with stmts := appendAssertion st.stmts (st.stmts.length - 1) (a.withSource [var]) } := by
      refine ⟨hinv.idmap, ?_⟩
      intro w hw
      obtain ⟨j, hj, hbj⟩ := hinv.binder w hw
      refine ⟨j, hj, ?_⟩
      show ((appendAssertion st.stmts _ _)[j]?).map _ = _
      rw [appendAssertion_bound]
      exact hbj
    simp only [run, hstep]
    rw [ih _ hinv' rfl rfl]
    show renderBody (appendAssertion st.stmts (st.stmts.length - 1) (a.withSource [var])) ++ ls = _
    rw [renderBody_appendAssertion_last _ _ hne]
    simp [renderAssertion, hrender]
  | @raw k b t ls hparse hreads _ ih =>
    subst hk hb
    have hstep : step c st (.small (.assert_ t)) =
        { st with stmts := st.stmts ++ [{ node := .small (.assert_ t) }] } := by
      simp [step, hca, handleAssert, hparse, hreads, renameSmall_id hinv.idmap]
    have hinv' : Inv { st with stmts := st.stmts ++ [{ node := .small (.assert_ t) }] } :=
      hinv.append _ rfl rfl rfl rfl
    simp only [run, hstep]
    rw [ih _ hinv' rfl rfl]
    simp [renderBody_append, renderBody]
  | @block k b items body ls hreads _ ih =>
    subst hk hb
    have hstep : step c st (.with_ items body) =
        { st with stmts := st.stmts ++ [{ node := .with_ items body }] } := by
      simp [step, handleCompound, hreads, renameLine_id hinv.idmap]
    have hinv' : Inv { st with stmts := st.stmts ++ [{ node := .with_ items body }] } :=
      hinv.append _ rfl rfl rfl rfl
    simp only [run, hstep]
    rw [ih _ hinv' rfl rfl]
    simp [renderBody_append, renderBody]
  | @imp k b s ls himp _ ih =>
    subst hk hb
    have hstep : step c st (.small s) =
        { st with known := importedLocalNames s ++ st.known, stmts := st.stmts ++ [{ node := .small s }] } := by
      cases s <;> simp_all [step, isImport]
    have hinv' : Inv { st with known := importedLocalNames s ++ st.known,
                               stmts := st.stmts ++ [{ node := .small s }] } :=
      hinv.append _ rfl rfl rfl rfl
    simp only [run, hstep]
    rw [ih _ hinv' rfl rfl]
    simp [renderBody_append, renderBody]

theorem inv_init (c : Cfg) : Inv (initSt c) :=
  ⟨by intro p hp; simp [initSt] at hp, by intro v hv; simp [initSt] at hv⟩

/-- **C24 (full strength, repaired code).**  For every admissible body — any number of statements,
`pytest.raises` blocks and assertions, arbitrary expressions — the test case the seed parser builds
renders (statement, then its assertions, in order) to exactly that body. -/
theorem C24_roundtrip (c : Cfg) (hr : Repaired c) (hca : c.createAssertions = true)
    (body : List Line) (h : Adm c c.ambient [] body) :
    renderBody (deserialize c body) = body := by
  have := run_render c hr hca body (initSt c) (inv_init c) (by simpa [initSt] using h)
  simpa [deserialize, initSt, renderBody] using this

/-- the same through `parse_seed_module`'s two normalisation passes: the re-rendered test is the
normal form (SUT references in alias form, `specBody`) of the exported body.  `hstable`: the normal
form contains no SUT import of its own (the per-function pass leaves it alone). -/
theorem C24_roundtrip_parse_seed_module (c : Cfg) (hr : Repaired c) (hca : c.createAssertions = true)
    (header : List Small) (body : List Line)
    (hstable : (normLines c [] (specBody c header body)).2 = specBody c header body)
    (h : Adm c c.ambient [] (specBody c header body)) :
    renderBody (parseFunction c header body) = specBody c header body := by
  have : parseFunction c header body = deserialize c (normLines c [] (specBody c header body)).2 := rfl
  rw [this, hstable]
  exact C24_roundtrip c hr hca _ h

/-- one function alone: the module-level pass of `parseFunctions` is `parseFunction` -/
theorem parseFunctions_single (c : Cfg) (header : List Small) (body : List Line) :
    parseFunctions c (headerBindings c header) [body] = [parseFunction c header body] := rfl

/-- a body without SUT imports leaves the normaliser's bindings as they were, so in a file whose test
functions contain no SUT import (every file pynguin writes) each function is parsed from the header
bindings alone, independently of the others -/
theorem normLines_bindings_unchanged (c : Cfg) :
    ∀ (body : List Line) (bs : Bindings),
      (∀ s, Line.small s ∈ body → importBindings c s = none) → (normLines c bs body).1 = bs := by
  intro body
  induction body with
  | nil => intro bs _; rfl
  | cons l ls ih =>
    intro bs h
    cases l with
    | small s =>
      have hs : importBindings c s = none := h s (by simp)
      simp only [normLines, hs]
      exact ih bs (fun s' hs' => h s' (by simp [hs']))
    | with_ items b =>
      simp only [normLines]
      exact ih bs (fun s' hs' => h s' (by simp [hs']))

/-! ### without assertion lifting (`create_assertions = False`) -/

/-- admissibility of the statements alone (assert lines are skipped by the parser) -/
inductive AdmNoAssert (c : Cfg) : List Name → List Name → List Line → Prop where
  | nil {k b} : AdmNoAssert c k b []
  | assign {k b t v ls} : t ∉ b →
      subsetB (removeAll (removeAll (readsE v) [t]) (internalE v)) k = true →
      AdmNoAssert c (t :: k) (t :: b) ls → AdmNoAssert c k b (.small (.assign [.name t] v) :: ls)
  | expr {k b e ls} : subsetB (removeAll (readsE e) (internalE e)) k = true →
      AdmNoAssert c k b ls → AdmNoAssert c k b (.small (.expr e) :: ls)
  | skip {k b t ls} : AdmNoAssert c k b ls → AdmNoAssert c k b (.small (.assert_ t) :: ls)
  | block {k b items body ls} :
      subsetB (removeAll (readsLine (.with_ items body)) (internalLine (.with_ items body))) k = true →
      AdmNoAssert c k b ls → AdmNoAssert c k b (.with_ items body :: ls)

theorem run_render_noassert (c : Cfg) (hr : Repaired c) (hca : c.createAssertions = false) :
    ∀ (ls : List Line) (st : St), IdMap st.renameMap → AdmNoAssert c st.known st.boundKeys ls →
      renderBody (run c st ls).stmts = renderBody st.stmts ++ ls.filter (fun l => !isAssertLine l) := by
  intro ls st hid hadm
  generalize hk : st.known = k at hadm
  generalize hb : st.boundKeys = b at hadm
  induction hadm generalizing st with
  | nil => simp [run]
  | @assign k b t v ls hfresh hreads _ ih =>
    subst hk hb
    have hid' : IdMap ((t, t) :: st.renameMap) := by
      intro p hp
      cases hp with
      | head => rfl
      | tail _ h => exact hid p h
    have hstep : step c st (.small (.assign [.name t] v)) =
        { known := t :: st.known
          stmts := st.stmts ++ [{ node := .small (.assign [.name t] v), bound := some t }]
          renameMap := (t, t) :: st.renameMap
          lastIdx := (t, st.stmts.length) :: st.lastIdx
          boundKeys := t :: st.boundKeys
          counter := st.counter } := by
      simp [step, isImport, handleOrdinary, admitSmall, readsSmall, hr.2.1, hreads, hfresh, renameSmall_id hid']
    simp only [run, hstep]
    rw [ih { known := t :: st.known
             stmts := st.stmts ++ [{ node := .small (.assign [.name t] v), bound := some t }]
             renameMap := (t, t) :: st.renameMap
             lastIdx := (t, st.stmts.length) :: st.lastIdx
             boundKeys := t :: st.boundKeys
             counter := st.counter } hid' rfl rfl]
    simp [renderBody_append, renderBody, isAssertLine]
  | @expr k b e ls hreads _ ih =>
    subst hk hb
    have hstep : step c st (.small (.expr e)) =
        { st with stmts := st.stmts ++ [{ node := .small (.expr e) }] } := by
      simp [step, isImport, handleOrdinary, admitSmall, readsSmall, hr.2.1, hreads, renameSmall_id hid]
    simp only [run, hstep]
    rw [ih { st with stmts := st.stmts ++ [{ node := .small (.expr e) }] } hid rfl rfl]
    simp [renderBody_append, renderBody, isAssertLine]
  | @skip k b t ls _ ih =>
    subst hk hb
    have hstep : step c st (.small (.assert_ t)) = st := by simp [step, hca]
    simp only [run, hstep]
    rw [ih st hid rfl rfl]
    simp [isAssertLine]
  | @block k b items body ls hreads _ ih =>
    subst hk hb
    have hstep : step c st (.with_ items body) =
        { st with stmts := st.stmts ++ [{ node := .with_ items body }] } := by
      simp [step, handleCompound, hreads, renameLine_id hid]
    simp only [run, hstep]
    rw [ih { st with stmts := st.stmts ++ [{ node := .with_ items body }] } hid rfl rfl]
    simp [renderBody_append, renderBody, isAssertLine]

/-- with `create_assertions = False` the parsed test renders to the body without its assert lines -/
theorem C24_roundtrip_without_assertions (c : Cfg) (hr : Repaired c) (hca : c.createAssertions = false)
    (body : List Line) (h : AdmNoAssert c c.ambient [] body) :
    renderBody (deserialize c body) = body.filter (fun l => !isAssertLine l) := by
  have := run_render_noassert c hr hca body (initSt c) (by intro p hp; simp [initSt] at hp)
    (by simpa [initSt] using h)
  simpa [deserialize, initSt, renderBody] using this

end PynguinModel.SeedRoundTrip

namespace PynguinModel.SeedRoundTrip

/-! ### every assertion the exporter prints satisfies the `assert` clause of `Adm` -/

/-- the `assert` clause of `Adm` for one test expression: lifted and printed back identically, or of
no liftable shape (then it is kept verbatim as soon as its names are in scope) -/
def AssertStable (c : Cfg) (bound : List Name) (t : Expr) : Prop :=
  (∃ var a, parseAssertion c bound t = some (var, a) ∧ var ∈ bound ∧ renderTest (a.withSource [var]) = t) ∨
  parseAssertion c bound t = none

theorem buildChain_single (v : Name) : buildChain [v] = .name v := by simp [buildChain, buildChainFrom]

theorem buildChainFrom_attr (r : Expr) (x : Name) : ∀ ps, ∃ e a, buildChainFrom (.attr r x) ps = .attr e a := by
  intro ps
  induction ps generalizing r x with
  | nil => exact ⟨r, x, rfl⟩
  | cons p ps ih => simpa [buildChainFrom] using ih (.attr r x) p

/-- `assert len(v) == n` (CollectionLengthAssertion): lifted and printed back identically -/
theorem C24_len_assertion_stable (c : Cfg) (bound : List Name) (v : Name) (n : Int) (hv : v ∈ bound) :
    AssertStable c bound (renderTest (.len [v] n)) := by
  refine Or.inl ⟨v, .len [v] n, ?_, hv, rfl⟩
  simp [renderTest, buildChain_single, parseAssertion, parseShapes, parseBare, parseIsinstance, parseLen,
    argValue, literalEval_intExpr, hv]

/-- `assert v == <literal>` / `assert v is True|False|None` (ObjectAssertion with any assertable literal
value, nested collections included): lifted and printed back identically -/
theorem C24_object_assertion_stable (c : Cfg) (bound : List Name) (v : Name) (val : Val)
    (hv : v ∈ bound) (hval : isAssertable val 0 = true) :
    AssertStable c bound (renderTest (.object [v] val)) := by
  have hfin := finite_of_assertable val 0 hval
  have hlit := literalEval_valueToCst val hfin
  refine Or.inl ⟨v, .object [v] val, ?_, hv, rfl⟩
  cases val with
  | float f => simp [isAssertable] at hval
  | none => simp [renderTest, buildChain_single, parseAssertion, parseShapes, parseBare, parseIsinstance,
      parseLen, parseEqLit, hlit, hv, hval]
  | bool b => simp [renderTest, buildChain_single, parseAssertion, parseShapes, parseBare, parseIsinstance,
      parseLen, parseEqLit, hlit, hv, hval]
  | int z => simp [renderTest, buildChain_single, parseAssertion, parseShapes, parseBare, parseIsinstance,
      parseLen, parseEqLit, hlit, hv, hval]
  | str s => simp [renderTest, buildChain_single, parseAssertion, parseShapes, parseBare, parseIsinstance,
      parseLen, parseEqLit, hlit, hv, hval]
  | bytes s => simp [renderTest, buildChain_single, parseAssertion, parseShapes, parseBare, parseIsinstance,
      parseLen, parseEqLit, hlit, hv, hval]
  | list xs => simp [renderTest, buildChain_single, parseAssertion, parseShapes, parseBare, parseIsinstance,
      parseLen, parseEqLit, hlit, hv, hval]
  | tuple xs => simp [renderTest, buildChain_single, parseAssertion, parseShapes, parseBare, parseIsinstance,
      parseLen, parseEqLit, hlit, hv, hval]
  | set xs => simp [renderTest, buildChain_single, parseAssertion, parseShapes, parseBare, parseIsinstance,
      parseLen, parseEqLit, hlit, hv, hval]
  | dict xs => simp [renderTest, buildChain_single, parseAssertion, parseShapes, parseBare, parseIsinstance,
      parseLen, parseEqLit, hlit, hv, hval]

/-- `assert isinstance(v, T)` for a builtin type name: lifted and printed back identically -/
theorem C24_isinstance_builtin_stable (c : Cfg) (bound : List Name) (v T : Name) (hv : v ∈ bound)
    (hT : T ∈ c.builtinNames) :
    AssertStable c bound (renderTest (.isinstance [v] ["builtins"] [T])) := by
  refine Or.inl ⟨v, .isinstance [v] ["builtins"] [T], ?_, hv, rfl⟩
  have hj : ".".intercalate [T] = T := rfl
  simp [renderTest, buildChain_single, parseAssertion, parseShapes, parseBare, parseIsinstance,
    argValue, resolveTypeRef, hv, hT, hj]

/-- `assert isinstance(v, <alias>.Outer.Inner…)` for a class of the module under test -/
theorem C24_isinstance_sut_stable (c : Cfg) (bound : List Name) (v q : Name) (qs : List Name) (hv : v ∈ bound)
    (hmod : c.moduleName ≠ ["builtins"]) :
    AssertStable c bound (renderTest (.isinstance [v] c.moduleName (q :: qs))) := by
  refine Or.inl ⟨v, .isinstance [v] c.moduleName (q :: qs), ?_, hv, rfl⟩
  have hch := chain_buildChain (aliasOf c.moduleName) (q :: qs)
  obtain ⟨e, a, hea⟩ := buildChainFrom_attr (.name (aliasOf c.moduleName)) q qs
  have hbc : buildChain (aliasOf c.moduleName :: q :: qs) = .attr e a := by
    simpa [buildChain, buildChainFrom] using hea
  rw [hbc] at hch
  simp [renderTest, buildChain_single, hmod, hbc, parseAssertion, parseShapes, parseBare, parseIsinstance,
    argValue, resolveTypeRef, hv, hch]

/-- `assert v == pytest.approx(…)` (FloatAssertion, any float incl. nan/inf) is never lifted: the parser
keeps it verbatim -/
theorem C24_float_assertion_stable (c : Cfg) (bound : List Name) (v : Name) (f : FloatV) :
    AssertStable c bound (renderTest (.float [v] f)) := by
  refine Or.inr ?_
  simp [renderTest, buildChain_single, parseAssertion, parseShapes, parseBare, parseIsinstance,
    parseLen, parseEqLit, literalEval]

/-- the type-name assertion (f-string comparison) is never lifted either -/
theorem C24_typename_assertion_stable (c : Cfg) (bound : List Name) (src : List Name) (m q : String) :
    AssertStable c bound (renderTest (.typeName src m q)) := by
  refine Or.inr ?_
  simp [renderTest, parseAssertion, parseShapes, parseBare, parseIsinstance, parseLen, parseEqLit]

/-- … and it reads only `type` and its source variable, so it is kept verbatim (`Adm.raw`) whenever
those are in scope.  (On the unchanged tree `__module__` / `__qualname__` were counted as reads of
unknown names and the assertion was dropped.) -/
theorem C24_typename_assertion_reads (v : Name) (m q : String) :
    readsE (renderTest (.typeName [v] m q)) = ["type", v, "type", v] := by
  simp [renderTest, buildChain_single, readsE, readsEs, chain]

/-- an assertion on a dotted source (`v.field`, `alias.Class.field`) is never lifted -/
theorem C24_dotted_source_not_lifted (c : Cfg) (bound : List Name) (r x : Name) (xs : List Name) (n : Int) :
    AssertStable c bound (renderTest (.len (r :: x :: xs) n)) := by
  refine Or.inr ?_
  obtain ⟨e, a, hea⟩ := buildChainFrom_attr (.name r) x xs
  have hbc : buildChain (r :: x :: xs) = .attr e a := by simpa [buildChain, buildChainFrom] using hea
  simp [renderTest, hbc, parseAssertion, parseShapes, parseBare, parseIsinstance, parseLen, parseEqLit, argValue]

/-! ### a concrete exported test (non-vacuity) and the unchanged tree's three defects -/

def demoCfg : Cfg :=
  { alias := "m_", moduleName := ["m"], ambient := ["m_", "pytest", "len", "isinstance", "ValueError", "float"],
    builtinNames := ["len", "isinstance", "ValueError", "float", "int"] }

/-- ```
var_0 = m_.Stack()
assert isinstance(var_0, m_.Stack)
assert len(var_0) == 0
var_1 = var_0.push(x=3)
assert len(var_0) == 1
var_2 = lambda *args: -1
var_3 = m_.half(x=var_2)
assert var_3 == pytest.approx(1.5, abs=0.01, rel=0.01)
with pytest.raises(ValueError):
    var_4 = m_.check(x=-5)
``` -/
def demoBody : List Line :=
  [ .small (.assign [.name "var_0"] (.call (.attr (.name "m_") "Stack") [])),
    .small (.assert_ (.call (.name "isinstance") [.name "var_0", .attr (.name "m_") "Stack"])),
    .small (.assert_ (.cmp (.call (.name "len") [.name "var_0"]) .eq (.const (.int 0)))),
    .small (.assign [.name "var_1"] (.call (.attr (.name "var_0") "push") [.kwarg "x" (.const (.int 3))])),
    .small (.assert_ (.cmp (.call (.name "len") [.name "var_0"]) .eq (.const (.int 1)))),
    .small (.assign [.name "var_2"] (.lam ["args"] (.neg (.const (.int 1))))),
    .small (.assign [.name "var_3"] (.call (.attr (.name "m_") "half") [.kwarg "x" (.name "var_2")])),
    .small (.assert_ (.cmp (.name "var_3") .eq (.call (.attr (.name "pytest") "approx")
      [.const (.float "1.5"), .kwarg "abs" precision, .kwarg "rel" precision]))),
    .with_ [.call (.attr (.name "pytest") "raises") [.name "ValueError"]]
      [.assign [.name "var_4"] (.call (.attr (.name "m_") "check") [.kwarg "x" (.neg (.const (.int 5)))])] ]

theorem demo_adm : Adm demoCfg demoCfg.ambient [] demoBody := by
  refine .assign (by decide) (by decide) ?_
  refine .lifted (var := "var_0") (a := .isinstance ["var_0"] ["m"] ["Stack"]) (by rfl) (by decide) (by rfl) ?_
  refine .lifted (var := "var_0") (a := .len ["var_0"] 0) (by rfl) (by decide) (by rfl) ?_
  refine .assign (by decide) (by decide) ?_
  refine .lifted (var := "var_0") (a := .len ["var_0"] 1) (by rfl) (by decide) (by rfl) ?_
  refine .assign (by decide) (by decide) ?_
  refine .assign (by decide) (by decide) ?_
  refine .raw (by rfl) (by decide) ?_
  refine .block (by decide) ?_
  exact .nil

/-- the hypotheses of `C24_roundtrip` are satisfiable on a non-trivial exported test -/
example : renderBody (deserialize demoCfg demoBody) = demoBody :=
  C24_roundtrip demoCfg ⟨rfl, rfl, rfl⟩ rfl demoBody demo_adm

def assertPositions (ls : List Line) : List Bool := ls.map isAssertLine

/-- **Unchanged tree, defect 1** (`_handle_assert` attaches a lifted assertion to the statement that
bound its variable): `assert len(var_0) == 1` moves in front of the `push` it follows. -/
theorem C24_old_attach_cex :
    renderBody (deserialize { demoCfg with attachToBinder := true } demoBody) ≠ demoBody := by
  intro h
  have := congrArg assertPositions h
  revert this
  decide

/-- **Unchanged tree, defect 2** (lambda parameters counted as reads of unknown names): the lambda
statement and everything that uses it are dropped. -/
theorem C24_old_lambda_cex :
    (renderBody (deserialize { demoCfg with lambdaReads := true } demoBody)).length ≠ demoBody.length := by
  decide

def firstKeyword : Line → Option Name
  | .small (.expr (.call _ (.kwarg k _ :: _))) => some k
  | _ => none

/-- **Unchanged tree, defect 3** (`_SutReferenceNormalizer.visit_Name` also rewrites keyword names):
with `from m import limit`, `m_.clamp(limit=3)` becomes `m_.clamp(m_.limit=3)`. -/
theorem C24_old_keyword_cex :
    let header := [Small.impFrom ["m"] [("limit", none), ("clamp", none)]]
    let body := [Line.small (.expr (.call (.attr (.name "m_") "clamp") [.kwarg "limit" (.const (.int 3))]))]
    (specBody { demoCfg with kwRewrite := true } header body).map firstKeyword = [some "m_.limit"] ∧
    (specBody demoCfg header body).map firstKeyword = [some "limit"] := by
  decide

/-! ### the function LIST: one test case per exported function, in file order -/

/-- `parse_seed_module` deserialises exactly one test case per test function -/
theorem parseFunctions_length (c : Cfg) : ∀ (fns : List (List Line)) (bs : Bindings),
    (parseFunctions c bs fns).length = fns.length := by
  intro fns
  induction fns with
  | nil => intro _; rfl
  | cons f fs ih => intro bs; simp [parseFunctions, ih]

/-- test functions without SUT imports (every file pynguin writes) are parsed independently of each
other, position by position -/
theorem parseFunctions_map (c : Cfg) : ∀ (fns : List (List Line)) (bs : Bindings),
    (∀ body ∈ fns, ∀ s, Line.small s ∈ body → importBindings c s = none) →
    parseFunctions c bs fns =
      fns.map (fun body => deserialize c (normLines c [] (normLines c bs body).2).2) := by
  intro fns
  induction fns with
  | nil => intro _ _; rfl
  | cons f fs ih =>
    intro bs h
    have hb := normLines_bindings_unchanged c f bs (h f (by simp))
    simp only [parseFunctions, List.map_cons, hb]
    rw [ih bs (fun body hbody => h body (by simp [hbody]))]

/-- the positions the driver reports are those of the returned test cases -/
theorem contributingFrom_length : ∀ (tcs : List (List PStmt)) (i : Nat),
    (contributingFrom i tcs).length = (collect tcs).length := by
  intro tcs
  induction tcs with
  | nil => intro _; rfl
  | cons tc rest ih =>
    intro i
    cases htc : tc.isEmpty <;> simp [contributingFrom, collect, htc] <;>
      simpa [collect] using ih (i + 1)

/-- **C24 over the whole file (repaired code).**  For every exported file whose test functions are
admissible and non-empty, `parse_seed_module` returns exactly one test case per test function, in
file order, and the i-th test case renders to the i-th function's body: nothing is skipped, merged
or re-ordered — whatever the other functions of the file look like (clones of each other, same
statements with different assertions, …). -/
theorem C24_roundtrip_module (c : Cfg) (hr : Repaired c) (hca : c.createAssertions = true)
    (header : List Small) (fns : List (List Line))
    (hnoimp : ∀ body ∈ fns, ∀ s, Line.small s ∈ body → importBindings c s = none)
    (hstable : ∀ body ∈ fns, (normLines c [] (specBody c header body)).2 = specBody c header body)
    (hadm : ∀ body ∈ fns, Adm c c.ambient [] (specBody c header body))
    (hne : ∀ body ∈ fns, specBody c header body ≠ []) :
    (parseSeedModule c (headerBindings c header) fns).map renderBody = fns.map (specBody c header) := by
  have hpf : parseFunctions c (headerBindings c header) fns = fns.map (parseFunction c header) :=
    parseFunctions_map c fns _ hnoimp
  have hrender : ∀ body ∈ fns, renderBody (parseFunction c header body) = specBody c header body :=
    fun body hb => C24_roundtrip_parse_seed_module c hr hca header body (hstable body hb) (hadm body hb)
  have hall : collect (fns.map (parseFunction c header)) = fns.map (parseFunction c header) := by
    apply List.filter_eq_self.mpr
    intro tc htc
    obtain ⟨body, hb, rfl⟩ := List.mem_map.mp htc
    have hrb := hrender body hb
    cases hpf' : parseFunction c header body with
    | nil =>
      rw [hpf'] at hrb
      exact absurd hrb.symm (hne body hb)
    | cons _ _ => rfl
  unfold parseSeedModule
  rw [hpf, hall, List.map_map]
  exact List.map_congr_left (fun body hb => hrender body hb)

/-- number of returned test cases = number of exported test functions -/
theorem C24_one_test_case_per_function (c : Cfg) (hr : Repaired c) (hca : c.createAssertions = true)
    (header : List Small) (fns : List (List Line))
    (hnoimp : ∀ body ∈ fns, ∀ s, Line.small s ∈ body → importBindings c s = none)
    (hstable : ∀ body ∈ fns, (normLines c [] (specBody c header body)).2 = specBody c header body)
    (hadm : ∀ body ∈ fns, Adm c c.ambient [] (specBody c header body))
    (hne : ∀ body ∈ fns, specBody c header body ≠ []) :
    (parseSeedModule c (headerBindings c header) fns).length = fns.length := by
  have := congrArg List.length (C24_roundtrip_module c hr hca header fns hnoimp hstable hadm hne)
  simpa using this

/-- `var_0 = m_.next_id()` / `assert var_0 == n`: the same call traced at different module states -/
def idBody (n : Nat) : List Line :=
  [ .small (.assign [.name "var_0"] (.call (.attr (.name "m_") "next_id") [])),
    .small (.assert_ (.cmp (.name "var_0") .eq (.const (.int n)))) ]

theorem idBody_adm2 : Adm demoCfg demoCfg.ambient [] (idBody 2) := by
  refine .assign (by decide) (by decide) ?_
  refine .lifted (var := "var_0") (a := .object ["var_0"] (.int 2)) (by rfl) (by decide) (by rfl) ?_
  exact .nil

theorem idBody_adm6 : Adm demoCfg demoCfg.ambient [] (idBody 6) := by
  refine .assign (by decide) (by decide) ?_
  refine .lifted (var := "var_0") (a := .object ["var_0"] (.int 6)) (by rfl) (by decide) (by rfl) ?_
  exact .nil

theorem forall_mem4 {α : Type} {P : α → Prop} {a b c d : α} (ha : P a) (hb : P b) (hc : P c) (hd : P d) :
    ∀ x ∈ [a, b, c, d], P x := by
  intro x hx
  simp only [List.mem_cons, List.not_mem_nil, or_false] at hx
  rcases hx with rfl | rfl | rfl | rfl <;> assumption

theorem demoBody_noimport : ∀ s, Line.small s ∈ demoBody → importBindings demoCfg s = none := by
  intro s hs
  simp [demoBody] at hs
  rcases hs with rfl | rfl | rfl | rfl | rfl | rfl | rfl | rfl <;> rfl

theorem idBody_noimport (n : Nat) : ∀ s, Line.small s ∈ idBody n → importBindings demoCfg s = none := by
  intro s hs
  simp [idBody] at hs
  rcases hs with rfl | rfl <;> rfl

/-- hypotheses of `C24_roundtrip_module` hold on a file with a clone and a same-statements /
different-assertions pair: four functions in, four test cases out, each rendering to its function -/
example : (parseSeedModule demoCfg (headerBindings demoCfg []) [demoBody, idBody 2, idBody 6, demoBody]).map
    renderBody = [demoBody, idBody 2, idBody 6, demoBody] := by
  have s1 : specBody demoCfg [] demoBody = demoBody := by rfl
  have s2 : specBody demoCfg [] (idBody 2) = idBody 2 := by rfl
  have s3 : specBody demoCfg [] (idBody 6) = idBody 6 := by rfl
  have h := C24_roundtrip_module demoCfg ⟨rfl, rfl, rfl⟩ rfl [] [demoBody, idBody 2, idBody 6, demoBody]
    (forall_mem4 demoBody_noimport (idBody_noimport 2) (idBody_noimport 6) demoBody_noimport)
    (forall_mem4 (by rfl) (by rfl) (by rfl) (by rfl))
    (forall_mem4 (by rw [s1]; exact demo_adm) (by rw [s2]; exact idBody_adm2) (by rw [s3]; exact idBody_adm6)
      (by rw [s1]; exact demo_adm))
    (forall_mem4 (by rw [s1]; simp [demoBody]) (by rw [s2]; simp [idBody]) (by rw [s3]; simp [idBody])
      (by rw [s1]; simp [demoBody]))
  rw [h]
  simp only [List.map_cons, List.map_nil, s1, s2, s3]

/-- **De-duplicating the imported test cases by their statements breaks the property** (the class of
change `elif testcase in testcases: continue`, `TestCase.__eq__` comparing `to_code()` = statements
without assertions): for ANY notion of "same" that holds for test cases with equal statement nodes,
(1) the second of two functions with the same statements and different assertions gets no test
case, (2) a clone of an earlier function gets none — while the code's loop keeps all of them. -/
theorem C24_dedup_cex (same : List PStmt → List PStmt → Bool)
    (hsame : ∀ a b : List PStmt, a.map (·.node) = b.map (·.node) → same a b = true) :
    (collectDedup same [] (parseFunctions demoCfg [] [idBody 2, idBody 6])).length = 1 ∧
    (collectDedup same [] (parseFunctions demoCfg [] [demoBody, demoBody])).length = 1 ∧
    (collect (parseFunctions demoCfg [] [idBody 2, idBody 6])).length = 2 ∧
    (collect (parseFunctions demoCfg [] [demoBody, demoBody])).length = 2 := by
  have h1 : same (deserialize demoCfg (idBody 6)) (deserialize demoCfg (idBody 2)) = true :=
    hsame _ _ (by rfl)
  have h2 : same (deserialize demoCfg demoBody) (deserialize demoCfg demoBody) = true := hsame _ _ rfl
  have e1 : (deserialize demoCfg (idBody 2)).isEmpty = false := by decide
  have e2 : (deserialize demoCfg (idBody 6)).isEmpty = false := by decide
  have e3 : (deserialize demoCfg demoBody).isEmpty = false := by decide
  have n1 : (normLines demoCfg [] (normLines demoCfg [] (idBody 2)).2).2 = idBody 2 := by rfl
  have n2 : (normLines demoCfg [] (normLines demoCfg [] (idBody 6)).2).2 = idBody 6 := by rfl
  have n3 : (normLines demoCfg [] (normLines demoCfg [] demoBody).2).2 = demoBody := by rfl
  have b1 : (normLines demoCfg [] (idBody 2)).1 = [] := by rfl
  have b3 : (normLines demoCfg [] demoBody).1 = [] := by rfl
  refine ⟨?_, ?_, ?_, ?_⟩
  · simp [parseFunctions, collectDedup, n1, n2, b1, e1, e2, h1]
  · simp [parseFunctions, collectDedup, n3, b3, e3, h2]
  · simp [parseFunctions, collect, n1, n2, b1, e1, e2]
  · simp [parseFunctions, collect, n3, b3, e3]

end PynguinModel.SeedRoundTrip
