import PynguinModel.Model.TracerState
/-!
# C05 — Tracing keeps recording after an exception inside traced code

Property theorems only.  `exec .repaired` is the tracer after the `try/finally` repair of
`temporarily_disable`/`temporarily_enable`; `ref` is the specification: what is recorded depends only
on the lexical `with temporarily_disable()/temporarily_enable()` context, never on which exceptions
were raised and caught earlier.  `C05_full` shows, for every event list (nested `with` blocks,
`try/except`, raising callbacks), that the flag-based tracer records exactly what the specification
records and leaves the flag as it found it.  The remaining theorems are the readable corollaries
named in the property statement; `C05_legacy_cex` shows that the code before the repair violates it.
-/
namespace PynguinModel.TracerState

mutual
/-- One event: the repaired tracer behaves like the flag-free specification run in the context
given by the current value of the flag, and restores the flag. -/
theorem exec_refines (s : State) : (e : Ev) →
    exec .repaired s e = (⟨s.enabled, (ref s.enabled s.trace e).1⟩, (ref s.enabled s.trace e).2)
  | .line l => by
    cases s with | mk en t => cases en <;> simp [exec, ref]
  | .pred p raises => by
    cases s with | mk en t => cases en <;> cases raises <;> simp [exec, ref]
  | .withDisabled body => by
    cases s with
    | mk en t =>
      cases en
      · simpa [exec, ref] using execList_refines ⟨false, t⟩ body
      · have h := execList_refines ⟨false, t⟩ body
        simp only [exec, ref, Bool.not_true, Bool.false_eq_true, if_false]
        rw [h]
  | .withEnabled body => by
    cases s with
    | mk en t =>
      cases en
      · have h := execList_refines ⟨true, t⟩ body
        simp only [exec, ref, Bool.false_eq_true, if_false]
        rw [h]
      · simpa [exec, ref] using execList_refines ⟨true, t⟩ body
  | .tryExcept body => by
    simp only [exec, ref]
    rw [execList_refines s body]
  | .raise => by simp [exec, ref]

theorem execList_refines (s : State) : (es : List Ev) →
    execList .repaired s es
      = (⟨s.enabled, (refList s.enabled s.trace es).1⟩, (refList s.enabled s.trace es).2)
  | [] => by simp [execList, refList]
  | e :: es => by
    simp only [execList, refList]
    rw [exec_refines s e]
    by_cases h : (ref s.enabled s.trace e).2 = true
    · simp [h]
    · simp only [h, Bool.false_eq_true, if_false]
      rw [execList_refines _ es]
end

/-- **C05, full statement.**  For every event list and every start state: the repaired tracer
records exactly what the lexical specification records (so nothing executed after a caught
exception is lost) and the enabled flag at the end equals the flag at the start. -/
theorem C05_full (s : State) (es : List Ev) :
    (execList .repaired s es).1.trace = (refList s.enabled s.trace es).1 ∧
    (execList .repaired s es).2 = (refList s.enabled s.trace es).2 ∧
    (execList .repaired s es).1.enabled = s.enabled := by
  rw [execList_refines]; exact ⟨rfl, rfl, rfl⟩

/-- The flag is restored by every single event, raising or not. -/
theorem C05_enabled_restored (s : State) (e : Ev) : (exec .repaired s e).1.enabled = s.enabled := by
  rw [exec_refines]

/-- The flag at the end of each statement of a test case equals the flag at its start, whatever the
observers and the statement do (including raising out of the statement or out of an observer). -/
theorem C05_statement_restores_flag (s : State) (st : Stmt) :
    (execList .repaired s st.events).1.enabled = s.enabled :=
  (C05_full s st.events).2.2

/-- …and so for every sequence of statements. -/
theorem C05_statements_restore_flag (s : State) (sts : List Stmt) :
    (execList .repaired s (sts.flatMap Stmt.events)).1.enabled = s.enabled :=
  (C05_full s _).2.2

/-! ### Flat histories: every callback after a caught exception is recorded -/

/-- The lines / predicate evaluations a flat script of callbacks should record. -/
def expectedTrace (t : Trace) : List Ev → Trace
  | [] => t
  | .line l :: cbs => expectedTrace (t.addLine l) cbs
  | .pred p false :: cbs => expectedTrace (t.bump p) cbs
  | _ :: cbs => expectedTrace t cbs

theorem refList_caughtScript (t : Trace) (cbs : List Ev) (h : ∀ c ∈ cbs, c.isCallback = true) :
    refList true t (caughtScript cbs) = (expectedTrace t cbs, false) := by
  induction cbs generalizing t with
  | nil => simp [caughtScript, refList, expectedTrace]
  | cons c cbs ih =>
    have hc := h c (by simp)
    have ht : ∀ c ∈ cbs, c.isCallback = true := fun c hc => h c (by simp [hc])
    have ih' := fun t => ih t ht
    simp only [caughtScript, List.map_cons] at ih' ⊢
    cases c with
    | line l => simp [refList, ref, expectedTrace, ih']
    | pred p r => cases r <;> simp [refList, ref, expectedTrace, ih']
    | withDisabled b => simp [Ev.isCallback] at hc
    | withEnabled b => simp [Ev.isCallback] at hc
    | tryExcept b => simp [Ev.isCallback] at hc
    | raise => simp [Ev.isCallback] at hc

/-- **Every line and predicate callback is recorded, whatever raised and was caught before it.**
For every script of callbacks made while tracing is enabled, in which the module under test catches
each exception a callback raises, the trace holds exactly the expected lines and predicate counts,
tracing is still enabled and no exception escapes. -/
theorem C05_records_after_caught_exceptions (t : Trace) (cbs : List Ev)
    (h : ∀ c ∈ cbs, c.isCallback = true) :
    execList .repaired ⟨true, t⟩ (caughtScript cbs) = (⟨true, expectedTrace t cbs⟩, false) := by
  rw [execList_refines, refList_caughtScript t cbs h]

theorem mem_addLine (ls : List Nat) (l x : Nat) : x ∈ addLine ls l ↔ x ∈ ls ∨ x = l := by
  unfold addLine
  by_cases h : l ∈ ls
  · simp only [h, if_true]
    constructor
    · exact Or.inl
    · rintro (h' | rfl) <;> assumption
  · simp [h]

theorem mem_expectedTrace_lines (t : Trace) (cbs : List Ev) (x : Nat) :
    x ∈ (expectedTrace t cbs).lines ↔ x ∈ t.lines ∨ Ev.line x ∈ cbs := by
  induction cbs generalizing t with
  | nil => simp [expectedTrace]
  | cons c cbs ih =>
    cases c with
    | line l =>
      simp only [expectedTrace, ih, Trace.addLine, mem_addLine, List.mem_cons, Ev.line.injEq]
      constructor
      · rintro ((h | h) | h)
        · exact Or.inl h
        · exact Or.inr (Or.inl h)
        · exact Or.inr (Or.inr h)
      · rintro (h | h | h)
        · exact Or.inl (Or.inl h)
        · exact Or.inl (Or.inr h)
        · exact Or.inr h
    | pred p r => cases r <;> simp [expectedTrace, ih, Trace.bump]
    | withDisabled b => simp [expectedTrace, ih]
    | withEnabled b => simp [expectedTrace, ih]
    | tryExcept b => simp [expectedTrace, ih]
    | raise => simp [expectedTrace, ih]

/-- In particular: a line visited anywhere in such a script — e.g. after a comparison that raised
inside the tracer and was caught by the module under test — is covered at the end. -/
theorem C05_line_after_exception_is_covered (t : Trace) (cbs : List Ev)
    (h : ∀ c ∈ cbs, c.isCallback = true) (l : Nat) (hl : Ev.line l ∈ cbs) :
    l ∈ (execList .repaired ⟨true, t⟩ (caughtScript cbs)).1.trace.lines := by
  rw [C05_records_after_caught_exceptions t cbs h]
  exact (mem_expectedTrace_lines t cbs l).2 (Or.inr hl)

/-! ### The code before the repair violates the property -/

/-- The full statement, for a variant of the code. -/
def C05_holds (v : Variant) : Prop :=
  ∀ (s : State) (es : List Ev),
    (execList v s es).1.trace = (refList s.enabled s.trace es).1 ∧
    (execList v s es).1.enabled = s.enabled

theorem C05_holds_repaired : C05_holds .repaired :=
  fun s es => ⟨(C05_full s es).1, (C05_full s es).2.2⟩

/-- Witness (replayed on the real tracer by the harness): a predicate whose comparison raises, the
exception is caught by the module under test, then line 7 is visited.  Without `try/finally` the
tracer stays disabled and line 7 is lost. -/
theorem C05_legacy_cex :
    execList .legacy ⟨true, ⟨[], []⟩⟩ [.tryExcept [.pred 0 true], .line 7]
      = (⟨false, ⟨[], []⟩⟩, false) ∧
    refList true ⟨[], []⟩ [.tryExcept [.pred 0 true], .line 7] = (⟨[7], []⟩, false) := by
  decide

theorem C05_legacy_violates : ¬ C05_holds .legacy := by
  intro h
  have := (h ⟨true, ⟨[], []⟩⟩ [.tryExcept [.pred 0 true], .line 7]).2
  revert this
  decide

/-! ### Non-vacuity -/

example : execList .repaired ⟨true, ⟨[], []⟩⟩
    ((Stmt.mk [.line 1] [.tryExcept [.pred 0 true], .line 7, .pred 3 false, .raise, .line 8]
        [.line 2, .withEnabled [.pred 4 false]]).events ++ [.line 9])
    = (⟨true, ⟨[7, 9], [(3, 1), (4, 1)]⟩⟩, false) := by decide

example : ∀ c ∈ [Ev.pred 0 true, .line 7, .pred 1 false, .pred 1 false],
    c.isCallback = true := by decide

example : execList .repaired ⟨true, ⟨[], []⟩⟩
    (caughtScript [.pred 0 true, .line 7, .pred 1 false, .pred 1 false])
    = (⟨true, ⟨[7], [(1, 2)]⟩⟩, false) := by decide

end PynguinModel.TracerState
