import PynguinModel.Model.TracerState
/-!
# C05 — Tracing keeps recording after an exception inside traced code

Property theorems only.  `exec .repaired` is the tracer of the tree (`try/finally` in
`temporarily_disable`/`temporarily_enable`, no flag handling in the checked-coverage callbacks);
`ref` is the specification: what is recorded depends only on the lexical
`with temporarily_disable()/temporarily_enable()` context, never on which exceptions — of whatever
kind, `Exception` or bare `BaseException` — were raised and caught earlier.  `C05_full` shows, for
every event list (nested `with` blocks, `try/except Exception|BaseException`, predicate callbacks whose
operand code raises, attribute-access callbacks whose lookup raises, the other checked-coverage
callbacks), that the flag-based tracer records exactly what the specification records and leaves the
flag as it found it.  The remaining theorems are the readable corollaries named in the property
statement; the `…_cex` theorems show that the code before the repair, and a context manager that
restores in `except Exception:` only, violate it.
-/
namespace PynguinModel.TracerState

theorem restores_repaired (r : Option Exc) : Variant.restores .repaired r = true := by
  cases r <;> rfl

mutual
/-- One event: the tracer behaves like the flag-free specification run in the context given by the
current value of the flag, and restores the flag. -/
theorem exec_refines (s : State) : (e : Ev) →
    exec .repaired s e = (⟨s.enabled, (ref s.enabled s.trace e).1⟩, (ref s.enabled s.trace e).2)
  | .line l => by
    cases s with | mk en t => cases en <;> simp [exec, ref]
  | .codeObj c => by
    cases s with | mk en t => cases en <;> simp [exec, ref]
  | .instr i => by
    cases s with | mk en t => cases en <;> simp [exec, ref]
  | .pred p body => by
    cases s with
    | mk en t =>
      cases en
      · simp [exec, ref]
      · have h := execList_refines ⟨false, t⟩ body
        simp only [exec, ref, Bool.not_true, Bool.false_eq_true, if_false, if_true]
        rw [h]
        cases hr : (refList false t body).2 <;>
          simp [predFinish, refPredFinish, restore, restores_repaired, hr]
  | .attr i body => by
    cases s with
    | mk en t =>
      cases en
      · simp [exec, ref]
      · have h := execList_refines ⟨true, t⟩ body
        simp only [exec, ref, Bool.not_true, Bool.false_eq_true, if_false, if_true]
        rw [h]
        cases hr : (refList true t body).2 <;> simp [attrFinish, refAttrFinish, hr]
  | .withDisabled body => by
    cases s with
    | mk en t =>
      cases en
      · simpa [exec, ref] using execList_refines ⟨false, t⟩ body
      · have h := execList_refines ⟨false, t⟩ body
        simp only [exec, ref, Bool.not_true, Bool.false_eq_true, if_false]
        rw [h]
        simp [restore, restores_repaired]
  | .withEnabled body => by
    cases s with
    | mk en t =>
      cases en
      · have h := execList_refines ⟨true, t⟩ body
        simp only [exec, ref, Bool.false_eq_true, if_false]
        rw [h]
        simp [restore, restores_repaired]
      · simpa [exec, ref] using execList_refines ⟨true, t⟩ body
  | .tryExcept c body => by
    simp only [exec, ref]
    rw [execList_refines s body]
    cases hr : (refList s.enabled s.trace body).2 with
    | none => simp [handle, hr]
    | some e => by_cases hc : c.catches e = true <;> simp [handle, hr, hc]
  | .raise e => by simp [exec, ref]

theorem execList_refines (s : State) : (es : List Ev) →
    execList .repaired s es
      = (⟨s.enabled, (refList s.enabled s.trace es).1⟩, (refList s.enabled s.trace es).2)
  | [] => by simp [execList, refList]
  | e :: es => by
    simp only [execList, refList]
    rw [exec_refines s e]
    by_cases h : (ref s.enabled s.trace e).2.isSome = true
    · simp [h]
    · simp only [h, Bool.false_eq_true, if_false]
      rw [execList_refines _ es]
end

/-- **C05, full statement.**  For every event list and every start state: the tracer records
exactly what the lexical specification records (so nothing executed after a caught exception is
lost), the same exception (if any) propagates, and the enabled flag at the end equals the flag at
the start. -/
theorem C05_full (s : State) (es : List Ev) :
    (execList .repaired s es).1.trace = (refList s.enabled s.trace es).1 ∧
    (execList .repaired s es).2 = (refList s.enabled s.trace es).2 ∧
    (execList .repaired s es).1.enabled = s.enabled := by
  rw [execList_refines]; exact ⟨rfl, rfl, rfl⟩

/-- The flag is restored by every single event, raising or not — in particular by a predicate
callback whose operand code raises a bare `BaseException` and by an attribute-access callback whose
lookup raises. -/
theorem C05_enabled_restored (s : State) (e : Ev) : (exec .repaired s e).1.enabled = s.enabled := by
  rw [exec_refines]

/-- Between any two events of a block (the executor: between the statements of a test case and
between their observer brackets) the flag has the value it had at the start. -/
theorem C05_flag_between_events (s : State) (es : List Ev) :
    ∀ b ∈ flagsAfter .repaired s es, b = s.enabled := by
  induction es generalizing s with
  | nil => simp [flagsAfter]
  | cons e es ih =>
    intro b hb
    simp only [flagsAfter, List.mem_cons] at hb
    have he := C05_enabled_restored s e
    rcases hb with hb | hb
    · rw [hb, he]
    · by_cases hr : (exec .repaired s e).2.isSome = true
      · simp [hr] at hb
      · simp only [hr, Bool.false_eq_true, if_false] at hb
        rw [ih _ b hb, he]

/-- The flag at the end of each statement of a test case equals the flag at its start, whatever the
observers and the statement do (including raising out of the statement or out of an observer). -/
theorem C05_statement_restores_flag (s : State) (st : Stmt) :
    (execList .repaired s st.events).1.enabled = s.enabled :=
  (C05_full s st.events).2.2

/-- …and so for every sequence of statements. -/
theorem C05_statements_restore_flag (s : State) (sts : List Stmt) :
    (execList .repaired s (sts.flatMap Stmt.events)).1.enabled = s.enabled :=
  (C05_full s _).2.2

/-! ### Flat histories: every callback after a caught exception is recorded -/

/-- What a flat script of callbacks should record. -/
def expectedTrace (t : Trace) : List Ev → Trace
  | [] => t
  | .line l :: cbs => expectedTrace (t.addLine l) cbs
  | .codeObj c :: cbs => expectedTrace (t.addCodeObj c) cbs
  | .instr i :: cbs => expectedTrace (t.addInstr i) cbs
  | .pred p [] :: cbs => expectedTrace (t.bump p) cbs
  | .attr i [] :: cbs => expectedTrace (t.addInstr i) cbs
  | _ :: cbs => expectedTrace t cbs

theorem simpleBody_cases (c : Catch) (body : List Ev) (h : simpleBody c body = true) :
    body = [] ∨ ∃ e, body = [.raise e] ∧ c.catches e = true := by
  unfold simpleBody at h
  split at h
  · exact Or.inl rfl
  · exact Or.inr ⟨_, rfl, h⟩
  · cases h

theorem refList_caughtScript (c : Catch) (t : Trace) (cbs : List Ev)
    (h : ∀ cb ∈ cbs, cb.isCallback c = true) :
    refList true t (caughtScript c cbs) = (expectedTrace t cbs, none) := by
  induction cbs generalizing t with
  | nil => simp [caughtScript, refList, expectedTrace]
  | cons cb cbs ih =>
    have hc := h cb (by simp)
    have ht : ∀ cb ∈ cbs, cb.isCallback c = true := fun cb hcb => h cb (by simp [hcb])
    have ih' := fun t => ih t ht
    simp only [caughtScript, List.map_cons] at ih' ⊢
    cases cb with
    | line l => simp [refList, ref, handle, expectedTrace, ih']
    | codeObj k => simp [refList, ref, handle, expectedTrace, ih']
    | instr i => simp [refList, ref, handle, expectedTrace, ih']
    | pred p body =>
      rcases simpleBody_cases c body hc with rfl | ⟨e, rfl, he⟩
      · simp [refList, ref, handle, refPredFinish, expectedTrace, ih']
      · simp [refList, ref, handle, refPredFinish, expectedTrace, ih', he]
    | attr i body =>
      rcases simpleBody_cases c body hc with rfl | ⟨e, rfl, he⟩
      · simp [refList, ref, handle, refAttrFinish, expectedTrace, ih']
      · simp [refList, ref, handle, refAttrFinish, expectedTrace, ih', he]
    | withDisabled b => simp [Ev.isCallback] at hc
    | withEnabled b => simp [Ev.isCallback] at hc
    | tryExcept c' b => simp [Ev.isCallback] at hc
    | raise e => simp [Ev.isCallback] at hc

/-- **Every callback is recorded, whatever raised and was caught before it.**  For every script of
callbacks (line, code object, instruction, predicate, attribute access) made while tracing is
enabled, in which the module under test catches — with `except Exception` or `except BaseException`,
whichever fits — each exception that a predicate's operands or an attribute lookup raise, the trace
holds exactly the expected lines, predicate counts, instructions and code objects, tracing is still
enabled and no exception escapes. -/
theorem C05_records_after_caught_exceptions (c : Catch) (t : Trace) (cbs : List Ev)
    (h : ∀ cb ∈ cbs, cb.isCallback c = true) :
    execList .repaired ⟨true, t⟩ (caughtScript c cbs) = (⟨true, expectedTrace t cbs⟩, none) := by
  rw [execList_refines, refList_caughtScript c t cbs h]

theorem mem_addLine (ls : List Nat) (l x : Nat) : x ∈ addLine ls l ↔ x ∈ ls ∨ x = l := by
  unfold addLine
  by_cases h : l ∈ ls
  · simp only [h, if_true]
    constructor
    · exact Or.inl
    · rintro (h' | rfl) <;> assumption
  · simp [h]

theorem mem_expectedTrace_lines (t : Trace) (cbs : List Ev) (x : Nat) :
    x ∈ (expectedTrace t cbs).lines ↔ x ∈ t.lines ∨ Ev.line x ∈ cbs := by
  induction cbs generalizing t with
  | nil => simp [expectedTrace]
  | cons cb cbs ih =>
    cases cb with
    | line l =>
      simp only [expectedTrace, ih, Trace.addLine, mem_addLine, List.mem_cons, Ev.line.injEq]
      constructor
      · rintro ((h | h) | h)
        · exact Or.inl h
        · exact Or.inr (Or.inl h)
        · exact Or.inr (Or.inr h)
      · rintro (h | h | h)
        · exact Or.inl (Or.inl h)
        · exact Or.inl (Or.inr h)
        · exact Or.inr h
    | codeObj k => simp [expectedTrace, ih, Trace.addCodeObj]
    | instr i => simp [expectedTrace, ih, Trace.addInstr]
    | pred p body => cases body <;> simp [expectedTrace, ih, Trace.bump]
    | attr i body => cases body <;> simp [expectedTrace, ih, Trace.addInstr]
    | withDisabled b => simp [expectedTrace, ih]
    | withEnabled b => simp [expectedTrace, ih]
    | tryExcept c b => simp [expectedTrace, ih]
    | raise e => simp [expectedTrace, ih]

theorem instrs_subset_expectedTrace (t : Trace) (cbs : List Ev) (x : Nat) (hx : x ∈ t.instrs) :
    x ∈ (expectedTrace t cbs).instrs := by
  induction cbs generalizing t with
  | nil => simpa [expectedTrace] using hx
  | cons cb cbs ih =>
    cases cb with
    | line l => exact ih _ (by simpa [Trace.addLine] using hx)
    | codeObj k => exact ih _ (by simpa [Trace.addCodeObj] using hx)
    | instr i => exact ih _ (by simp [Trace.addInstr, hx])
    | pred p body =>
      cases body with
      | nil => exact ih _ (by simpa [Trace.bump] using hx)
      | cons b bs => simpa [expectedTrace] using ih _ hx
    | attr i body =>
      cases body with
      | nil => exact ih _ (by simp [Trace.addInstr, hx])
      | cons b bs => simpa [expectedTrace] using ih _ hx
    | withDisabled b => simpa [expectedTrace] using ih _ hx
    | withEnabled b => simpa [expectedTrace] using ih _ hx
    | tryExcept c b => simpa [expectedTrace] using ih _ hx
    | raise e => simpa [expectedTrace] using ih _ hx

theorem mem_expectedTrace_instrs (t : Trace) (cbs : List Ev) (i : Nat) (hi : Ev.instr i ∈ cbs) :
    i ∈ (expectedTrace t cbs).instrs := by
  induction cbs generalizing t with
  | nil => cases hi
  | cons cb cbs ih =>
    rcases List.mem_cons.1 hi with rfl | hi'
    · exact instrs_subset_expectedTrace _ cbs i (by simp [Trace.addInstr])
    · cases cb with
      | line l => exact ih _ hi'
      | codeObj k => exact ih _ hi'
      | instr j => exact ih _ hi'
      | pred p body =>
        cases body with
        | nil => exact ih _ hi'
        | cons b bs => simpa [expectedTrace] using ih t hi'
      | attr j body =>
        cases body with
        | nil => exact ih _ hi'
        | cons b bs => simpa [expectedTrace] using ih t hi'
      | withDisabled b => simpa [expectedTrace] using ih t hi'
      | withEnabled b => simpa [expectedTrace] using ih t hi'
      | tryExcept c b => simpa [expectedTrace] using ih t hi'
      | raise e => simpa [expectedTrace] using ih t hi'

/-- In particular: a line visited anywhere in such a script — e.g. after a comparison that raised
`SystemExit` inside the tracer, or an attribute lookup that raised `AttributeError`, and was caught
by the module under test — is covered at the end. -/
theorem C05_line_after_exception_is_covered (c : Catch) (t : Trace) (cbs : List Ev)
    (h : ∀ cb ∈ cbs, cb.isCallback c = true) (l : Nat) (hl : Ev.line l ∈ cbs) :
    l ∈ (execList .repaired ⟨true, t⟩ (caughtScript c cbs)).1.trace.lines := by
  rw [C05_records_after_caught_exceptions c t cbs h]
  exact (mem_expectedTrace_lines t cbs l).2 (Or.inr hl)

/-- …and an instruction reported anywhere in such a script is in `executed_instructions`. -/
theorem C05_instruction_after_exception_is_recorded (c : Catch) (t : Trace) (cbs : List Ev)
    (h : ∀ cb ∈ cbs, cb.isCallback c = true) (i : Nat) (hi : Ev.instr i ∈ cbs) :
    i ∈ (execList .repaired ⟨true, t⟩ (caughtScript c cbs)).1.trace.instrs := by
  rw [C05_records_after_caught_exceptions c t cbs h]
  exact mem_expectedTrace_instrs t cbs i hi

/-! ### Other ways of writing the context managers violate the property -/

/-- The full statement, for a variant of the code. -/
def C05_holds (v : Variant) : Prop :=
  ∀ (s : State) (es : List Ev),
    (execList v s es).1.trace = (refList s.enabled s.trace es).1 ∧
    (execList v s es).1.enabled = s.enabled

theorem C05_holds_repaired : C05_holds .repaired :=
  fun s es => ⟨(C05_full s es).1, (C05_full s es).2.2⟩

/-- Witness (replayed on the real tracer by the harness): a predicate whose comparison raises, the
exception is caught by the module under test, then line 7 is visited.  Without `try/finally` the
tracer stays disabled and line 7 is lost. -/
theorem C05_legacy_cex :
    execList .legacy ⟨true, ⟨[], [], [], []⟩⟩
        [.tryExcept .exception [.pred 0 [.raise .exception]], .line 7]
      = (⟨false, ⟨[], [], [], []⟩⟩, none) ∧
    refList true ⟨[], [], [], []⟩ [.tryExcept .exception [.pred 0 [.raise .exception]], .line 7]
      = (⟨[7], [], [], []⟩, none) := by
  decide

theorem C05_legacy_violates : ¬ C05_holds .legacy := by
  intro h
  have := (h ⟨true, ⟨[], [], [], []⟩⟩
    [.tryExcept .exception [.pred 0 [.raise .exception]], .line 7]).2
  revert this
  decide

/-- Restoring in `except Exception:` instead of `finally:` is not enough: a comparison operator
that raises `SystemExit`, caught by the module with `except BaseException` (or `except SystemExit`),
leaves the tracer disabled; line 7 and instruction 3 are lost. -/
theorem C05_exceptionOnly_cex :
    execList .exceptionOnly ⟨true, ⟨[], [], [], []⟩⟩
        [.tryExcept .base [.pred 0 [.raise .base]], .line 7, .instr 3]
      = (⟨false, ⟨[], [], [], []⟩⟩, none) ∧
    refList true ⟨[], [], [], []⟩ [.tryExcept .base [.pred 0 [.raise .base]], .line 7, .instr 3]
      = (⟨[7], [], [3], []⟩, none) := by
  decide

theorem C05_exceptionOnly_violates : ¬ C05_holds .exceptionOnly := by
  intro h
  have := (h ⟨true, ⟨[], [], [], []⟩⟩ [.tryExcept .base [.pred 0 [.raise .base]], .line 7]).2
  revert this
  decide

/-! ### Non-vacuity -/

example : execList .repaired ⟨true, ⟨[], [], [], []⟩⟩
    ((Stmt.mk [.line 1]
        [.tryExcept .exception [.pred 0 [.line 5, .raise .exception]], .line 7, .pred 3 [],
         .tryExcept .base [.attr 2 [.line 6, .raise .base]], .instr 4, .raise .base, .line 8]
        [.line 2, .withEnabled [.pred 4 []]]).events ++ [.line 9])
    = (⟨true, ⟨[7, 6, 9], [(3, 1), (4, 1)], [4], []⟩⟩, none) := by decide

example : ∀ cb ∈ [Ev.pred 0 [.raise .base], .line 7, .attr 5 [.raise .exception], .instr 2,
    .pred 1 [], .pred 1 [], .attr 6 [], .codeObj 0], cb.isCallback .base = true := by decide

example : execList .repaired ⟨true, ⟨[], [], [], []⟩⟩
    (caughtScript .base [.pred 0 [.raise .base], .line 7, .attr 5 [.raise .exception], .instr 2,
      .pred 1 [], .pred 1 [], .attr 6 [], .codeObj 0])
    = (⟨true, ⟨[7], [(1, 2)], [2, 6], [0]⟩⟩, none) := by decide

/-- an `except Exception` handler does not stop a `BaseException`: it propagates to the executor's
wrapper, the flag is restored on the way and the next statement is recorded -/
example : execList .repaired ⟨true, ⟨[], [], [], []⟩⟩
    [.tryExcept .base [.tryExcept .exception [.pred 0 [.raise .base]], .line 1], .line 2]
    = (⟨true, ⟨[2], [], [], []⟩⟩, none) := by decide

end PynguinModel.TracerState
