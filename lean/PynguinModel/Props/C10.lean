import PynguinModel.Lemmas.Fitness
/-!
# C10 — Fitness values, coverage values and covered verdicts agree

Property theorems only.  All statements are about the model of `Model/Fitness.lean`, for every
registry, every trace and every exclusion set (no size bounds).  Hypotheses (defined in
`Lemmas/Fitness.lean`):

* `Shape t`   — invariants of the `ExecutionTrace` data structure (unique keys/elements, the three
  predicate dicts share their key set, distances non-negative — the last one is C04's guarantee);
* `RWF r`     — `SubjectProperties` dicts have unique keys, predicates belong to registered code;
* `Valid r t` — `validate_execution_trace` (+ checked lines are registered lines);
* `GoalHyp r t` — instrumentation order (code-object entry precedes its predicates), CFG diameter
  ≥ 1 for code objects with predicates, one predicate per CDG node (`register_predicate` asserts it).

`branchIsCovered` models the **repaired** `compute_branch_distance_fitness_is_covered`
(`proposed_fixes/C10-is-covered-items.diff`); `orig_is_covered_cex` shows that the unchanged code
(`branchIsCoveredOrig`) violates the property.
-/
namespace PynguinModel.Fitness

/-! ### Fitness is finite and non-negative -/

/-- `normalise` never raises on a non-negative float and maps into `[0, 1]`; `0` exactly for `0.0`. -/
theorem normalise_bounds {d : Dist} (h : d.nonneg = true) :
    ∃ v, normalise d = .ok v ∧ 0 ≤ v ∧ v ≤ 1 ∧ (v = 0 ↔ d.isZero = true) :=
  ⟨norm d, normalise_of_nonneg h, norm_nonneg h, norm_le_one h, norm_eq_zero_iff h⟩

/-- `compute_branch_distance_fitness` raises nothing and returns a finite value in
`[0, #branch-less code objects + 2·#predicates]`, for all exclusion sets. -/
theorem branch_fitness_nonneg_finite {t : Trace} (h : Shape t) (r : Registry) (exCode exT exF : List Nat) :
    ∃ v : Rat, branchFitness t r exCode exT exF = .ok v ∧ 0 ≤ v ∧
      v ≤ ((r.branchless.length + 2 * r.preds.length : Nat) : Rat) := by
  refine ⟨_, branchFitness_eq h r exCode exT exF, ?_, ?_⟩
  · unfold branchFitnessPure
    exact Rat.add_nonneg Rat.natCast_nonneg (sum_map_nonneg (fun p _ => predTermPure_nonneg h exT exF p))
  · unfold branchFitnessPure codeObjectsMissing
    have h1 : ((List.countP (fun c => decide (c ∉ t.code ∧ c ∉ exCode)) r.branchless : Nat) : Rat)
        ≤ ((r.branchless.length : Nat) : Rat) := Rat.natCast_le_natCast.2 List.countP_le_length
    have h2 := sum_map_le_length (l := r.predIds) (g := predTermPure t exT exF) (b := 2)
      (fun p _ => predTermPure_le_two h exT exF p)
    rw [predIds_length] at h2
    have : ((r.branchless.length + 2 * r.preds.length : Nat) : Rat)
        = ((r.branchless.length : Nat) : Rat) + ((r.preds.length : Nat) : Rat) * 2 := by
      simp [Rat.mul_comm]
    rw [this]; grind

/-- `LineTestSuiteFitnessFunction` / `StatementCheckedTestSuiteFitnessFunction`: non-negative. -/
theorem line_fitness_nonneg {r : Registry} {t : Trace} (hr : RWF r) (h : Shape t) (hv : Valid r t) :
    0 ≤ lineSuiteFitness t r ∧ 0 ≤ checkedSuiteFitness t r := by
  have a := length_le_of_nodup_subset h.lines_nodup hr.lines_nodup hv.lines_sub
  have b := length_le_of_nodup_subset h.checked_nodup hr.lines_nodup hv.checked_sub
  unfold lineSuiteFitness checkedSuiteFitness; omega

/-! ### Coverage lies in [0, 1] (the `assert` in the code never fires) -/

theorem branch_coverage_in_unit {r : Registry} {t : Trace} (hr : RWF r) (h : Shape t) (hv : Valid r t) :
    ∃ c, branchCoverage t r = .ok c ∧ 0 ≤ c ∧ c ≤ 1 :=
  have hle := branchCovered_le hr h hv
  ⟨_, ratio_eq hle, (ratioPure_bounds hle).1, (ratioPure_bounds hle).2⟩

theorem line_coverage_in_unit {r : Registry} {t : Trace} (hr : RWF r) (h : Shape t) (hv : Valid r t) :
    ∃ c, lineCoverage t r = .ok c ∧ 0 ≤ c ∧ c ≤ 1 :=
  have hle := length_le_of_nodup_subset h.lines_nodup hr.lines_nodup hv.lines_sub
  ⟨_, ratio_eq hle, (ratioPure_bounds hle).1, (ratioPure_bounds hle).2⟩

theorem checked_coverage_in_unit {r : Registry} {t : Trace} (hr : RWF r) (h : Shape t) (hv : Valid r t) :
    ∃ c, checkedCoverage t r = .ok c ∧ 0 ≤ c ∧ c ≤ 1 :=
  have hle := length_le_of_nodup_subset h.checked_nodup hr.lines_nodup hv.checked_sub
  ⟨_, ratio_eq hle, (ratioPure_bounds hle).1, (ratioPure_bounds hle).2⟩

/-! ### A suite is reported covered exactly when its fitness is zero -/

/-- What "fitness zero" means: every non-excluded branch-less code object was executed and every
non-excluded branch has distance 0. -/
theorem branch_fitness_zero_iff {t : Trace} (h : Shape t) (r : Registry) (exCode exT exF : List Nat) :
    branchFitness t r exCode exT exF = .ok 0 ↔
      (∀ c ∈ r.branchless, c ∈ t.code ∨ c ∈ exCode) ∧
      (∀ p ∈ r.predIds, (p ∈ exT ∨ zeroAt t.dT p = true) ∧ (p ∈ exF ∨ zeroAt t.dF p = true)) := by
  rw [branchFitness_eq h]
  have hs := sum_map_nonneg (l := r.predIds) (g := predTermPure t exT exF)
    (fun p _ => predTermPure_nonneg h exT exF p)
  have hz := sum_map_eq_zero_iff (l := r.predIds) (g := predTermPure t exT exF)
    (fun p _ => predTermPure_nonneg h exT exF p)
  have hm : (0 : Rat) ≤ ((codeObjectsMissing t r exCode : Nat) : Rat) := Rat.natCast_nonneg
  have hm0 : ((codeObjectsMissing t r exCode : Nat) : Rat) = 0 ↔ codeObjectsMissing t r exCode = 0 :=
    Rat.natCast_eq_zero_iff
  have hc : codeObjectsMissing t r exCode = 0 ↔ ∀ c ∈ r.branchless, c ∈ t.code ∨ c ∈ exCode := by
    unfold codeObjectsMissing
    rw [List.countP_eq_zero]
    constructor
    · intro h' c hc
      have := h' c hc
      simp only [decide_eq_true_eq] at this
      by_cases h1 : c ∈ t.code
      · exact Or.inl h1
      · by_cases h2 : c ∈ exCode
        · exact Or.inr h2
        · exact absurd ⟨h1, h2⟩ this
    · intro h' c hc
      simp only [decide_eq_true_eq]
      rintro ⟨h1, h2⟩
      rcases h' c hc with h3 | h3
      · exact h1 h3
      · exact h2 h3
  have hp : (∀ p ∈ r.predIds, predTermPure t exT exF p = 0) ↔
      ∀ p ∈ r.predIds, (p ∈ exT ∨ zeroAt t.dT p = true) ∧ (p ∈ exF ∨ zeroAt t.dF p = true) := by
    constructor
    · intro h' p hp; exact (predTermPure_eq_zero_iff h exT exF p).1 (h' p hp)
    · intro h' p hp; exact (predTermPure_eq_zero_iff h exT exF p).2 (h' p hp)
  rw [← hc, ← hp, ← hz, ← hm0]
  unfold branchFitnessPure
  constructor
  · intro h'
    have : ((codeObjectsMissing t r exCode : Nat) : Rat) + (r.predIds.map (predTermPure t exT exF)).sum = 0 := by
      injection h'
    constructor <;> grind
  · rintro ⟨h1, h2⟩; rw [h1, h2, Rat.add_zero]

/-- **C10, suite level (repaired code)**: `compute_branch_distance_fitness_is_covered` is `True`
exactly when `compute_branch_distance_fitness` is `0.0`, for all exclusion sets. -/
theorem suite_covered_iff_fitness_zero {t : Trace} (h : Shape t) (r : Registry) (exCode exT exF : List Nat) :
    branchIsCovered t r exCode exT exF = true ↔ branchFitness t r exCode exT exF = .ok 0 := by
  rw [branch_fitness_zero_iff h]
  unfold branchIsCovered
  simp only [Bool.decide_and, decide_not, List.any_eq_true, Bool.and_eq_true, Bool.not_eq_eq_eq_not,
    Bool.not_true, decide_eq_false_iff_not, Bool.if_false_left, not_exists, not_and, Decidable.not_not,
    List.all_eq_true, Bool.or_eq_true, decide_eq_true_eq]
  constructor
  · rintro ⟨h1, h2⟩
    refine ⟨fun c hc => ?_, h2⟩
    by_cases hx : c ∈ t.code
    · exact Or.inl hx
    · exact Or.inr (h1 c hc hx)
  · rintro ⟨h1, h2⟩
    exact ⟨fun c hc hx => (h1 c hc).resolve_left hx, h2⟩

/-- `ComputationCache._compute_fitness` derives the verdict as `isclose(fitness, 0.0)`; it agrees
with `compute_is_covered`. -/
theorem derived_verdict_agrees {t : Trace} (h : Shape t) (r : Registry) (exCode exT exF : List Nat)
    {v : Rat} (hv : branchFitness t r exCode exT exF = .ok v) :
    derivedCovered v = branchIsCovered t r exCode exT exF := by
  have := suite_covered_iff_fitness_zero h r exCode exT exF
  rw [hv] at this
  unfold derivedCovered
  by_cases h0 : v = 0
  · subst h0; simp [this.2 rfl]
  · have : ¬ branchIsCovered t r exCode exT exF = true := fun hc => h0 (by injection this.1 hc)
    simp [h0, this]

/-- The registry and trace of the counterexample: one code object, one predicate, executed twice,
both outcomes reached (distance 0 each). -/
def cexRegistry : Registry := ⟨[⟨0, 1, []⟩], [⟨0, 0, 0⟩], []⟩
def cexTrace : Trace := ⟨[0], [(0, 2)], [(0, .fin 0)], [(0, .fin 0)], [], []⟩

/-- **Counterexample for the unchanged code** (D1): fitness is `0.0` and branch coverage `1.0`, yet
`compute_branch_distance_fitness_is_covered` (testing `(p, 0.0)` against the dict's *keys*) says
`False`.  The repaired function says `True`. -/
theorem orig_is_covered_cex :
    branchFitness cexTrace cexRegistry [] [] [] = .ok 0 ∧
    branchCoverage cexTrace cexRegistry = .ok 1 ∧
    branchIsCoveredOrig cexTrace cexRegistry [] [] [] = false ∧
    branchIsCovered cexTrace cexRegistry [] [] [] = true := by
  refine ⟨by decide +kernel, by decide +kernel, by decide, by decide⟩

/-- **C10, suite level**: branch fitness (no exclusions) is zero exactly when branch coverage is 1. -/
theorem suite_fit_zero_iff_cov_one {r : Registry} {t : Trace} (hr : RWF r) (h : Shape t) (hv : Valid r t) :
    branchFitness t r [] [] [] = .ok 0 ↔ branchCoverage t r = .ok 1 := by
  rw [branch_fitness_zero_iff h]
  have hle := branchCovered_le hr h hv
  unfold branchCoverage
  rw [ratio_eq hle]
  have : (Except.ok (ratioPure (branchCovered t r) (branchExisting r)) : Except Err Rat) = .ok 1 ↔
      ratioPure (branchCovered t r) (branchExisting r) = 1 :=
    ⟨fun h' => by injection h', fun h' => by rw [h']⟩
  rw [this, ratioPure_eq_one_iff]
  have hex := branchCovered_eq_existing_iff hr h hv
  simp only [List.not_mem_nil, or_false, false_or]
  constructor
  · rintro ⟨h1, h2⟩
    exact Or.inr (hex.2 ⟨h1, fun p hp => (h2 p hp).1, fun p hp => (h2 p hp).2⟩)
  · rintro (h0 | h1)
    · -- nothing to cover
      unfold branchExisting at h0
      have hb : r.branchless = [] := List.eq_nil_of_length_eq_zero (by omega)
      have hp : r.predIds = [] := List.eq_nil_of_length_eq_zero (by rw [predIds_length]; omega)
      simp [hb, hp]
    · obtain ⟨a, b, c⟩ := hex.1 h1
      exact ⟨a, fun p hp => ⟨b p hp, c p hp⟩⟩

/-- Line / checked suites: covered ⇔ fitness 0 ⇔ coverage 1 ⇔ every registered line is in the trace. -/
theorem line_suite_covered_iff {r : Registry} {t : Trace} (hr : RWF r) (h : Shape t) (hv : Valid r t) :
    (lineIsCovered t r = true ↔ lineSuiteFitness t r = 0) ∧
    (lineIsCovered t r = true ↔ lineCoverage t r = .ok 1) ∧
    (lineIsCovered t r = true ↔ ∀ l ∈ r.lines, l ∈ t.lines) := by
  have hle := length_le_of_nodup_subset h.lines_nodup hr.lines_nodup hv.lines_sub
  have hiff := length_eq_iff_of_nodup_subset h.lines_nodup hr.lines_nodup hv.lines_sub
  unfold lineIsCovered lineSuiteFitness lineCoverage
  rw [ratio_eq hle]
  have : (Except.ok (ratioPure t.lines.length r.lines.length) : Except Err Rat) = .ok 1 ↔
      ratioPure t.lines.length r.lines.length = 1 :=
    ⟨fun h' => by injection h', fun h' => by rw [h']⟩
  rw [this, ratioPure_eq_one_iff, ← hiff]
  simp only [decide_eq_true_eq]
  refine ⟨by omega, by omega, ?_⟩
  first | trivial | exact Iff.rfl

theorem checked_suite_covered_iff {r : Registry} {t : Trace} (hr : RWF r) (h : Shape t) (hv : Valid r t) :
    (checkedIsCovered t r = true ↔ checkedSuiteFitness t r = 0) ∧
    (checkedIsCovered t r = true ↔ checkedCoverage t r = .ok 1) ∧
    (checkedIsCovered t r = true ↔ ∀ l ∈ r.lines, l ∈ t.checked) := by
  have hle := length_le_of_nodup_subset h.checked_nodup hr.lines_nodup hv.checked_sub
  have hiff := length_eq_iff_of_nodup_subset h.checked_nodup hr.lines_nodup hv.checked_sub
  unfold checkedIsCovered checkedSuiteFitness checkedCoverage
  rw [ratio_eq hle]
  have : (Except.ok (ratioPure t.checked.length r.lines.length) : Except Err Rat) = .ok 1 ↔
      ratioPure t.checked.length r.lines.length = 1 :=
    ⟨fun h' => by injection h', fun h' => by rw [h']⟩
  rw [this, ratioPure_eq_one_iff, ← hiff]
  simp only [decide_eq_true_eq]
  refine ⟨by omega, by omega, ?_⟩
  first | trivial | exact Iff.rfl

/-! ### A goal is reported covered exactly when its fitness is zero -/

private theorem norm_zero : norm (.fin 0) = 0 := by simp [norm, Rat.div_def]

/-- The candidate loop of `get_non_root_control_flow_distance` raises nothing and keeps the
approach level ≥ 1 when the target predicate itself was not executed. -/
private theorem approachLoop_ok {r : Registry} {t : Trace} (h : Shape t) (hv : Valid r t)
    (hg : GoalHyp r t) {m : PredMeta} (hm : m ∈ r.preds) (hne : (dget t.cnt m.id).isSome = false)
    {cm : CodeMeta} (hcm : cm ∈ r.codes) (es : List Nat) (hes : ∀ e ∈ es, e ∈ keys t.cnt) (dist : CFD)
    (hd : 1 ≤ dist.approach) (hb : dist.branch.nonneg = true) :
    ∃ d, approachLoop t r cm m.code m.node es dist = .ok d ∧ 1 ≤ d.approach ∧ d.branch.nonneg = true := by
  induction es generalizing dist with
  | nil => exact ⟨dist, rfl, hd, hb⟩
  | cons e es ih =>
    have hes' : ∀ e' ∈ es, e' ∈ keys t.cnt := fun e' he' => hes e' (by simp [he'])
    have hek : (dget t.cnt e).isSome = true := (mem_keys_iff _ _).1 (hes e (by simp))
    obtain ⟨em, hem⟩ := findPred_of_mem_ids (hv.pred_sub e hek)
    obtain ⟨hem_mem, hem_id⟩ := findPred_some hem
    simp only [approachLoop, hem]
    by_cases hc : em.code ≠ m.code
    · simp only [hc, ne_eq, not_false_eq_true, if_true]; exact ih hes' dist hd hb
    · simp only [hc, if_false]
      cases hp : cm.pathLen em.node m.node with
      | none => exact ih hes' dist hd hb
      | some n =>
        simp only
        have hbd : (Dist.add (getInf t.dT e) (getInf t.dF e)).nonneg = true := by
          have a := getInf_nonneg h.keysT h.nonnegT e
          have b := getInf_nonneg h.keysF h.nonnegF e
          revert a b
          cases getInf t.dT e <;> cases getInf t.dF e <;> simp [Dist.add, Dist.nonneg]
          intro a b; exact Rat.add_nonneg a b
        simp only [hbd, if_true]
        have hn : 1 ≤ n := by
          rcases Nat.eq_zero_or_pos n with h0 | h0
          · subst h0
            have hnode := hg.path_zero cm hcm _ _ hp
            have hid := hg.node_inj em hem_mem m hm (Classical.not_not.1 hc) hnode
            rw [hem_id] at hid; subst hid
            rw [hne] at hek; cases hek
          · exact h0
        apply ih hes'
        · unfold cfdMin; split <;> simp [hn, hd]
        · unfold cfdMin; split <;> simp [hbd, hb]

/-- **C10, goal level (branch goals)**: for every registered predicate and outcome,
`BranchGoal.is_covered` and `BranchCoverageTestFitness.compute_fitness` raise nothing, the fitness
is non-negative (and finite), and the goal is covered exactly when the fitness is zero. -/
theorem branch_goal_covered_iff_fitness_zero {r : Registry} {t : Trace} (hr : RWF r) (h : Shape t)
    (hv : Valid r t) (hg : GoalHyp r t) {m : PredMeta} (hm : m ∈ r.preds) (value : Bool) :
    ∃ b f, branchGoalIsCovered t m.id value = .ok b ∧ branchGoalFitness t r m.id value = .ok f ∧
      0 ≤ f ∧ (b = true ↔ f = 0) := by
  obtain ⟨cm, hcm⟩ := findCode_of_mem_ids (hr.pred_code m hm)
  obtain ⟨hcm_mem, _⟩ := findCode_some hcm
  unfold branchGoalIsCovered branchGoalFitness nonRootDistance
  rw [findPred_of_mem hr hm]
  simp only
  by_cases hcode : m.code ∈ t.code
  · simp only [hcode, not_true_eq_false, if_false]
    cases hex : (dget t.cnt m.id).isSome with
    | true =>
      -- the predicate was executed: fitness = normalise(distance of the wanted outcome)
      simp only [if_true]
      have hks : ∀ k, (dget (if value = true then t.dT else t.dF) k).isSome = (dget t.cnt k).isSome := by
        cases value <;> simp [h.keysT, h.keysF]
      have hnn : ∀ k v, dget (if value = true then t.dT else t.dF) k = some v → v.nonneg = true := by
        cases value
        · simpa using h.nonnegF
        · simpa using h.nonnegT
      cases hd : dget (if value = true then t.dT else t.dF) m.id with
      | none => have := hks m.id; simp [hd, hex] at this
      | some v =>
        have hv0 := hnn _ _ hd
        simp only [getInf, hd, Option.getD_some, hv0, if_true, resultingFitness, normalise_of_nonneg hv0]
        refine ⟨v.isZero, _, rfl, rfl, ?_, ?_⟩
        · simpa [Rat.zero_add] using norm_nonneg hv0
        · rw [← norm_eq_zero_iff hv0]; simp [Rat.zero_add]
    | false =>
      -- not executed: approach level ≥ 1, fitness ≥ 1, not covered
      simp only [Bool.false_eq_true, if_false, hcm]
      obtain ⟨d, hd, hd1, hd2⟩ := approachLoop_ok h hv hg hm hex hcm_mem (keys t.cnt)
        (fun _ he => he) ⟨cm.diameter, .fin 0⟩ (hg.diameter_pos m hm cm hcm) (by simp [Dist.nonneg])
      simp only [hd, resultingFitness, normalise_of_nonneg hd2]
      refine ⟨false, _, rfl, rfl, ?_, ?_⟩
      · exact Rat.add_nonneg Rat.natCast_nonneg (norm_nonneg hd2)
      · have h1 : (1 : Rat) ≤ ((d.approach : Nat) : Rat) := by
          have := Rat.natCast_le_natCast.2 hd1; simpa using this
        have h2 := norm_nonneg hd2
        simp only [Bool.false_eq_true, false_iff]
        grind
  · -- the code object was not even entered: fitness = diameter ≥ 1, not covered
    have hex : (dget t.cnt m.id).isSome = false := by
      cases hx : (dget t.cnt m.id).isSome with
      | false => rfl
      | true => exact absurd (hg.pred_code_exec m hm hx) hcode
    simp only [hcode, not_false_eq_true, if_true, hcm, hex, Bool.false_eq_true, if_false,
      resultingFitness, normalise_of_nonneg (d := .fin 0) (by simp [Dist.nonneg]), norm_zero]
    refine ⟨false, _, rfl, rfl, ?_, ?_⟩
    · exact Rat.add_nonneg Rat.natCast_nonneg Rat.le_refl
    · have h1 : (1 : Rat) ≤ ((cm.diameter : Nat) : Rat) := by
        have := Rat.natCast_le_natCast.2 (hg.diameter_pos m hm cm hcm); simpa using this
      simp only [Bool.false_eq_true, false_iff]
      grind

/-- **C10, goal level (branch-less code objects)**. -/
theorem branchless_goal_covered_iff_fitness_zero (t : Trace) {r : Registry} {c : Nat}
    (hc : c ∈ r.branchless) :
    ∃ f, branchlessGoalFitness t r c = .ok f ∧ 0 ≤ f ∧ (branchlessGoalIsCovered t c = true ↔ f = 0) := by
  unfold branchlessGoalFitness rootDistance branchlessGoalIsCovered
  simp only [hc, not_true_eq_false, if_false]
  by_cases hx : c ∈ t.code
  · simp only [hx, if_true, resultingFitness, normalise_of_nonneg (d := .fin 0) (by simp [Dist.nonneg]),
      norm_zero]
    exact ⟨_, rfl, by simp [Rat.add_zero], by simp [Rat.add_zero]⟩
  · simp only [hx, if_false, resultingFitness, normalise_of_nonneg (d := .fin 0) (by simp [Dist.nonneg]),
      norm_zero]
    exact ⟨_, rfl, by simp [Rat.add_zero]; decide, by simp [Rat.add_zero]⟩

/-- **C10, goal level (line and checked goals)**: fitness ∈ {0, 1}, zero exactly when covered. -/
theorem line_goal_covered_iff_fitness_zero (t : Trace) (l : Nat) :
    (0 ≤ lineGoalFitness t l ∧ (lineGoalIsCovered t l = true ↔ lineGoalFitness t l = 0)) ∧
    (0 ≤ checkedGoalFitness t l ∧ (checkedGoalIsCovered t l = true ↔ checkedGoalFitness t l = 0)) := by
  unfold lineGoalFitness checkedGoalFitness
  constructor
  · cases lineGoalIsCovered t l <;> simp <;> decide
  · cases checkedGoalIsCovered t l <;> simp <;> decide

/-! ### The tracer API keeps the `Shape` invariant -/

/-- `update_predicate_distances` with non-negative distances keeps the data-structure invariants. -/
theorem shape_update {t : Trace} (h : Shape t) {a b : Dist} (ha : a.nonneg = true) (hb : b.nonneg = true)
    (p : Nat) : Shape (updatePredicateDistances t a b p) := by
  unfold updatePredicateDistances
  refine ⟨h.code_nodup, h.lines_nodup, h.checked_nodup, keys_dset_nodup h.cnt_nodup _ _,
    keys_dset_nodup h.dT_nodup _ _, keys_dset_nodup h.dF_nodup _ _, ?_, ?_, ?_, ?_⟩
  · intro k; simp only [dget_dset]; split <;> simp [h.keysT]
  · intro k; simp only [dget_dset]; split <;> simp [h.keysF]
  · intro k v; simp only [dget_dset]; split
    · intro hv; injection hv with hv; subst hv
      exact dmin_nonneg (getInf_nonneg h.keysT h.nonnegT p) ha
    · exact h.nonnegT k v
  · intro k v; simp only [dget_dset]; split
    · intro hv; injection hv with hv; subst hv
      exact dmin_nonneg (getInf_nonneg h.keysF h.nonnegF p) hb
    · exact h.nonnegF k v

/-! ### Non-vacuity: the hypotheses are satisfiable on a non-trivial instance -/

/-- two code objects (0 has predicates 0 and 1 at nodes 1 and 2, path 1→2 of length 1; 1 is
branch-less), three lines -/
def exRegistry : Registry :=
  ⟨[⟨0, 3, [(1, 1, 0), (1, 2, 1), (2, 2, 0)]⟩, ⟨1, 0, []⟩], [⟨0, 0, 1⟩, ⟨1, 0, 2⟩], [0, 1, 2]⟩
/-- predicate 0 executed twice (true distance 0, false distance 3), predicate 1 never -/
def exTrace : Trace := ⟨[0], [(0, 2)], [(0, .fin 0)], [(0, .fin 3)], [0, 2], [2]⟩

example : Shape exTrace := by
  refine ⟨by decide, by decide, by decide, by decide, by decide, by decide, ?_, ?_, ?_, ?_⟩
  · intro k; simp only [exTrace, dget]; split <;> rfl
  · intro k; simp only [exTrace, dget]; split <;> rfl
  · intro k v; simp only [exTrace, dget]; split <;> intro h <;> cases h; decide
  · intro k v; simp only [exTrace, dget]; split <;> intro h <;> cases h; decide
example : RWF exRegistry := by
  constructor <;> simp [exRegistry, Registry.codeIds, Registry.predIds]
example : Valid exRegistry exTrace := by
  constructor <;> simp [exRegistry, exTrace, Registry.codeIds, Registry.predIds, dget] <;>
    intro k <;> split <;> simp_all
example : branchFitness exTrace exRegistry [] [] [] = .ok (1 + 3 / 4 + 2) ∧
    branchCoverage exTrace exRegistry = .ok (1 / 5) ∧
    branchGoalFitness exTrace exRegistry 1 true = .ok (1 + 3 / 4) ∧
    branchGoalFitness exTrace exRegistry 0 false = .ok (3 / 4) ∧
    branchGoalIsCovered exTrace 0 true = .ok true := by
  refine ⟨by decide +kernel, by decide +kernel, by decide +kernel, by decide +kernel, by decide⟩

end PynguinModel.Fitness
