import PynguinModel.Lemmas.Distances
/-!
# C04 — Branch distances are non-negative and zero exactly for the outcome taken

Property theorems only.  `Holds py r` is the property for one recorded evaluation: `py` is what
Python's own operator does on the operands (a Boolean outcome or an exception) and `r` what the
tracer callback does (the recorded `(distance_true, distance_false)` or an exception).

* `C04_record_compare`, `C04_full`, `C04_bool*`, `C04_exception_match` — the repaired code
  (`proposed_fixes/C04-robust-branch-distances.diff`) satisfies the property for **every** outcome
  of the comparison and **every** behaviour of the distance helpers (raising, NaN, zero, negative),
  hence for all values, every rounding function and every user-defined comparison protocol.
* `C04_str_*`, `C04_int_exact` — on strings/bytes (all code-point lists) and
  on ints in the exactly representable range the helper estimates are already correct, so the guard
  of the repair never fires and the classical distances are recorded (no guidance is lost).
* `C04_legacy_partial`, `C04_legacy_cex_*` — the code before the repair satisfies the property only
  when the two helper results are consistent with the comparison, and violates it on the witnesses
  replayed by the harness (NaN, inf-inf, ints beyond 2^53, ints beyond the float range, partial
  comparison protocols, partial orders, one-shot iterators, mixed number types).
-/
namespace PynguinModel.Distances

set_option linter.unusedSimpArgs false

/-- The property for one recorded evaluation. -/
def Holds (py : Res Bool) (r : Res (Num × Num)) : Prop :=
  (∀ b, py = .ok b → ∃ dT dF, r = .ok (dT, dF) ∧
      dT.geZero = true ∧ dF.geZero = true ∧ dT.isNan = false ∧ dF.isNan = false ∧
      dT.eqZero = b ∧ dF.eqZero = !b) ∧
  (∀ e, r = .error e → ∃ e', py = .error e')

/-! ## The repaired code: full statement -/

/-- The distance to the branch not taken is strictly positive (hence neither zero nor NaN),
whatever the estimate does. -/
theorem missed_gtZero (est : Res Num) : (missedBranchDistance est).gtZero = true := by
  unfold missedBranchDistance
  split
  · rfl
  · split
    · assumption
    · rfl

/-- The assertions of `_update_metrics` can never fail on the result of `_compare_distances`. -/
theorem C04_update_metrics_never_fails (cmp : Res Bool) (estT estF : Res Num) (dT dF : Num)
    (h : compareDistances cmp estT estF = .ok (dT, dF)) : updateMetrics dF dT = .ok () := by
  unfold compareDistances at h
  split at h
  · cases h
  · cases h
    obtain ⟨h1, h2, _⟩ := Num.gtZero_imp (missed_gtZero estF)
    simp [updateMetrics, h1, h2]
  · cases h
    obtain ⟨h1, h2, _⟩ := Num.gtZero_imp (missed_gtZero estT)
    simp [updateMetrics, h1, h2]

/-- **C04 for the combination step, for every behaviour of its parts.**  Whatever the comparison
of the module under test yields and whatever the two distance helpers do (return any float, NaN
included, or raise), the recorded distances are non-negative, not NaN, exactly one is zero, the zero
one is the outcome of the comparison — and the callback raises only if the comparison raises. -/
theorem C04_record_compare (cmp : Res Bool) (estT estF : Res Num) :
    Holds cmp (recordCompare .repaired cmp estT estF) := by
  cases cmp with
  | error e =>
    exact ⟨fun b hb => (by cases hb), fun e' _ => ⟨e, rfl⟩⟩
  | ok b =>
    obtain ⟨hF1, hF2, hF3⟩ := Num.gtZero_imp (missed_gtZero estF)
    obtain ⟨hT1, hT2, hT3⟩ := Num.gtZero_imp (missed_gtZero estT)
    cases b with
    | true =>
      have hr : recordCompare .repaired (.ok true) estT estF
          = .ok (.fin 0, missedBranchDistance estF) := by
        simp [recordCompare, compareDistances, updateMetrics, hF1, hF2, bind, Except.bind, pure,
          Except.pure]
      rw [hr]
      refine ⟨fun b hb => ?_, fun e he => (by cases he)⟩
      cases hb
      exact ⟨_, _, rfl, by simp, hF1, by simp, hF3, by simp, by simp [hF2]⟩
    | false =>
      have hr : recordCompare .repaired (.ok false) estT estF
          = .ok (missedBranchDistance estT, .fin 0) := by
        simp [recordCompare, compareDistances, updateMetrics, hT1, hT2, bind, Except.bind, pure,
          Except.pure]
      rw [hr]
      refine ⟨fun b hb => ?_, fun e he => (by cases he)⟩
      cases hb
      exact ⟨_, _, rfl, hT1, by simp, hT3, by simp, by simp [hT2], by simp⟩

/-- **C04, full statement on values** (ints of any size, floats incl. NaN/±inf, bools, str, bytes,
None, lists; all ten comparison kinds; every rounding function). -/
theorem C04_full (rd : Rounding) (op : CmpOp) (same : Bool) (v1 v2 : PyVal) :
    Holds (pyOperator op same v1 v2) (executedComparePredicate .repaired rd op same v1 v2) :=
  C04_record_compare _ _ _

/-- Truthiness predicates, for every outcome of `bool(value)` and every behaviour of
`_falsy_distance`. -/
theorem C04_bool_abstract (truth : Res Bool) (est : Res Num) :
    Holds truth (recordBool .repaired truth est) := by
  cases truth with
  | error e => exact ⟨fun b hb => (by cases hb), fun e' _ => ⟨e, rfl⟩⟩
  | ok b =>
    obtain ⟨h1, h2, h3⟩ := Num.gtZero_imp (missed_gtZero est)
    cases b with
    | true =>
      have hr : recordBool .repaired (.ok true) est = .ok (.fin 0, missedBranchDistance est) := by
        simp [recordBool, updateMetrics, h1, h2, bind, Except.bind, pure, Except.pure]
      rw [hr]
      refine ⟨fun b hb => ?_, fun e he => (by cases he)⟩
      cases hb
      exact ⟨_, _, rfl, by simp, h1, by simp, h3, by simp, by simp [h2]⟩
    | false =>
      have hr : recordBool .repaired (.ok false) est = .ok (.fin 1, .fin 0) := by
        simp [recordBool, updateMetrics, bind, Except.bind, pure, Except.pure]
      rw [hr]
      refine ⟨fun b hb => ?_, fun e he => (by cases he)⟩
      cases hb
      exact ⟨_, _, rfl, by simp, by simp, by simp, by simp, by simp, by simp⟩

theorem C04_bool (rd : Rounding) (v : PyVal) :
    Holds (.ok (truthy v)) (executedBoolPredicate .repaired rd v) :=
  C04_bool_abstract _ _

/-- The distances recorded for an exception match are `(0, 1)` on a match and `(1, 0)` otherwise,
whatever `given_exception_matches` answers. -/
theorem exception_match_record (v : Variant) (err : ExcClass) (excs : List HandlerClass) :
    Holds (.ok (givenExceptionMatches v err excs)) (executedExceptionMatch v err excs) := by
  unfold executedExceptionMatch
  cases h : givenExceptionMatches v err excs
  · refine ⟨fun b hb => ?_, fun e he => ?_⟩
    · cases hb
      exact ⟨.fin 1, .fin 0, by simp [updateMetrics, bind, Except.bind, pure, Except.pure],
        by simp, by simp, by simp, by simp, by simp, by simp⟩
    · simp [updateMetrics, bind, Except.bind, pure, Except.pure] at he
  · refine ⟨fun b hb => ?_, fun e he => ?_⟩
    · cases hb
      exact ⟨.fin 0, .fin 1, by simp [updateMetrics, bind, Except.bind, pure, Except.pure],
        by simp, by simp, by simp, by simp, by simp, by simp⟩
    · simp [updateMetrics, bind, Except.bind, pure, Except.pure] at he

/-- **Exception matching, full statement** (repaired `given_exception_matches`): the zero distance
is the outcome of Python's own `except` matching, for every class hierarchy, every tuple of handler
classes and every `__subclasscheck__`. -/
theorem C04_exception_match (err : ExcClass) (excs : List HandlerClass) :
    Holds (.ok (pyExceptMatches err excs)) (executedExceptionMatch .repaired err excs) :=
  exception_match_record .repaired err excs

/-- The code before the repair (`issubclass`) is right when no handler class overrides
`__subclasscheck__` inconsistently with the MRO … -/
theorem C04_legacy_exception_match_partial (err : ExcClass) (excs : List HandlerClass)
    (h : ∀ exc ∈ excs, exc.issub = inMro err exc) :
    Holds (.ok (pyExceptMatches err excs)) (executedExceptionMatch .legacy err excs) := by
  have : pyExceptMatches err excs = givenExceptionMatches .legacy err excs := by
    unfold pyExceptMatches givenExceptionMatches
    simp only
    induction excs with
    | nil => rfl
    | cons e es ih =>
      simp only [List.any_cons]
      rw [ih (fun x hx => h x (by simp [hx])), h e (by simp)]
  rw [this]
  exact exception_match_record .legacy err excs

/-- … and wrong otherwise: `class E(Exception, metaclass=M)` with `M.__subclasscheck__` returning
`True`: `except E` does not catch a `ValueError`, the legacy tracer records the match as taken. -/
theorem C04_legacy_cex_subclasscheck :
    pyExceptMatches [7, 1000, 1001, 1002] [⟨[3, 1000, 1001, 1002], true⟩] = false ∧
    executedExceptionMatch .legacy [7, 1000, 1001, 1002] [⟨[3, 1000, 1001, 1002], true⟩]
      = .ok (.fin 0, .fin 1) := by
  decide +kernel

/-! ## When the helpers are right, the repair changes nothing -/

/-- The two helper results agree with the comparison: the helper of the outcome taken returns
`0.0`, the other one a positive number. -/
def Consistent (cmp : Res Bool) (estT estF : Res Num) : Prop :=
  ∃ b dT dF, cmp = .ok b ∧ estT = .ok dT ∧ estF = .ok dF ∧
    (b = true → dT = .fin 0 ∧ dF.gtZero = true) ∧ (b = false → dF = .fin 0 ∧ dT.gtZero = true)

/-- On consistent helper results both variants record exactly the helper results. -/
theorem record_of_consistent {cmp estT estF} (h : Consistent cmp estT estF) (v : Variant) :
    ∃ dT dF, estT = .ok dT ∧ estF = .ok dF ∧ recordCompare v cmp estT estF = .ok (dT, dF) := by
  obtain ⟨b, dT, dF, rfl, rfl, rfl, ht, hf⟩ := h
  refine ⟨dT, dF, rfl, rfl, ?_⟩
  cases b with
  | true =>
    obtain ⟨rfl, hpos⟩ := ht rfl
    obtain ⟨h1, h2, _⟩ := Num.gtZero_imp hpos
    cases v <;>
      simp [recordCompare, compareDistances, compareDistancesLegacy, missedBranchDistance,
        updateMetrics, hpos, h1, h2, bind, Except.bind, pure, Except.pure]
  | false =>
    obtain ⟨rfl, hpos⟩ := hf rfl
    obtain ⟨h1, h2, _⟩ := Num.gtZero_imp hpos
    cases v <;>
      simp [recordCompare, compareDistances, compareDistancesLegacy, missedBranchDistance,
        updateMetrics, hpos, h1, h2, bind, Except.bind, pure, Except.pure]

/-- **The code before the repair, partial statement**: it satisfies the property on every input
whose helper results are consistent with the comparison (decidable on concrete values). -/
theorem C04_legacy_partial {cmp estT estF} (h : Consistent cmp estT estF) :
    Holds cmp (recordCompare .legacy cmp estT estF) := by
  obtain ⟨dT, dF, hT, hF, hr⟩ := record_of_consistent h .legacy
  obtain ⟨dT', dF', hT', hF', hr'⟩ := record_of_consistent h .repaired
  have hrep := C04_record_compare cmp estT estF
  rw [hT] at hT'; rw [hF] at hF'
  cases hT'; cases hF'
  rw [hr]; rw [hr'] at hrep
  exact hrep

/-! ### Strings and bytes: all code-point lists -/

/-- `string_lt_distance` is zero exactly when `s < t` … -/
theorem C04_str_lt_zero_iff (s t : List Nat) : stringLtDistance s t = 0 ↔ s < t := by
  unfold stringLtDistance
  by_cases h : lexLt s t = true
  · simp [h, (lexLt_iff s t).1 h]
  · have := ltLoop_pos s t
    simp only [h, Bool.false_eq_true, if_false]
    constructor
    · intro h0; omega
    · intro hlt; exact absurd ((lexLt_iff s t).2 hlt) h

/-- … and at least one otherwise. -/
theorem C04_str_lt_pos (s t : List Nat) (h : ¬ s < t) : 1 ≤ stringLtDistance s t := by
  have := C04_str_lt_zero_iff s t
  have := ltLoop_pos s t
  unfold stringLtDistance at *
  split
  · rename_i hl; exact absurd ((lexLt_iff s t).1 hl) h
  · assumption

theorem C04_str_le_zero_iff (s t : List Nat) : stringLeDistance s t = 0 ↔ s ≤ t := by
  unfold stringLeDistance
  by_cases h : lexLe s t = true
  · simp [h, (lexLe_iff s t).1 h]
  · have := leLoop_pos s t
    simp only [h, Bool.false_eq_true, if_false]
    constructor
    · intro h0; omega
    · intro hle; exact absurd ((lexLe_iff s t).2 hle) h

theorem C04_str_le_pos (s t : List Nat) (h : ¬ s ≤ t) : 1 ≤ stringLeDistance s t := by
  have := leLoop_pos s t
  unfold stringLeDistance
  split
  · rename_i hl; exact absurd ((lexLe_iff s t).1 hl) h
  · assumption

/-- `string_distance` is `0.0` exactly on equal strings and otherwise a float `≥ 1/2`
(positive, not NaN), under the rounding hypotheses. -/
theorem C04_str_eq_zero_iff {rd} (g : GoodRounding rd) (s t : List Nat) :
    (stringDistance rd s t = .fin 0 ↔ s = t) ∧ (s ≠ t → (stringDistance rd s t).gtZero = true) := by
  have hpos : s ≠ t → (stringDistance rd s t).gtZero = true := fun hne =>
    Num.atLeast_gtZero (stringDistance_ne g s t hne) (by decide +kernel)
  refine ⟨⟨fun h0 => ?_, fun h => by rw [h]; exact stringDistance_self rd t⟩, hpos⟩
  apply Classical.byContradiction
  intro hne
  have := hpos hne
  rw [h0] at this
  exact absurd this (by decide)

/-- Helper results on two strings (or two bytes objects, which the code decodes as iso-8859-1,
i.e. to the same code points) are consistent with Python's comparison, for all six orderings. -/
theorem str_consistent {rd} (g : GoodRounding rd) (op : CmpOp) (same : Bool) (s t : List Nat)
    (hop : op = .lt ∨ op = .le ∨ op = .eq ∨ op = .ne ∨ op = .gt ∨ op = .ge) :
    Consistent (pyOperator op same (.sc (.str s)) (.sc (.str t)))
      (trueDistance rd op same (.sc (.str s)) (.sc (.str t)))
      (falseDistance rd op same (.sc (.str s)) (.sc (.str t))) ∧
    Consistent (pyOperator op same (.sc (.bytes s)) (.sc (.bytes t)))
      (trueDistance rd op same (.sc (.bytes s)) (.sc (.bytes t)))
      (falseDistance rd op same (.sc (.bytes s)) (.sc (.bytes t))) := by
  -- facts about the three string distances, in Boolean form
  have hlt : ∀ a b : List Nat, lexLt a b = false →
      (Num.fin ((stringLtDistance a b : Nat) : Rat)).gtZero = true := by
    intro a b h
    have h1 : 1 ≤ stringLtDistance a b := C04_str_lt_pos a b (fun hl => by
      have := (lexLt_iff a b).2 hl; simp [h] at this)
    have : (1 : Rat) ≤ ((stringLtDistance a b : Nat) : Rat) := by exact_mod_cast h1
    simp only [Num.gtZero, Num.lt, decide_eq_true_eq]; grind
  have hle : ∀ a b : List Nat, lexLe a b = false →
      (Num.fin ((stringLeDistance a b : Nat) : Rat)).gtZero = true := by
    intro a b h
    have h1 : 1 ≤ stringLeDistance a b := C04_str_le_pos a b (fun hl => by
      have := (lexLe_iff a b).2 hl; simp [h] at this)
    have : (1 : Rat) ≤ ((stringLeDistance a b : Nat) : Rat) := by exact_mod_cast h1
    simp only [Num.gtZero, Num.lt, decide_eq_true_eq]; grind
  have hlt0 : ∀ a b : List Nat, lexLt a b = true → stringLtDistance a b = 0 := by
    intro a b h; simp [stringLtDistance, h]
  have hle0 : ∀ a b : List Nat, lexLe a b = true → stringLeDistance a b = 0 := by
    intro a b h; simp [stringLeDistance, h]
  have heq : ∀ a b : List Nat, (a == b) = false → (stringDistance rd a b).gtZero = true := by
    intro a b h; exact (C04_str_eq_zero_iff g a b).2 (by simpa using h)
  -- totality of the lexicographic order, in Boolean form
  have htot : ∀ a b : List Nat, lexLt a b = !lexLe b a := by
    intro a b
    cases h1 : lexLt a b <;> cases h2 : lexLe b a <;> try rfl
    · have hn : ¬ b ≤ a := fun hle => by
        have := (lexLe_iff b a).2 hle
        simp [h2] at this
      exact absurd ((lexLt_iff a b).2 (List.not_le.1 hn)) (by simp [h1])
    · have h1' := (lexLt_iff a b).1 h1
      have h2' := (lexLe_iff b a).1 h2
      exact absurd h1' (List.not_lt.2 h2')
  have key : ∀ (mk : List Nat → Scalar), (mk = Scalar.str ∨ mk = Scalar.bytes) →
      Consistent (pyOperator op same (.sc (mk s)) (.sc (mk t)))
        (trueDistance rd op same (.sc (mk s)) (.sc (mk t)))
        (falseDistance rd op same (.sc (mk s)) (.sc (mk t))) := by
    intro mk hmk
    rcases hop with rfl | rfl | rfl | rfl | rfl | rfl
    -- lt
    · cases h : lexLt s t
      · have h' : lexLe t s = true := by have := htot s t; simp_all
        refine ⟨false, .fin ((stringLtDistance s t : Nat) : Rat), .fin 0, ?_, ?_, ?_, ?_, ?_⟩ <;>
          rcases hmk with rfl | rfl <;>
          simp [pyOperator, trueDistance, falseDistance, helperLt, helperLe, pvOrd, scOrd,
            Scalar.number?, PyVal.number?, h, h', hlt s t h, bind, Except.bind, pure, Except.pure]
      · have h' : lexLe t s = false := by have := htot s t; simp_all
        refine ⟨true, .fin 0, .fin ((stringLeDistance t s : Nat) : Rat), ?_, ?_, ?_, ?_, ?_⟩ <;>
          rcases hmk with rfl | rfl <;>
          simp [pyOperator, trueDistance, falseDistance, helperLt, helperLe, pvOrd, scOrd,
            Scalar.number?, PyVal.number?, h, h', hle t s h', bind, Except.bind, pure, Except.pure]
    -- le
    · cases h : lexLe s t
      · have h' : lexLt t s = true := by have := htot t s; simp_all
        refine ⟨false, .fin ((stringLeDistance s t : Nat) : Rat), .fin 0, ?_, ?_, ?_, ?_, ?_⟩ <;>
          rcases hmk with rfl | rfl <;>
          simp [pyOperator, trueDistance, falseDistance, helperLt, helperLe, pvOrd, scOrd,
            Scalar.number?, PyVal.number?, h, h', hle s t h, bind, Except.bind, pure, Except.pure]
      · have h' : lexLt t s = false := by have := htot t s; simp_all
        refine ⟨true, .fin 0, .fin ((stringLtDistance t s : Nat) : Rat), ?_, ?_, ?_, ?_, ?_⟩ <;>
          rcases hmk with rfl | rfl <;>
          simp [pyOperator, trueDistance, falseDistance, helperLt, helperLe, pvOrd, scOrd,
            Scalar.number?, PyVal.number?, h, h', hlt t s h', bind, Except.bind, pure, Except.pure]
    -- eq
    · cases h : (s == t)
      · refine ⟨false, stringDistance rd s t, .fin 0, ?_, ?_, ?_, ?_, ?_⟩ <;>
          rcases hmk with rfl | rfl <;>
          simp [pyOperator, trueDistance, falseDistance, helperEq, helperNeq, pvEq, scEq,
            Scalar.number?, PyVal.number?, h, heq s t h]
      · refine ⟨true, .fin 0, .fin 1, ?_, ?_, ?_, ?_, ?_⟩ <;>
          rcases hmk with rfl | rfl <;>
          simp [pyOperator, trueDistance, falseDistance, helperEq, helperNeq, pvEq, scEq,
            Scalar.number?, PyVal.number?, h] <;> decide
    -- ne
    · cases h : (s == t)
      · refine ⟨true, .fin 0, stringDistance rd s t, ?_, ?_, ?_, ?_, ?_⟩ <;>
          rcases hmk with rfl | rfl <;>
          simp [pyOperator, trueDistance, falseDistance, helperEq, helperNeq, pvEq, scEq,
            Scalar.number?, PyVal.number?, h, heq s t h]
      · refine ⟨false, .fin 1, .fin 0, ?_, ?_, ?_, ?_, ?_⟩ <;>
          rcases hmk with rfl | rfl <;>
          simp [pyOperator, trueDistance, falseDistance, helperEq, helperNeq, pvEq, scEq,
            Scalar.number?, PyVal.number?, h] <;> decide
    -- gt
    · cases h : lexLt t s
      · have h' : lexLe s t = true := by have := htot t s; simp_all
        refine ⟨false, .fin ((stringLtDistance t s : Nat) : Rat), .fin 0, ?_, ?_, ?_, ?_, ?_⟩ <;>
          rcases hmk with rfl | rfl <;>
          simp [pyOperator, trueDistance, falseDistance, helperLt, helperLe, pvOrd, scOrd,
            Scalar.number?, PyVal.number?, h, h', hlt t s h, bind, Except.bind, pure, Except.pure]
      · have h' : lexLe s t = false := by have := htot t s; simp_all
        refine ⟨true, .fin 0, .fin ((stringLeDistance s t : Nat) : Rat), ?_, ?_, ?_, ?_, ?_⟩ <;>
          rcases hmk with rfl | rfl <;>
          simp [pyOperator, trueDistance, falseDistance, helperLt, helperLe, pvOrd, scOrd,
            Scalar.number?, PyVal.number?, h, h', hle s t h', bind, Except.bind, pure, Except.pure]
    -- ge
    · cases h : lexLe t s
      · have h' : lexLt s t = true := by have := htot s t; simp_all
        refine ⟨false, .fin ((stringLeDistance t s : Nat) : Rat), .fin 0, ?_, ?_, ?_, ?_, ?_⟩ <;>
          rcases hmk with rfl | rfl <;>
          simp [pyOperator, trueDistance, falseDistance, helperLt, helperLe, pvOrd, scOrd,
            Scalar.number?, PyVal.number?, h, h', hle t s h, bind, Except.bind, pure, Except.pure]
      · have h' : lexLt s t = false := by have := htot s t; simp_all
        refine ⟨true, .fin 0, .fin ((stringLtDistance s t : Nat) : Rat), ?_, ?_, ?_, ?_, ?_⟩ <;>
          rcases hmk with rfl | rfl <;>
          simp [pyOperator, trueDistance, falseDistance, helperLt, helperLe, pvOrd, scOrd,
            Scalar.number?, PyVal.number?, h, h', hlt s t h', bind, Except.bind, pure, Except.pure]
  exact ⟨key _ (Or.inl rfl), key _ (Or.inr rfl)⟩

/-- **Strings and bytes, all code-point lists, all six orderings, both variants of the code**: the
call returns normally and records exactly the helper distances, which satisfy the property.  In
particular the guard introduced by the repair never fires on strings. -/
theorem C04_str_full {rd} (g : GoodRounding rd) (v : Variant) (op : CmpOp) (same : Bool)
    (s t : List Nat) (hop : op = .lt ∨ op = .le ∨ op = .eq ∨ op = .ne ∨ op = .gt ∨ op = .ge) :
    Holds (pyOperator op same (.sc (.str s)) (.sc (.str t)))
      (executedComparePredicate v rd op same (.sc (.str s)) (.sc (.str t))) ∧
    Holds (pyOperator op same (.sc (.bytes s)) (.sc (.bytes t)))
      (executedComparePredicate v rd op same (.sc (.bytes s)) (.sc (.bytes t))) ∧
    executedComparePredicate .repaired rd op same (.sc (.str s)) (.sc (.str t))
      = executedComparePredicate .legacy rd op same (.sc (.str s)) (.sc (.str t)) := by
  obtain ⟨hs, hb⟩ := str_consistent g op same s t hop
  refine ⟨?_, ?_, ?_⟩
  · cases v
    · exact C04_full rd op same _ _
    · exact C04_legacy_partial hs
  · cases v
    · exact C04_full rd op same _ _
    · exact C04_legacy_partial hb
  · obtain ⟨a, b, ha, hb', h1⟩ := record_of_consistent hs .repaired
    obtain ⟨a', b', ha', hb'', h2⟩ := record_of_consistent hs .legacy
    unfold executedComparePredicate
    rw [h1, h2]
    rw [ha] at ha'; rw [hb'] at hb''
    cases ha'; cases hb''; rfl

/-! ### Ints in the exactly representable range -/

/-- The classical branch distances of two ints `(distance_true, distance_false)`. -/
def intDistances (op : CmpOp) (a b : Int) : Int × Int :=
  let absd : Int := if a - b < 0 then -(a - b) else a - b
  match op with
  | .eq => (absd, if a = b then 1 else 0)
  | .ne => (if a = b then 1 else 0, absd)
  | .lt => (if a < b then 0 else a - b + 1, if b ≤ a then 0 else b - a)
  | .le => (if a ≤ b then 0 else a - b, if b < a then 0 else b - a + 1)
  | .gt => (if b < a then 0 else b - a + 1, if a ≤ b then 0 else a - b)
  | .ge => (if b ≤ a then 0 else b - a, if a < b then 0 else a - b + 1)
  | _ => (0, 0)

theorem cast_lt_iff (a b : Int) : ((a : Rat) < (b : Rat)) ↔ a < b := by
  constructor <;> intro h <;> exact_mod_cast h

theorem cast_eq_iff (a b : Int) : ((a : Rat) = (b : Rat)) ↔ a = b := by
  constructor <;> intro h <;> exact_mod_cast h

theorem toFloat_int {rd} (g : GoodRounding rd) (z : Int) (h1 : -(2 ^ 53) ≤ z) (h2 : z ≤ 2 ^ 53) :
    toFloat rd (.int z) = .ok (.fin (z : Rat)) := by
  simp [toFloat, g.int_exact z h1 h2]

theorem fsub_int {rd} (g : GoodRounding rd) (a b : Int) (h1 : -(2 ^ 53) ≤ a - b)
    (h2 : a - b ≤ 2 ^ 53) :
    fsub rd (.fin (a : Rat)) (.fin (b : Rat)) = .fin ((a : Rat) - (b : Rat)) := by
  have := g.int_exact (a - b) h1 h2
  simp only [fsub]
  rw [show ((a : Rat) - (b : Rat)) = ((a - b : Int) : Rat) by push_cast; rfl]
  exact this

theorem fadd_one_int {rd} (g : GoodRounding rd) (a b : Int) (h1 : -(2 ^ 53) ≤ a - b + 1)
    (h2 : a - b + 1 ≤ 2 ^ 53) :
    fadd rd (.fin ((a : Rat) - (b : Rat))) (.fin 1) = .fin ((a : Rat) - (b : Rat) + 1) := by
  have := g.int_exact (a - b + 1) h1 h2
  simp only [fadd]
  rw [show ((a : Rat) - (b : Rat) + 1) = ((a - b + 1 : Int) : Rat) by push_cast; rfl]
  exact this

theorem intCast_gtZero (z : Int) (h : 0 < z) : (Num.fin (z : Rat)).gtZero = true := by
  have : (0 : Rat) < (z : Rat) := by exact_mod_cast h
  simpa [Num.gtZero, Num.lt] using this

/-- Helper results on two ints of magnitude below `2^52`: exact, and consistent with Python. -/
theorem int_helpers {rd} (g : GoodRounding rd) (a b : Int)
    (ha : -(2 ^ 52) < a ∧ a < 2 ^ 52) (hb : -(2 ^ 52) < b ∧ b < 2 ^ 52) :
    helperLt rd (.sc (.int a)) (.sc (.int b))
        = .ok (.fin ((if a < b then 0 else a - b + 1 : Int) : Rat)) ∧
    helperLe rd (.sc (.int a)) (.sc (.int b))
        = .ok (.fin ((if a ≤ b then 0 else a - b : Int) : Rat)) ∧
    helperEq rd (.sc (.int a)) (.sc (.int b))
        = .ok (.fin ((if a - b < 0 then -(a - b) else a - b : Int) : Rat)) ∧
    helperNeq (.sc (.int a)) (.sc (.int b)) = .ok (.fin ((if a = b then 1 else 0 : Int) : Rat)) := by
  obtain ⟨ha1, ha2⟩ := ha
  obtain ⟨hb1, hb2⟩ := hb
  have fa := toFloat_int g a (by omega) (by omega)
  have fb := toFloat_int g b (by omega) (by omega)
  have fs := fsub_int g a b (by omega) (by omega)
  have fp := fadd_one_int g a b (by omega) (by omega)
  have cast_lt := cast_lt_iff a b
  have cast_eq := cast_eq_iff a b
  refine ⟨?_, ?_, ?_, ?_⟩
  · by_cases h : a < b
    · simp [helperLt, pvOrd, scOrd, Scalar.number?, PyVal.number?, PyNumber.exact, Num.lt, cast_lt, cast_eq, h, bind,
        Except.bind, pure, Except.pure]
    · simp [helperLt, pvOrd, scOrd, Scalar.number?, PyVal.number?, PyNumber.exact, Num.lt, cast_lt, cast_eq, h, bind,
        Except.bind, pure, Except.pure, fa, fb, fs, fp]
  · by_cases h : a ≤ b
    · have : a < b ∨ a = b := by omega
      simp [helperLe, pvOrd, scOrd, Scalar.number?, PyVal.number?, PyNumber.exact, Num.le, Num.lt,
        Num.eq, cast_lt, cast_eq, h, this, bind, Except.bind, pure, Except.pure]
    · have h1 : ¬ a < b := by omega
      have h2 : ¬ a = b := by omega
      simp [helperLe, pvOrd, scOrd, Scalar.number?, PyVal.number?, PyNumber.exact, Num.le, Num.lt,
        Num.eq, cast_lt, cast_eq, h, h1, h2, bind, Except.bind, pure, Except.pure, fa, fb, fs]
  · by_cases h : a = b
    · subst h
      simp [helperEq, pvEq, scEq, Scalar.number?, PyVal.number?, PyNumber.exact, Num.eq, cast_eq]
    · have habs := toFloat_int g (if a - b < 0 then -(a - b) else a - b)
        (by split <;> omega) (by split <;> omega)
      simp [helperEq, pvEq, scEq, Scalar.number?, PyVal.number?, PyNumber.exact, Num.eq, cast_eq, h, pySub,
        pyAbs, bind, Except.bind, habs]
  · by_cases h : a = b
    · subst h
      simp [helperNeq, pvEq, scEq, Scalar.number?, PyVal.number?, PyNumber.exact, Num.eq, cast_eq]
    · simp [helperNeq, pvEq, scEq, Scalar.number?, PyVal.number?, PyNumber.exact, Num.eq, cast_eq, h]

/-- **Ints in the exactly representable range, all six orderings, both variants of the code**: the
call returns normally and records exactly the classical integer distances. -/
theorem C04_int_exact {rd} (g : GoodRounding rd) (v : Variant) (op : CmpOp) (same : Bool) (a b : Int)
    (ha : -(2 ^ 52) < a ∧ a < 2 ^ 52) (hb : -(2 ^ 52) < b ∧ b < 2 ^ 52)
    (hop : op = .lt ∨ op = .le ∨ op = .eq ∨ op = .ne ∨ op = .gt ∨ op = .ge) :
    executedComparePredicate v rd op same (.sc (.int a)) (.sc (.int b))
      = .ok (.fin ((intDistances op a b).1 : Rat), .fin ((intDistances op a b).2 : Rat)) ∧
    Holds (pyOperator op same (.sc (.int a)) (.sc (.int b)))
      (executedComparePredicate v rd op same (.sc (.int a)) (.sc (.int b))) := by
  obtain ⟨lt1, le1, eq1, ne1⟩ := int_helpers g a b ha hb
  obtain ⟨lt2, le2, eq2, ne2⟩ := int_helpers g b a hb ha
  have pos := intCast_gtZero
  have cons : Consistent (pyOperator op same (.sc (.int a)) (.sc (.int b)))
      (trueDistance rd op same (.sc (.int a)) (.sc (.int b)))
      (falseDistance rd op same (.sc (.int a)) (.sc (.int b))) ∧
      trueDistance rd op same (.sc (.int a)) (.sc (.int b))
        = .ok (.fin ((intDistances op a b).1 : Rat)) ∧
      falseDistance rd op same (.sc (.int a)) (.sc (.int b))
        = .ok (.fin ((intDistances op a b).2 : Rat)) := by
    have eq2' : helperEq rd (.sc (.int a)) (.sc (.int b))
        = .ok (.fin ((if a - b < 0 then -(a - b) else a - b : Int) : Rat)) := eq1
    rcases hop with rfl | rfl | rfl | rfl | rfl | rfl
    · -- lt
      refine ⟨?_, by simpa [trueDistance, intDistances] using lt1,
        by simpa [falseDistance, intDistances] using le2⟩
      by_cases h : a < b
      · refine ⟨true, _, _, ?_, lt1, le2, ?_, ?_⟩
        · simp [pyOperator, pvOrd, scOrd, Scalar.number?, PyNumber.exact, cast_lt_iff, cast_eq_iff, Num.lt, h]
        · intro _; have : ¬ b ≤ a := by omega
          simp only [h, this, if_true, if_false]
          exact ⟨by simp, pos _ (by omega)⟩
        · intro hh; cases hh
      · refine ⟨false, _, _, ?_, lt1, le2, ?_, ?_⟩
        · simp [pyOperator, pvOrd, scOrd, Scalar.number?, PyNumber.exact, cast_lt_iff, cast_eq_iff, Num.lt, h]
        · intro hh; cases hh
        · intro _; have : b ≤ a := by omega
          simp only [h, this, if_true, if_false]
          exact ⟨by simp, pos _ (by omega)⟩
    · -- le
      refine ⟨?_, by simpa [trueDistance, intDistances] using le1,
        by simpa [falseDistance, intDistances] using lt2⟩
      by_cases h : a ≤ b
      · refine ⟨true, _, _, ?_, le1, lt2, ?_, ?_⟩
        · have : a < b ∨ a = b := by omega
          simp [pyOperator, pvOrd, scOrd, Scalar.number?, PyNumber.exact, cast_lt_iff, cast_eq_iff, Num.le, Num.lt, Num.eq,
            this]
        · intro _; have : ¬ b < a := by omega
          simp only [h, this, if_true, if_false]
          exact ⟨by simp, pos _ (by omega)⟩
        · intro hh; cases hh
      · refine ⟨false, _, _, ?_, le1, lt2, ?_, ?_⟩
        · have h1 : ¬ a < b := by omega
          have h2 : ¬ a = b := by omega
          simp [pyOperator, pvOrd, scOrd, Scalar.number?, PyNumber.exact, cast_lt_iff, cast_eq_iff, Num.le, Num.lt, Num.eq,
            h1, h2]
        · intro hh; cases hh
        · intro _; have : b < a := by omega
          simp only [h, this, if_true, if_false]
          exact ⟨by simp, pos _ (by omega)⟩
    · -- eq
      refine ⟨?_, by simpa [trueDistance, intDistances] using eq1,
        by simpa [falseDistance, intDistances] using ne1⟩
      by_cases h : a = b
      · refine ⟨true, _, _, ?_, eq1, ne1, ?_, ?_⟩
        · simp [pyOperator, pvEq, scEq, Scalar.number?, PyNumber.exact, cast_eq_iff, Num.eq, h]
        · intro _; subst h; simp; decide
        · intro hh; cases hh
      · refine ⟨false, _, _, ?_, eq1, ne1, ?_, ?_⟩
        · simp [pyOperator, pvEq, scEq, Scalar.number?, PyNumber.exact, cast_eq_iff, Num.eq, h]
        · intro hh; cases hh
        · intro _
          simp only [h, if_false]
          exact ⟨by simp, pos _ (by split <;> omega)⟩
    · -- ne
      refine ⟨?_, by simpa [trueDistance, intDistances] using ne1,
        by simpa [falseDistance, intDistances] using eq1⟩
      by_cases h : a = b
      · refine ⟨false, _, _, ?_, ne1, eq1, ?_, ?_⟩
        · simp [pyOperator, pvEq, scEq, Scalar.number?, PyNumber.exact, cast_eq_iff, Num.eq, h]
        · intro hh; cases hh
        · intro _; subst h; simp; decide
      · refine ⟨true, _, _, ?_, ne1, eq1, ?_, ?_⟩
        · simp [pyOperator, pvEq, scEq, Scalar.number?, PyNumber.exact, cast_eq_iff, Num.eq, h]
        · intro _
          simp only [h, if_false]
          exact ⟨by simp, pos _ (by split <;> omega)⟩
        · intro hh; cases hh
    · -- gt
      refine ⟨?_, by simpa [trueDistance, intDistances] using lt2,
        by simpa [falseDistance, intDistances] using le1⟩
      by_cases h : b < a
      · refine ⟨true, _, _, ?_, lt2, le1, ?_, ?_⟩
        · simp [pyOperator, pvOrd, scOrd, Scalar.number?, PyNumber.exact, cast_lt_iff, cast_eq_iff, Num.lt, h]
        · intro _; have : ¬ a ≤ b := by omega
          simp only [h, this, if_true, if_false]
          exact ⟨by simp, pos _ (by omega)⟩
        · intro hh; cases hh
      · refine ⟨false, _, _, ?_, lt2, le1, ?_, ?_⟩
        · simp [pyOperator, pvOrd, scOrd, Scalar.number?, PyNumber.exact, cast_lt_iff, cast_eq_iff, Num.lt, h]
        · intro hh; cases hh
        · intro _; have : a ≤ b := by omega
          simp only [h, this, if_true, if_false]
          exact ⟨by simp, pos _ (by omega)⟩
    · -- ge
      refine ⟨?_, by simpa [trueDistance, intDistances] using le2,
        by simpa [falseDistance, intDistances] using lt1⟩
      by_cases h : b ≤ a
      · refine ⟨true, _, _, ?_, le2, lt1, ?_, ?_⟩
        · have : b < a ∨ b = a := by omega
          simp [pyOperator, pvOrd, scOrd, Scalar.number?, PyNumber.exact, cast_lt_iff, cast_eq_iff, Num.le, Num.lt, Num.eq,
            this]
        · intro _; have : ¬ a < b := by omega
          simp only [h, this, if_true, if_false]
          exact ⟨by simp, pos _ (by omega)⟩
        · intro hh; cases hh
      · refine ⟨false, _, _, ?_, le2, lt1, ?_, ?_⟩
        · have h1 : ¬ b < a := by omega
          have h2 : ¬ b = a := by omega
          simp [pyOperator, pvOrd, scOrd, Scalar.number?, PyNumber.exact, cast_lt_iff, cast_eq_iff, Num.le, Num.lt, Num.eq,
            h1, h2]
        · intro hh; cases hh
        · intro _; have : a < b := by omega
          simp only [h, this, if_true, if_false]
          exact ⟨by simp, pos _ (by omega)⟩
  obtain ⟨hc, hT, hF⟩ := cons
  obtain ⟨dT, dF, hdT, hdF, hr⟩ := record_of_consistent hc v
  rw [hT] at hdT; rw [hF] at hdF
  cases hdT; cases hdF
  refine ⟨hr, ?_⟩
  cases v
  · exact C04_full rd op same _ _
  · exact C04_legacy_partial hc

/-! ## The code before the repair violates the property

Each witness is replayed on the real tracer by the harness (`witnesses()` in `harness/c04.py`). -/

/-- D3: `nan == 1.0` is `False`, but `_eq` yields `abs(nan - 1.0) = nan` and the assertion
`distance_true >= 0.0` fails inside the module under test. -/
theorem C04_legacy_cex_nan :
    pyOperator .eq false (.sc (.float .nan)) (.sc (.float (.fin 1))) = .ok false ∧
    executedComparePredicate .legacy roundNearestEven .eq false (.sc (.float .nan))
      (.sc (.float (.fin 1))) = .error .assertionError := by
  decide +kernel

/-- `inf < inf` is `False`, but `_lt` yields `(inf - inf) + 1.0 = nan`. -/
theorem C04_legacy_cex_inf_minus_inf :
    pyOperator .lt false (.sc (.float .pinf)) (.sc (.float .pinf)) = .ok false ∧
    executedComparePredicate .legacy roundNearestEven .lt false (.sc (.float .pinf))
      (.sc (.float .pinf)) = .error .assertionError := by
  decide +kernel

/-- D4: `2^53+1 <= 2^53` is `False`, but `float(2^53+1) - float(2^53) = 0.0`: both distances are
zero and the assertion fails. -/
theorem C04_legacy_cex_precision :
    pyOperator .le false (.sc (.int (2 ^ 53 + 1))) (.sc (.int (2 ^ 53))) = .ok false ∧
    executedComparePredicate .legacy roundNearestEven .le false (.sc (.int (2 ^ 53 + 1)))
      (.sc (.int (2 ^ 53))) = .error .assertionError := by
  decide +kernel

/-- D4: `1 < 10^400` is `True`, but `_le(10^400, 1)` raises `OverflowError`. -/
theorem C04_legacy_cex_overflow :
    pyOperator .lt false (.sc (.int 1)) (.sc (.int (10 ^ 400))) = .ok true ∧
    executedComparePredicate .legacy roundNearestEven .lt false (.sc (.int 1))
      (.sc (.int (10 ^ 400))) = .error .overflowError := by
  decide +kernel

/-- D5: a class defining only `__lt__`: `a < b` is `True`, the legacy code also evaluates
`b <= a`, which raises `TypeError`. -/
theorem C04_legacy_cex_partial_protocol :
    ¬ Holds (.ok true) (recordCompare .legacy (.ok true) (.ok (.fin 0)) (.error .typeError)) := by
  intro h
  obtain ⟨_, _, h, _⟩ := h.1 true rfl
  simp [recordCompare, compareDistancesLegacy, bind, Except.bind] at h

/-- Partial orders (`{1} < {2}` is `False` and so is `{2} <= {1}`): both helpers return `inf`. -/
theorem C04_legacy_cex_partial_order :
    ¬ Holds (.ok false) (recordCompare .legacy (.ok false) (.ok .pinf) (.ok .pinf)) := by
  intro h
  obtain ⟨_, _, h, _⟩ := h.1 false rfl
  have he : recordCompare .legacy (.ok false) (.ok .pinf) (.ok .pinf)
      = .error .assertionError := by decide
  rw [he] at h; cases h

/-- One-shot iterators (`2 in iter([1, 2, 3])` consumes the `2`; `2 not in <rest>` is then `True`
as well) and inconsistent operators: both helpers return `0.0`. -/
theorem C04_legacy_cex_both_zero :
    ¬ Holds (.ok true) (recordCompare .legacy (.ok true) (.ok (.fin 0)) (.ok (.fin 0))) := by
  intro h
  obtain ⟨_, _, h, _⟩ := h.1 true rfl
  have he : recordCompare .legacy (.ok true) (.ok (.fin 0)) (.ok (.fin 0))
      = .error .assertionError := by decide +kernel
  rw [he] at h; cases h

/-- Truthiness of NaN: `bool(nan)` is `True`, `float(abs(nan))` is NaN. -/
theorem C04_legacy_cex_bool_nan :
    executedBoolPredicate .legacy roundNearestEven (.sc (.float .nan)) = .error .assertionError := by
  decide +kernel

/-- Truthiness of a huge int: `float(abs(10^400))` raises `OverflowError`. -/
theorem C04_legacy_cex_bool_overflow :
    executedBoolPredicate .legacy roundNearestEven (.sc (.int (10 ^ 400)))
      = .error .overflowError := by
  decide +kernel

/-- The full statement fails for the code before the repair. -/
theorem C04_legacy_violates :
    ¬ ∀ (op : CmpOp) (same : Bool) (v1 v2 : PyVal),
      Holds (pyOperator op same v1 v2)
        (executedComparePredicate .legacy roundNearestEven op same v1 v2) := by
  intro h
  obtain ⟨_, _, h, _⟩ := (h .eq false (.sc (.float .nan)) (.sc (.float (.fin 1)))).1 false
    C04_legacy_cex_nan.1
  rw [C04_legacy_cex_nan.2] at h
  cases h

/-! ## Non-vacuity -/

example : GoodRounding exactRounding := goodRounding_exact

-- repaired code on the former witnesses
example : executedComparePredicate .repaired roundNearestEven .le false (.sc (.int (2 ^ 53 + 1)))
    (.sc (.int (2 ^ 53))) = .ok (.pinf, .fin 0) := by decide +kernel

example : executedComparePredicate .repaired roundNearestEven .lt false (.sc (.int 1))
    (.sc (.int (10 ^ 400))) = .ok (.fin 0, .pinf) := by decide +kernel

-- ordinary inputs keep their classical distances
example : executedComparePredicate .repaired roundNearestEven .lt false (.sc (.int 5))
    (.sc (.int 3)) = .ok (.fin 3, .fin 0) := by decide +kernel

example : executedComparePredicate .repaired roundNearestEven .isIn false (.sc (.int 5))
    (.list [.int 28, .int 42, .int (-12)]) = .ok (.fin 17, .fin 0) := by decide +kernel

example : executedComparePredicate .repaired exactRounding .lt false (.sc (.str [98, 99]))
    (.sc (.str [98, 97])) = .ok (.fin 3, .fin 0) := by decide +kernel

example : Consistent (.ok true) (.ok (.fin 0)) (.ok (.fin 2)) :=
  ⟨true, _, _, rfl, rfl, rfl, fun _ => ⟨rfl, by decide +kernel⟩, fun h => by cases h⟩

end PynguinModel.Distances
