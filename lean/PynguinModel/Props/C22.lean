import PynguinModel.Lemmas.Minimize
/-!
# C22 — Minimization never reduces coverage

Property theorems only.  `cov : Suite → V` is an ARBITRARY coverage function (the vector of the values of all
optimised coverage functions; see the header of `Model/Minimize.lean` for why `math.isclose` is `=`), the suite,
the test cases, the strategy, the direction, the exception positions and the behaviour of
`remove_unused_variables` (`ru`) are arbitrary as well.  A result `some r` is a run of the Python code that
terminates without an `IndexError`; the `_total` theorems show that the loops always produce one.

The theorems describe the code WITH the proposed repairs (`recheck = true`: `_minimize` re-reads the coverage
of the minimized suite instead of the cached value; `guard = true`: the combined visitor skips protected
statements; assertion sources are reduced to their root variable).  The `_cex` theorems show what happens
without them.
-/
namespace PynguinModel.Minimize
open PynguinModel.TestCase

variable {V : Type} [DecidableEq V]

/-- a statement whose variable is asserted on -/
def AssertedIn (l : List Stmt) (st : Stmt) : Prop := ∃ v, st.bound = some v ∧ v ∈ directAsserted l

/-! ## `get_assertion_protected_variables` -/

/-- The protected set always exists (the `while changed` loop terminates), contains every directly asserted
variable and is closed under "names read by a statement that binds a protected name". -/
theorem protected_closed (l : List Stmt) :
    ∃ p, protectedVars l = some p ∧ (∀ v ∈ directAsserted l, v ∈ p) ∧
      ∀ s ∈ l, ∀ v, s.bound = some v → v ∈ p → ∀ u ∈ s.uses, u ∈ p := by
  obtain ⟨p, hp⟩ := protectedVars_total l
  exact ⟨p, hp, (protectedVars_spec hp).2, (protectedVars_spec hp).1⟩

/-- Removing an unprotected statement together with its forward dependencies removes no protected statement
(for any backward-closed set `p`). -/
theorem removal_spares_protected {tc : TC} {i : Nat} {r : TC × List Nat} {p : List Name} {root : Stmt}
    (h : tc.removeFwd i = some r) (hroot : tc.stmts[i]? = some root) (hnp : isProt root p = false)
    (hcl : ∀ s ∈ tc.stmts, ∀ v, s.bound = some v → v ∈ p → ∀ u ∈ s.uses, u ∈ p) :
    ∀ s ∈ tc.stmts, isProt s p = true → s ∈ r.1.stmts :=
  removeFwd_keeps_protected h hroot hnp hcl

/-! ## the per-test-case visitors -/

private theorem stepOK_cov (cov : Suite → V) (orig : V) (prot : List Name) :
    StepOK (fun cl => decide (cov (single cl) = orig)) prot (fun t => cov (single t) = orig) := by
  intro tc i s r _ _ _ _ ha
  simpa using ha

/-- FORWARD: the minimized test case has exactly the coverage values of the unminimized one. -/
theorem forward_preserves_cov (cov : Suite → V) (tc : TC) (r : TC × Nat) (h : forwardMin cov tc = some r) :
    cov [r.1] = cov [tc] := by
  unfold forwardMin at h
  cases hp : protectedVars tc.stmts with
  | none => simp [hp] at h
  | some p =>
    simp only [hp] at h
    exact fwdOuter_inv (stepOK_cov cov (cov (single tc)) p) _ _ _ _ rfl h

/-- BACKWARD: the same. -/
theorem backward_preserves_cov (cov : Suite → V) (tc : TC) (r : TC × Nat) (h : backwardMin cov tc = some r) :
    cov [r.1] = cov [tc] := by
  unfold backwardMin at h
  cases hp : protectedVars tc.stmts with
  | none => simp [hp] at h
  | some p =>
    simp only [hp] at h
    exact bwdOuter_inv (stepOK_cov cov (cov (single tc)) p) _ _ _ _ rfl h

/-- FORWARD/BACKWARD: the result is a subsequence of the original statements (no new statement, order kept)
and every protected statement – in particular every statement whose variable is asserted on – is kept. -/
theorem iterative_keeps_asserted (cov : Suite → V) (forward : Bool) (tc : TC) (r : TC × Nat)
    (h : iterMin cov forward tc = some r) :
    r.1.stmts.Sublist tc.stmts ∧ r.1.counter = tc.counter ∧
    (∀ p, protectedVars tc.stmts = some p → ∀ s ∈ tc.stmts, isProt s p = true → s ∈ r.1.stmts) ∧
    (∀ s ∈ tc.stmts, AssertedIn tc.stmts s → s ∈ r.1.stmts) := by
  obtain ⟨p, hp, hdir, hcl⟩ := protected_closed tc.stmts
  have key : (r.1.stmts.Sublist tc.stmts ∧ ∀ s ∈ tc.stmts, isProt s p = true → s ∈ r.1.stmts) ∧
      r.1.counter = tc.counter := by
    unfold iterMin at h
    cases forward with
    | true =>
      simp only [if_true, forwardMin, hp] at h
      exact ⟨fwdOuter_inv (stepOK_keep _ tc.stmts p hcl) _ _ _ _ ⟨List.Sublist.refl _, fun s hs _ => hs⟩ h,
        fwdOuter_inv (P := fun t => t.counter = tc.counter)
          (fun t i s q ht _ _ hq _ => (removeFwd_sublist hq).2.trans ht) _ _ _ _ rfl h⟩
    | false =>
      simp only [Bool.false_eq_true, if_false, backwardMin, hp] at h
      exact ⟨bwdOuter_inv (stepOK_keep _ tc.stmts p hcl) _ _ _ _ ⟨List.Sublist.refl _, fun s hs _ => hs⟩ h,
        bwdOuter_inv (P := fun t => t.counter = tc.counter)
          (fun t i s q ht _ _ hq _ => (removeFwd_sublist hq).2.trans ht) _ _ _ _ rfl h⟩
  refine ⟨key.1.1, key.2, ?_, ?_⟩
  · intro p' hp'
    rw [hp] at hp'
    cases hp'
    exact key.1.2
  · intro s hs ⟨v, hb, hv⟩
    exact key.1.2 s hs (by simp [isProt, hb, hdir v hv])

/-! ## `generator._minimize`: compare and restore -/

/-- **Coverage is never reduced** (repaired `_minimize`, every strategy, every direction, every behaviour of
the visitors and of `remove_unused_variables`): before the empty test cases are dropped the suite has exactly
the coverage values of the unminimized (truncated) suite – either the comparison succeeded on the freshly
computed values or the saved suite was restored. -/
theorem finish_preserves_cov (cov : Suite → V) (saved cur : Suite) (changed : Bool) (a b : Nat)
    (hE : ∀ s, cov (dropEmpty s) = cov s) :
    cov (finish cov true (cov saved) saved cur changed a b).final = cov saved := by
  unfold finish
  simp only [Bool.true_or, if_true]
  split
  · rename_i h; simp only; rw [hE]; exact h
  · simp only; rw [hE]

theorem minimize_preserves_cov (cov : Suite → V) (ru : TC → TC) (strat : Strategy) (forward guard : Bool)
    (chops : List (Option Int)) (s : Suite) (r : Result V)
    (hE : ∀ s, cov (dropEmpty s) = cov s)
    (h : minimize cov ru strat forward true guard chops s = some r) :
    cov r.final = cov (truncate chops s) := by
  unfold minimize at h
  cases strat with
  | combined =>
    simp only at h
    cases hc : combinedMin cov guard (truncate chops s) with
    | none => simp [hc] at h
    | some q => simp only [hc, Option.some.injEq] at h; subst h; exact finish_preserves_cov cov _ _ _ _ _ hE
  | case =>
    simp only at h
    cases hc : casePhase cov ru forward (truncate chops s) with
    | none => simp [hc] at h
    | some q => simp only [hc, Option.some.injEq] at h; subst h; exact finish_preserves_cov cov _ _ _ _ _ hE
  | suite =>
    simp only at h
    cases hc : casePhase cov ru forward (truncate chops s) with
    | none => simp [hc] at h
    | some q =>
      simp only [hc] at h
      cases hs : suiteMin cov q.1 with
      | none => simp [hs] at h
      | some q2 => simp only [hs, Option.some.injEq] at h; subst h; exact finish_preserves_cov cov _ _ _ _ _ hE


/-! ## the suite visitors -/

/-- COMBINED (with or without the guard): the minimized suite has exactly the coverage values of the original. -/
theorem combined_preserves_cov (cov : Suite → V) (guard : Bool) (s : Suite) (r : Suite × Nat)
    (h : combinedMin cov guard s = some r) : cov r.1 = cov s := by
  unfold combinedMin at h
  cases hw : withProt guard s with
  | none => simp [hw] at h
  | some ps =>
    simp only [hw] at h
    cases hc : combOuter cov (cov s) (totalSize s + 1) ps 0 with
    | none => simp [hc] at h
    | some q =>
      simp only [hc, Option.some.injEq] at h
      subst h
      have hun := withProt_unzip guard s ps hw
      refine combOuter_inv cov (cov s) (fun ps => cov (unzipP ps) = cov s) ?_ _ _ _ _ (by rw [hun]) hc
      intro done x todo tc i st q' _ _ _ _ ha
      rw [unzipP_append_cons]
      simpa using ha

/-- what a minimized test case keeps of the original one -/
def KeepsAsserted (t' t : TC) : Prop := ∀ st ∈ t.stmts, AssertedIn t.stmts st → st ∈ t'.stmts

/-- COMBINED (repaired: guarded): test case by test case, the result is a subsequence of the original
statements and every statement whose variable is asserted on is kept. -/
theorem combined_keeps_asserted (cov : Suite → V) (s : Suite) (r : Suite × Nat)
    (h : combinedMin cov true s = some r) :
    All2 (fun t' t => t'.stmts.Sublist t.stmts ∧ KeepsAsserted t' t) r.1 s := by
  unfold combinedMin at h
  cases hw : withProt true s with
  | none => simp [hw] at h
  | some ps =>
    simp only [hw] at h
    cases hc : combOuter cov (cov s) (totalSize s + 1) ps 0 with
    | none => simp [hc] at h
    | some q =>
      simp only [hc, Option.some.injEq] at h
      subst h
      obtain ⟨hun, hrefl, hprot⟩ := withProt_spec s ps hw
      have hk := combOuter_keep cov (cov s) ps _ _ _ _ hrefl hc
      have := All2.map_imp (R' := fun t' t => t'.stmts.Sublist t.stmts ∧ KeepsAsserted t' t)
        (fun x : PTC => x.1) (fun y : PTC => y.1) hk (by
          intro x y hy ⟨_, _, hsub, hkeep⟩
          refine ⟨hsub, ?_⟩
          intro st hst ⟨v, hb, hv⟩
          have hp := hprot y hy
          exact hkeep st hst (by simp [isProt, hb, (protectedVars_spec hp).2 v hv]))
      simp only [unzipP] at hun ⊢
      rw [hun] at this
      exact this

/-- SUITE visitor: only whole test cases go, the others are untouched (order kept). -/
theorem suite_min_sublist (cov : Suite → V) (s : Suite) (r : Suite × Nat) (h : suiteMin cov s = some r) :
    r.1.Sublist s := suiteMin_sublist cov s r h

/-! ## `_minimize`: no new statement, asserted statements kept -/

/-- what C22 needs from `remove_unused_variables` (property C19): every statement stays, at most losing its
binder, and a statement whose variable is asserted on stays as it is and stays asserted. -/
structure RuOK (ru : TC → TC) : Prop where
  sub : ∀ t, All2 Unb (ru t).stmts t.stmts
  keep : ∀ t st, st ∈ t.stmts → AssertedIn t.stmts st → st ∈ (ru t).stmts ∧ AssertedIn (ru t).stmts st

theorem casePhase_spec (cov : Suite → V) (ru : TC → TC) (hru : RuOK ru) (forward : Bool) :
    ∀ (s : Suite) (r : Suite × Nat), casePhase cov ru forward s = some r →
      All2 (fun t' t => SubU t'.stmts t.stmts ∧ KeepsAsserted t' t) r.1 s := by
  intro s
  induction s with
  | nil => intro r h; simp [casePhase] at h; subst h; exact All2.nil
  | cons t s ih =>
    intro r h
    unfold casePhase at h
    cases hi : iterMin cov forward (ru t) with
    | none => simp [hi] at h
    | some q =>
      simp only [hi] at h
      cases hc : casePhase cov ru forward s with
      | none => simp [hc] at h
      | some rs =>
        simp only [hc, Option.some.injEq] at h
        subst h
        obtain ⟨hsub, _, _, hkeep⟩ := iterative_keeps_asserted cov forward (ru t) q hi
        refine All2.cons ⟨SubU.sublist_left hsub (SubU.of_all2 (hru.sub t)), ?_⟩ (ih rs hc)
        intro st hst ha
        obtain ⟨h1, h2⟩ := hru.keep t st hst ha
        exact hkeep st h1 h2

private theorem finish_final (cov : Suite → V) (recheck : Bool) (orig : V) (saved cur : Suite) (changed : Bool)
    (a b : Nat) :
    (finish cov recheck orig saved cur changed a b).final = dropEmpty cur ∨
    (finish cov recheck orig saved cur changed a b).final = dropEmpty saved := by
  unfold finish
  simp only
  by_cases hc : (if (recheck || changed) = true then cov cur else orig) = orig
  · left; simp only [hc, if_true]
  · right; simp only [hc, if_false]

/-- the intermediate suites `_minimize` can end with -/
private theorem minimize_final (cov : Suite → V) (ru : TC → TC) (strat : Strategy) (forward recheck guard : Bool)
    (chops : List (Option Int)) (s : Suite) (r : Result V)
    (h : minimize cov ru strat forward recheck guard chops s = some r) :
    r.final = dropEmpty (truncate chops s) ∨
    (strat = .combined ∧ ∃ q, combinedMin cov guard (truncate chops s) = some q ∧ r.final = dropEmpty q.1) ∨
    (strat = .case ∧ ∃ q, casePhase cov ru forward (truncate chops s) = some q ∧ r.final = dropEmpty q.1) ∨
    (strat = .suite ∧ ∃ q q2, casePhase cov ru forward (truncate chops s) = some q ∧ suiteMin cov q.1 = some q2 ∧
      r.final = dropEmpty q2.1) := by
  unfold minimize at h
  cases strat with
  | combined =>
    simp only at h
    cases hc : combinedMin cov guard (truncate chops s) with
    | none => simp [hc] at h
    | some q =>
      simp only [hc, Option.some.injEq] at h
      subst h
      rcases finish_final cov recheck (cov (truncate chops s)) (truncate chops s) q.1 (decide (q.2 > 0)) q.2 0
        with h1 | h1
      · exact Or.inr (Or.inl ⟨rfl, q, rfl, h1⟩)
      · exact Or.inl h1
  | case =>
    simp only at h
    cases hc : casePhase cov ru forward (truncate chops s) with
    | none => simp [hc] at h
    | some q =>
      simp only [hc, Option.some.injEq] at h
      subst h
      rcases finish_final cov recheck (cov (truncate chops s)) (truncate chops s) q.1 false q.2 0 with h1 | h1
      · exact Or.inr (Or.inr (Or.inl ⟨rfl, q, rfl, h1⟩))
      · exact Or.inl h1
  | suite =>
    simp only at h
    cases hc : casePhase cov ru forward (truncate chops s) with
    | none => simp [hc] at h
    | some q =>
      simp only [hc] at h
      cases hs : suiteMin cov q.1 with
      | none => simp [hs] at h
      | some q2 =>
        simp only [hs, Option.some.injEq] at h
        subst h
        rcases finish_final cov recheck (cov (truncate chops s)) (truncate chops s) q2.1 (decide (q2.2 > 0)) q.2 q2.2
          with h1 | h1
        · exact Or.inr (Or.inr (Or.inr ⟨rfl, q, q2, rfl, hs, h1⟩))
        · exact Or.inl h1

private theorem dropEmpty_sublist (s : Suite) : (dropEmpty s).Sublist s := List.filter_sublist

/-- **No new statement** (every strategy and direction, repaired or not): every test case of the minimized suite
stems from a test case of the (truncated) unminimized suite, in order, and its statements are a subsequence of
that test case's statements (a statement may only have lost its binder to `remove_unused_variables`). -/
theorem minimize_no_new_statement (cov : Suite → V) (ru : TC → TC) (hru : RuOK ru) (strat : Strategy)
    (forward recheck guard : Bool) (chops : List (Option Int)) (s : Suite) (r : Result V)
    (h : minimize cov ru strat forward recheck guard chops s = some r) :
    SuiteSub r.final (truncate chops s) := by
  rcases minimize_final cov ru strat forward recheck guard chops s r h with h1 | ⟨_, q, hq, h1⟩ | ⟨_, q, hq, h1⟩ |
    ⟨_, q, q2, hq, hq2, h1⟩
  · rw [h1]; exact SuiteSub.sublist_left (dropEmpty_sublist _) (SuiteSub.refl _)
  · rw [h1]
    refine SuiteSub.sublist_left (dropEmpty_sublist _) (SuiteSub.of_all2 ?_)
    cases guard with
    | true =>
      have := All2.map_imp (R' := fun (t' t : TC) => SubU t'.stmts t.stmts) id id
        (combined_keeps_asserted cov _ q hq) (fun x y _ hxy => SubU.sublist_left hxy.1 (SubU.refl _))
      simpa using this
    | false =>
      -- without the guard: the same invariant with an empty protected set
      unfold combinedMin at hq
      cases hw : withProt false (truncate chops s) with
      | none => simp [hw] at hq
      | some ps =>
        simp only [hw] at hq
        cases hc : combOuter cov (cov (truncate chops s)) (totalSize (truncate chops s) + 1) ps 0 with
        | none => simp [hc] at hq
        | some q' =>
          simp only [hc, Option.some.injEq] at hq
          subst hq
          have hun := withProt_unzip false _ ps hw
          have hstep : ∀ (done : List PTC) (x : PTC) (todo : List PTC) (l0 : List Stmt),
              StepOK (fun cl => decide (cov (unzipP done ++ cl :: unzipP todo) = cov (truncate chops s))) x.2
                (fun t => t.stmts.Sublist l0) :=
            fun _ _ _ _ tc i st q'' hp _ _ hrm _ => (removeFwd_sublist hrm).1.trans hp
          -- pointwise sublist through the sweeps
          have key : ∀ fuel (cur : List PTC) rem res, All2 (fun (x y : PTC) => x.1.stmts.Sublist y.1.stmts) cur ps →
              combOuter cov (cov (truncate chops s)) fuel cur rem = some res →
              All2 (fun (x y : PTC) => x.1.stmts.Sublist y.1.stmts) res.1 ps := by
            intro fuel
            induction fuel with
            | zero => intro cur rem res _ hr; simp [combOuter] at hr
            | succ fuel ih =>
              intro cur rem res hcur hr
              unfold combOuter at hr
              cases hf : combFor cov (cov (truncate chops s)) [] cur rem false with
              | none => simp [hf] at hr
              | some z =>
                simp only [hf] at hr
                have hz : All2 (fun (x y : PTC) => x.1.stmts.Sublist y.1.stmts) z.1 ps := by
                  have gen : ∀ todo t0 done d0 rem ch z,
                      All2 (fun (x y : PTC) => x.1.stmts.Sublist y.1.stmts) done d0 →
                      All2 (fun (x y : PTC) => x.1.stmts.Sublist y.1.stmts) todo t0 →
                      combFor cov (cov (truncate chops s)) done todo rem ch = some z →
                      All2 (fun (x y : PTC) => x.1.stmts.Sublist y.1.stmts) z.1 (d0 ++ t0) := by
                    intro todo
                    induction todo with
                    | nil =>
                      intro t0 done d0 rem ch z h1 h2 hz
                      cases h2
                      simp [combFor] at hz
                      subst hz
                      simpa using h1
                    | cons x todo ih2 =>
                      intro t0 done d0 rem ch z h1 h2 hz
                      cases h2 with
                      | cons hxy hrest =>
                        rename_i y t0'
                        unfold combFor at hz
                        cases hsc : scanFwd (fun cl => decide (cov (unzipP done ++ cl :: unzipP todo) =
                            cov (truncate chops s))) x.2 (x.1.size + 1) x.1 0 rem false with
                        | none => simp [hsc] at hz
                        | some w =>
                          simp only [hsc] at hz
                          have hw' := scanFwd_inv (hstep done x todo y.1.stmts) _ _ _ _ _ _ hxy hsc
                          have := ih2 t0' (done ++ [(w.1, x.2)]) (d0 ++ [y]) _ _ _
                            (forall₂_append h1 (All2.cons hw' All2.nil)) hrest hz
                          simpa using this
                  simpa using gen cur ps [] [] rem false z All2.nil hcur hf
                cases hch : z.2.2 with
                | true => simp only [hch, if_true] at hr; exact ih _ _ _ hz hr
                | false =>
                  simp only [hch, Bool.false_eq_true, if_false, Option.some.injEq] at hr; subst hr; exact hz
          have hres := key _ ps 0 q' (All2.refl_of _ (fun _ _ => List.Sublist.refl _)) hc
          have := All2.map_imp (R' := fun (t' t : TC) => SubU t'.stmts t.stmts) (fun x : PTC => x.1)
            (fun y : PTC => y.1) hres (fun x y _ hxy => SubU.sublist_left hxy (SubU.refl _))
          simp only [unzipP] at hun ⊢
          rw [hun] at this
          exact this
  · rw [h1]
    refine SuiteSub.sublist_left (dropEmpty_sublist _) (SuiteSub.of_all2 ?_)
    have := All2.map_imp (R' := fun (t' t : TC) => SubU t'.stmts t.stmts) id id
      (casePhase_spec cov ru hru forward _ q hq) (fun x y _ hxy => hxy.1)
    simpa using this
  · rw [h1]
    refine SuiteSub.sublist_left ((dropEmpty_sublist _).trans (suite_min_sublist cov _ q2 hq2)) (SuiteSub.of_all2 ?_)
    have := All2.map_imp (R' := fun (t' t : TC) => SubU t'.stmts t.stmts) id id
      (casePhase_spec cov ru hru forward _ q hq) (fun x y _ hxy => hxy.1)
    simpa using this

/-- `ExceptionTruncation` only cuts statements off the end of a test case. -/
theorem truncate_is_prefix (chops : List (Option Int)) (s : Suite) :
    All2 (fun t' t => t'.stmts.Sublist t.stmts) (truncate chops s) s := truncate_prefix chops s

/-- **Asserted statements are kept** (CASE and the repaired COMBINED, every direction, repaired comparison or
not): every statement of the (truncated) unminimized suite whose variable is asserted on is still a statement
of the minimized suite. -/
theorem minimize_keeps_asserted (cov : Suite → V) (ru : TC → TC) (hru : RuOK ru) (strat : Strategy)
    (hstrat : strat ≠ .suite) (forward recheck : Bool) (chops : List (Option Int)) (s : Suite) (r : Result V)
    (h : minimize cov ru strat forward recheck true chops s = some r) :
    ∀ t ∈ truncate chops s, ∀ st ∈ t.stmts, AssertedIn t.stmts st → ∃ t' ∈ r.final, st ∈ t'.stmts := by
  intro t ht st hst ha
  have keep_nonempty : ∀ (cur : Suite) (t' : TC), t' ∈ cur → st ∈ t'.stmts → ∃ t'' ∈ dropEmpty cur, st ∈ t''.stmts := by
    intro cur t' h1 h2
    refine ⟨t', List.mem_filter.2 ⟨h1, ?_⟩, h2⟩
    have : 0 < t'.stmts.length := List.length_pos_of_mem h2
    simpa [TC.size] using this
  rcases minimize_final cov ru strat forward recheck true chops s r h with h1 | ⟨_, q, hq, h1⟩ | ⟨_, q, hq, h1⟩ |
    ⟨hs, _⟩
  · rw [h1]; exact keep_nonempty _ t ht hst
  · rw [h1]
    obtain ⟨t', ht', hk⟩ := (combined_keeps_asserted cov _ q hq).exists_of_mem_right ht
    exact keep_nonempty _ t' ht' (hk.2 st hst ha)
  · rw [h1]
    obtain ⟨t', ht', hk⟩ := (casePhase_spec cov ru hru forward _ q hq).exists_of_mem_right ht
    exact keep_nonempty _ t' ht' (hk.2 st hst ha)
  · exact absurd hs hstrat

/-! ## termination -/

/-- FORWARD/BACKWARD and the whole per-test-case phase always terminate without an `IndexError`. -/
theorem iterative_total (cov : Suite → V) (forward : Bool) (tc : TC) : ∃ r, iterMin cov forward tc = some r :=
  iterMin_total cov forward tc

theorem minimize_case_total (cov : Suite → V) (ru : TC → TC) (forward recheck guard : Bool)
    (chops : List (Option Int)) (s : Suite) : ∃ r, minimize cov ru .case forward recheck guard chops s = some r := by
  obtain ⟨q, hq⟩ := casePhase_total cov ru forward (truncate chops s)
  exact ⟨finish cov recheck (cov (truncate chops s)) (truncate chops s) q.1 false q.2 0, by simp [minimize, hq]⟩


/-! ## the hypotheses are satisfiable; what happens without the repairs -/

/-- The hypothesis of `minimize_preserves_cov` holds for the goal-counting coverage functions of the driver:
an empty test case executes nothing. -/
theorem covVec_dropEmpty (raising : List String) (fs : List (List Goal)) (s : Suite) :
    covVec raising fs (dropEmpty s) = covVec raising fs s := by
  have key : ∀ g : Goal, goalCovered raising g (dropEmpty s) = goalCovered raising g s := by
    intro g
    unfold goalCovered dropEmpty
    induction s with
    | nil => rfl
    | cons t s ih =>
      simp only [List.filter_cons]
      by_cases ht : t.size > 0
      · simp only [ht, decide_true, if_true, List.any_cons, ih]
      · have hnil : t.stmts = [] := by
          cases hl : t.stmts with
          | nil => rfl
          | cons a l => simp [TC.size, hl] at ht
        have hf : (g.any fun c => clauseHolds c [] (runTags raising t.stmts)) = false := by
          rw [hnil]
          simp [runTags, clauseHolds]
        simp only [ht, decide_false, Bool.false_eq_true, if_false, List.any_cons, hf, Bool.false_or, ih]
  unfold covVec goalCov
  simp only [key]

example : RuOK id :=
  ⟨fun _ => All2.refl_of _ (fun _ _ => Or.inl rfl), fun _ _ h1 h2 => ⟨h1, h2⟩⟩

private def mk (b : Option Nat) (tag : String) (args asserts : List Nat) : Stmt :=
  { bound := b.map Name.var, btype := b.map (fun _ => 0), uses := Name.ext tag :: args.map Name.var,
    asserts := asserts.map Name.var, simpleAssign := b.isSome }

private def tcOf (l : List Stmt) : TC := ⟨l, 1000, rebuild l⟩

/-- `var_0 = a(); var_1 = b(); var_2 = a()` and `var_0 = b()`; goals: `a` ran, `b` ran after `a`, `b` ran with no
`a` before it.  Without its first statement the first test still covers two goals – but different ones. -/
private def W1 : Suite :=
  [tcOf [mk (some 0) "a" [] [], mk (some 1) "b" [] [], mk (some 2) "a" [] []], tcOf [mk (some 0) "b" [] []]]

private def G1 : List (List Goal) := [[[⟨"a", [], []⟩], [⟨"b", ["a"], []⟩], [⟨"b", [], ["a"]⟩]]]

/-- The per-test-case visitors keep every test case's OWN coverage values, yet the suite may lose a goal: the
comparison at the end of `_minimize` is what the property rests on. -/
theorem case_phase_loses_suite_coverage_cex :
    (casePhase (covVec [] G1) id true W1).map (fun r => (covVec [] G1 r.1, covVec [] G1 W1)) = some ([2], [3]) := by
  decide +kernel

/-- Before the repair (`recheck = false`) `_minimize` compared the cached value with itself: CASE/FORWARD
leaves a suite with LESS coverage behind. -/
theorem minimize_stale_cache_cex :
    (minimize (covVec [] G1) id .case true false true [] W1).map
      (fun r => (r.restored, covVec [] G1 r.final, covVec [] G1 W1)) = some (false, [2], [3]) := by
  decide +kernel

/-- The repaired `_minimize` on the same input notices the loss and restores the suite. -/
example :
    (minimize (covVec [] G1) id .case true true true [] W1).map
      (fun r => (r.restored, covVec [] G1 r.final, r.final.map (·.stmts.length))) = some (true, [3], [3, 1]) := by
  decide +kernel

/-- `var_0 = a()  # assert var_0` and `var_0 = a(); var_1 = b()`; goals: `a` ran, `b` ran. -/
private def W2 : Suite :=
  [tcOf [mk (some 0) "a" [] [0]], tcOf [mk (some 0) "a" [] [], mk (some 1) "b" [] []]]

private def G2 : List (List Goal) := [[[⟨"a", [], []⟩], [⟨"b", [], []⟩]]]

/-- Before the repair (`guard = false`) the combined visitor removed an asserted statement whose coverage another
test case provides (the first test case ends up empty). -/
theorem combined_unguarded_cex :
    (combinedMin (covVec [] G2) false W2).map (fun r => r.1.map (·.stmts.length)) = some [0, 2] := by
  decide +kernel

/-- The repaired combined visitor keeps it (and removes the redundant statement of the other test instead). -/
example : (combinedMin (covVec [] G2) true W2).map (fun r => r.1.map (·.stmts.length)) = some [1, 1] := by
  decide +kernel

/-- FORWARD on a test case with an asserted statement, a statement it depends on and a redundant one. -/
example :
    (forwardMin (covVec [] G2)
        (tcOf [mk (some 0) "c" [] [], mk (some 1) "a" [0] [1], mk (some 2) "c" [] [], mk (some 3) "b" [] []])).map
      (fun r => (r.1.stmts.length, r.2)) = some (3, 1) := by
  decide +kernel

/-- Strategy SUITE removes whole test cases that add no coverage – with their asserted statements (by design;
this is why `minimize_keeps_asserted` excludes it). -/
theorem suite_drops_asserted_cex :
    (minimize (covVec [] G2) id .suite false true true [] W2).map
      (fun r => (r.restored, r.final.map (·.stmts.map (·.asserts)))) = some (false, [[[], []]]) := by
  decide +kernel

/-- The unrepaired `remove_unused_variables` (the model of property C15/C19) does not satisfy `RuOK`: it takes
the binder of `var_0 = a()  # assert var_0` away and drops the assertion (defect D9, repaired by C19). -/
theorem remove_unused_drops_asserted_cex : ¬ RuOK TC.removeUnused := by
  intro h
  have := (h.keep (tcOf [mk (some 0) "a" [] [0]]) (mk (some 0) "a" [] [0]) (by decide)
    ⟨Name.var 0, rfl, by decide⟩).1
  revert this
  decide

end PynguinModel.Minimize
